#!/venv/bin/python
"""Confirm a seeded (property-breaking) change and file it under /verif/seeded/<name>/.

usage: tools/seed_verify.py <name> <property> <dir with patch.diff, demo.py, meta.json> [--no-tests] [--checks C02,C03]

In a scratch worktree of /repo HEAD (outside /repo and /verif, removed afterwards):
  1. demo.py on the unchanged tree must exit 0,
  2. the patch must apply, the library must import, demo.py must exit != 0,
  3. the unedited test suite must still pass (same counts as the baseline),
  4. the registered check(s) are run against the changed tree (PYPDE_REPO) - caught or missed is recorded.
Nothing is ever applied to /repo itself.
"""
import json
import os
import re
import shutil
import subprocess
import sys
import time
from pathlib import Path

VERIF = Path(__file__).resolve().parent.parent


def sh(cmd, cwd=None, env=None, timeout=7200):
    r = subprocess.run(cmd, shell=True, cwd=cwd, env={**os.environ, **(env or {})}, capture_output=True, text=True, timeout=timeout)
    return r.returncode, (r.stdout + r.stderr)


def tests_only(name):
    """run the unedited test suite on HEAD + patch of an already filed seed and record the result"""
    dst = VERIF / "seeded" / name
    meta = json.loads((dst / "meta.json").read_text())
    wt = Path(f"/tmp/seedverify/{name}-tests")
    wt.parent.mkdir(exist_ok=True)
    sh(f"git -C /repo worktree remove --force {wt}")
    rc, out = sh(f"git -C /repo worktree add --detach {wt} HEAD")
    assert rc == 0, out
    try:
        rc, out = sh(f"git apply {dst / 'patch.diff'}", cwd=wt)
        assert rc == 0, out
        t0 = time.time()
        rc, out = sh("/venv/bin/python -m pytest -q -p no:cacheprovider -n 16 --timeout=900 2>&1 | tail -3", cwd=wt,
                     env={"PYTHONPATH": str(wt)}, timeout=10800)
        m = re.search(r"(\d+) passed[^\n]*", out)
        summary = m.group(0) if m else out.strip()[-300:]
        meta["confirmed"]["tests"] = {"command": "python -m pytest -q -p no:cacheprovider -n 16 --timeout=900 (PYTHONPATH=scratch worktree, HEAD + patch)",
                                      "summary": summary, "seconds": round(time.time() - t0)}
        meta["confirmed"]["tests_pass"] = bool(m) and " failed" not in summary and " error" not in summary
    finally:
        sh(f"git -C /repo worktree remove --force {wt}")
        sh("git -C /repo worktree prune")
    (dst / "meta.json").write_text(json.dumps(meta, indent=1, ensure_ascii=False))
    print("SEED", name, "tests:", meta["confirmed"]["tests"]["summary"])


def main():
    name, prop, src = sys.argv[1], sys.argv[2], Path(sys.argv[3])
    no_tests = "--no-tests" in sys.argv
    if "--tests-only" in sys.argv:
        return tests_only(name)
    checks = [prop]
    for a in sys.argv:
        if a.startswith("--checks"):
            checks = sys.argv[sys.argv.index(a) + 1].split(",")
    wt = Path(f"/tmp/seedverify/{name}")
    wt.parent.mkdir(exist_ok=True)
    sh(f"git -C /repo worktree remove --force {wt}")
    rc, out = sh(f"git -C /repo worktree add --detach {wt} HEAD")
    assert rc == 0, out
    rec = {"name": name, "property": prop, "repo_head": sh("git -C /repo rev-parse --short HEAD")[1].strip(), "verified_at": time.strftime("%Y-%m-%d %H:%M:%S")}
    env = {"PYTHONPATH": str(wt)}
    try:
        demo = src / "demo.py"
        rc0, out0 = sh(f"/venv/bin/python {demo}", cwd=wt, env=env, timeout=1800)
        rec["demo_without_change"] = {"exit": rc0, "tail": out0.strip().splitlines()[-1:] }
        rc, out = sh(f"git apply {src / 'patch.diff'}", cwd=wt)
        rec["patch_applies"] = rc == 0
        assert rc == 0, out
        rc, out = sh("/venv/bin/python -c 'import pde, sys; print(pde.__file__)'", cwd=wt, env=env)
        rec["imports"] = rc == 0 and str(wt) in out
        rc1, out1 = sh(f"/venv/bin/python {demo}", cwd=wt, env=env, timeout=1800)
        rec["demo_with_change"] = {"exit": rc1, "tail": out1.strip().splitlines()[-1:]}
        if not no_tests:
            t0 = time.time()
            rc, out = sh("/venv/bin/python -m pytest -q -p no:cacheprovider -n 16 --timeout=900 2>&1 | tail -3", cwd=wt, env=env, timeout=7200)
            m = re.search(r"(\d+) passed.*", out)
            rec["tests"] = {"summary": m.group(0) if m else out.strip()[-300:], "seconds": round(time.time() - t0)}
            rec["tests_pass"] = bool(m) and "failed" not in out and "error" not in out.lower().replace("errors", "")
        rec["checks"] = {}
        for c in checks:
            t0 = time.time()
            rc, out = sh(f"./check {c} --tier quick", cwd=VERIF, env={"PYPDE_REPO": str(wt), "VERIF_OUT": f"/tmp/seedverify/out_{name}"}, timeout=7200)
            sigs = sorted(set(re.findall(r"signature: (.*)", out)))
            rec["checks"][c] = {"exit": rc, "caught": rc == 1 and "VIOLATION" in out, "signatures": sigs[:8], "n_signatures": len(sigs),
                                "seconds": round(time.time() - t0)}
    finally:
        sh(f"git -C /repo worktree remove --force {wt}")
        sh("git -C /repo worktree prune")
        shutil.rmtree(f"/tmp/seedverify/out_{name}", ignore_errors=True)
    dst = VERIF / "seeded" / name
    dst.mkdir(parents=True, exist_ok=True)
    if no_tests and (dst / "meta.json").exists() and (dst / "patch.diff").exists() \
            and (dst / "patch.diff").read_text() == (src / "patch.diff").read_text():
        old = json.loads((dst / "meta.json").read_text()).get("confirmed", {})  # keep an earlier suite run of the same patch
        for k in ("tests", "tests_pass"):
            if k in old:
                rec[k] = old[k]
    shutil.copy(src / "patch.diff", dst / "patch.diff")
    shutil.copy(src / "demo.py", dst / "demo.py")
    agent_meta = {}
    if (src / "meta.json").exists():
        try:
            agent_meta = json.loads((src / "meta.json").read_text())
        except Exception:  # noqa: BLE001
            agent_meta = {"raw": (src / "meta.json").read_text()[:2000]}
    meta = {"breaks_property": prop, "summary": agent_meta.get("summary"), "needs_to_manifest": agent_meta.get("needs"),
            "files": agent_meta.get("files"), "author_tests_run": agent_meta.get("tests_run"), "confirmed": rec}
    (dst / "meta.json").write_text(json.dumps(meta, indent=1, ensure_ascii=False))
    print(json.dumps(rec, indent=1))
    ok = rec["demo_without_change"]["exit"] == 0 and rec["demo_with_change"]["exit"] != 0
    print("SEED", name, "valid" if ok else "INVALID", {c: v["caught"] for c, v in rec["checks"].items()})


if __name__ == "__main__":
    main()
