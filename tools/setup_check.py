#!/venv/bin/python
"""Setup step: nothing is compiled; verify the interpreter, the tools and the layout."""
import os
import subprocess
import sys
from pathlib import Path

VERIF = Path(__file__).resolve().parent.parent
for d in ("evidence", "replays"):
    (VERIF / d).mkdir(exist_ok=True)
os.chmod(VERIF / "check", 0o755)
code = (
    "import sys; sys.path.insert(0, '/repo'); import numba, numpy, scipy, sympy, jsonschema, pde; "
    "print('pde', pde.__file__, 'numba', numba.__version__, 'numpy', numpy.__version__)"
)
r = subprocess.run(["/venv/bin/python", "-c", code], capture_output=True, text=True,
                   env={**os.environ, "NUMBA_DISABLE_JIT": "1"})
print(r.stdout.strip() or r.stderr.strip())
sys.exit(r.returncode)
