#!/venv/bin/python
"""Validate every evidence file against the schema and print a one-line summary per property."""
import json
import sys
from pathlib import Path

import jsonschema

VERIF = Path(__file__).resolve().parent.parent
schema = json.loads(Path("/root/.vp/EVIDENCE.schema.json").read_text())
manifest = json.loads((VERIF / "MANIFEST.json").read_text())
bad = 0
for c in manifest["checks"]:
    p = Path(c["evidence_file"])
    if not p.exists():
        print(f"{c['property_id']}: MISSING {p}")
        bad += 1
        continue
    e = json.loads(p.read_text())
    try:
        jsonschema.validate(e, schema)
    except jsonschema.ValidationError as err:
        print(f"{c['property_id']}: INVALID {err.message[:200]}")
        bad += 1
        continue
    cov = e["coverage"]
    lvl_ok = e["level"] == c["level_claimed"]["category"]
    print(f"{c['property_id']}: ok level={e['level']}{'' if lvl_ok else ' (MANIFEST says ' + c['level_claimed']['category'] + ')'} tier={e['tier']} "
          f"eval={cov.get('evaluations')} distinct={cov.get('distinct_nontrivial')} states={cov.get('states')} "
          f"exhaustive={cov.get('exhaustive')} viol={e.get('violations')} wall={e['wall_s']}s")
    bad += 0 if lvl_ok else 1
sys.exit(1 if bad else 0)
