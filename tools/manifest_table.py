"""Per-property manifest entries (source of MANIFEST.json, see tools/gen_manifest.py)."""

NOTES = (
    "All checks are bounded-exhaustive explorations of the real py-pde code by the hand-written explorer "
    "in /verif/mc (no sampling); see DESIGN.md.  ./check <ID> --tier quick|thorough; violations are written "
    "to /verif/replays/<ID>/ and can be re-executed with --replay.  PYPDE_REPO=<dir> points the checks at "
    "another checkout (used for scratch worktrees with seeded changes)."
)

CHECKS = [
    {
        "property_id": "C20",
        "category": "model_checking",
        "technique": "explicit-state BFS over operation histories of the real MemoryStorage vs a list-based reference model",
        "text": "Breadth-first search over every history of a 14-operation alphabet (start/append/mutate/"
        "read/clear/derive/tracker-driven writes, incompatible fields) up to depth 5 (quick) / 7 (thorough) "
        "for 4 write modes x {single field, collection}; after every transition the real storage's "
        "observations, raised errors and aliasing are compared with a boring reference model; states are "
        "merged on a canonical observation whose soundness is validated by expanding two witnesses per state.",
        "note": "Bounded depth and a fixed tiny field universe (2-3 cells); file/movie storages are outside the "
        "property; trusted: numpy, the reference model (40 lines).",
    },
]

_TODO = "check not yet built in this round (work in progress, see DESIGN.md for the planned bounded-exhaustive check)"
NOT_APPLICABLE = [
    {"property_id": f"C{i:02d}", "reason": _TODO}
    for i in range(1, 21)
    if f"C{i:02d}" not in {c["property_id"] for c in CHECKS}
]
