"""Per-property manifest entries (source of MANIFEST.json, see tools/gen_manifest.py)."""

NOTES = (
    "All checks are bounded-exhaustive explorations of the real py-pde code by the hand-written explorer "
    "in /verif/mc (no sampling); see DESIGN.md.  ./check <ID> --tier quick|thorough; violations are written "
    "to /verif/replays/<ID>/ and can be re-executed with --replay.  PYPDE_REPO=<dir> points the checks at "
    "another checkout (used for scratch worktrees with seeded changes; their output goes to /tmp/verif_scratch_out). "
    "Genuine defects found are either repaired by 'fix:' commits in /repo or listed in known_findings.json."
)

_MODES = (
    "Trusted base: numpy/sympy, the small reference models in the check, and that numba compiles the explored Python "
    "source faithfully (mode I runs kernels with NUMBA_DISABLE_JIT=1; a covering subset is re-run with real JIT)."
)

CHECKS = [
    {
        "property_id": "C01",
        "category": "exploration",
        "technique": "bounded-exhaustive enumeration of (grid, operator, option, backend) x all unit inputs vs a mechanically derived reference stencil; refinement study vs sympy continuum oracle",
        "text": "(a) For every grid family/shape/periodicity in the alphabet, every registered operator incl. single-axis "
        "derivatives and every documented option (method, central, conservative) on the numba and scipy backends the raw "
        "operator is applied to EVERY unit input of the padded array (all admissible components, ghost and corner cells; all "
        "pairs for gradient_squared) and compared entry-wise with the stencil obtained mechanically from the continuum operator "
        "(sympy, Cartesian embedding, no hand-written curvilinear formula) by central/forward/backward differences, resp. the "
        "finite-volume form for conservative spherical operators - this decides the operator for all inputs of those grids. "
        "(b) Observed convergence order on smooth fields against the exact continuum value for every (system, hole, operator, "
        "option), uniformly and at fixed distance from r=0.  Compiled kernels (JIT) are compared with the same reference.",
        "note": "Grid sizes bounded (<= 6 cells per axis for (a), N<=64/128 for (b)); spectral operators, 9-point Laplacian, "
        "jax/torch absent. D8 (conservative spherical tensor divergences near r=0) is a listed known finding. " + _MODES,
    },
    {
        "property_id": "C02",
        "category": "exploration",
        "technique": "bounded-exhaustive enumeration of BC configurations; complete affine map valid->ghost cells by basis extraction vs independent model",
        "text": "Every (grid with 1-3 axes, rank 0-2, non-periodic axis, side, BC type incl. all aliases, normal_* and *_expression "
        "variants, value kind: 0 / scalar / tensor / tensor x per-face array / coordinate expression / coordinate+time expression, "
        "Robin constant kind) is imposed through field.set_ghost_cells, BoundariesList.set_ghost_cells and the source of the compiled "
        "setter on the zero field, EVERY unit basis vector and a generic field with sentinel-filled ghost cells; the complete padded "
        "array is compared with an independent model of the defining identities (so the condition holds for all field contents, no "
        "other cell is touched, normal-only conditions leave other components untouched).  All specification formats (strings, "
        "dicts, wildcard, named sides, alias axis names, instances, legacy low/high and list formats, auto_periodic_*) and "
        "periodic/anti-periodic axes are checked against the same model.",
        "note": "Small grids (<= 4 cells per axis); values from fixed lattices; loud refusals (exceptions) are counted, not flagged. " + _MODES,
    },
    {
        "property_id": "C03",
        "category": "exploration",
        "technique": "bounded-exhaustive route comparison on a covering BC design x basis enumeration; schedule independence via recorded read/write sets (Bernstein) + all loop permutations + enumerated thread counts",
        "text": "For every (grid, operator, rotation of a covering design in which every (axis, side, BC class) occurs) all public "
        "routes - field methods, make_operator on numba and scipy with/without out, compiled vs interpreted ghost-cell setter, "
        "sparse Laplace matrix of the Poisson solvers - are compared with make_operator_no_bc-after-set_ghost_cells on the zero "
        "field, every admissible unit field and a generic field (routes are affine; pairs for gradient_squared).  Schedules of "
        "the parallel kernels: per-iteration read/write sets of every prange loop are recorded (prange replaced, arrays proxied) "
        "and Bernstein's conditions checked, all permutations of the outer loop are executed for small shapes; real parallel "
        "kernels run with 1..16 threads x chunk sizes and must be bit-identical and equal to the serial kernel. Operator options (method=forward/backward, conservative=True/False) are sent through every route as well; all ordered pairs of constant BC classes on the first axis go through the sparse-matrix route.",
        "note": "numba's native thread scheduler is not put under a controlled scheduler (independence argument + enumerated thread "
        "counts instead); entries depending on ghost cells that normal-only BCs leave undefined are masked (determined by running "
        "with different ghost fillers). " + _MODES,
    },
    {
        "property_id": "C04",
        "category": "model_checking",
        "technique": "explicit enumeration of request histories (depth 2-3 + long rotations), each executed in a forked child of an idle interpreter, against the single-request result in a fresh child",
        "text": "State = history of requests.  Every ordered history of depth 2 (depth 3 inside colliding groups and the stateful "
        "family) over alphabets with colliding attributes - make_operator / field operators for up to 15 BC kinds (same value, other "
        "class; per-side mirrors; expression vs constant) on equal grids of another instance, class or coordinate system, PDE "
        "rates / compiled rhs / solve for equations that differ only in BCs, bc_ops, constants or backend, expressions, a "
        "stateful family (interpolate, link fields into collections, change data), user-defined operators, and simulations "
        "that share one interrupt or tracker object (9 kinds) - runs in a forked child of an interpreter that "
        "imported pde but executed nothing; the value of EVERY request must equal bit for bit its value alone in a fresh child "
        "(for interpolation: the value a brand-new field with the current contents gives).  Long histories (rotations of the full "
        "alphabet and their reverses) add first-writer-wins coverage; compiled operator caches are re-checked under real JIT.",
        "note": "Bounded depth and alphabets; global configuration held fixed; the warmed-up parent has imported all pde modules and "
        "created the backend singletons (no py-pde call executed). " + _MODES,
    },
    {
        "property_id": "C05",
        "category": "exploration",
        "technique": "bounded-exhaustive enumeration of grids; linear conservation functional evaluated on every basis vector; enumerated simulations with per-step integral tracking",
        "text": "(a) For every grid (all classes, holes, periodic mixes, 1-cell axes, extreme spacings) the linear functional "
        "f -> sum_i V_i (L_bc f)_i is evaluated on the zero field and EVERY unit basis vector (so it vanishes for all fields) for the "
        "Laplacian with periodic/zero-flux conditions and for the divergence with vanishing normal component (Cartesian, conservative "
        "spherical), with the grid's own and with exact closed-form cell volumes.  (b) Diffusion, Cahn-Hilliard and expression-PDE "
        "simulations on 6 grids x 6 solvers x 2 backends x 3 step sizes x 3 step counts keep the integral recorded after every step. The functional is also evaluated through the really compiled operator-with-BC (3-axis grids with every order of the extents); simulations include a two-species PDE with per-variable bc_ops (one absorbed, one conserved, both orders).",
        "note": "(a) is decisive by linearity; (b) uses one seeded state per configuration; diverging runs (dt=0.1) are counted, not compared. " + _MODES,
    },
    {
        "property_id": "C06",
        "category": "exploration",
        "technique": "bounded-exhaustive enumeration of (solver, backend, rate, dt, steps, t_start, state) against closed-form scheme recursions",
        "text": "All (solver in euler/RK4/implicit/Crank-Nicolson/Adams-Bashforth, backend numpy/numba, real/complex/per-cell rate, dt, "
        "steps, t_start, state kind) runs of du/dt = a u are compared with the exact amplification factors / AB2 recursion, reported "
        "steps and logged stage times; a cubic-in-time forcing pins stage times and weights; the scipy solver; adaptive Euler/RKF over "
        "(lambda, T, tolerance, initial dt, t_start incl. ranges crossing zero) for t_final == t_end exactly, error <= steps*tol and "
        "backend agreement; really compiled steppers against interpreted ones.",
        "note": "Fixed lattices of parameters; iterative schemes with |a dt| < 0.7 and tight convergence settings. " + _MODES,
    },
    {
        "property_id": "C07",
        "category": "exploration",
        "technique": "bounded-exhaustive enumeration of (solver, backend, dt, t_start, range, tracker set) controller runs vs tracker-free run and the one-step map",
        "text": "About 10^6 complete Controller runs: every (fixed-step solver, backend, dt, t_start, autonomous/time-dependent) x every "
        "time range (whole numbers of steps and fractional) x every tracker set (none, 23 single interrupt schedules - constant, "
        "fixed lists, logarithmic, geometric, non-commensurate -, all pairs/triples of reduced pools) is compared with the "
        "tracker-free run (bit-identical for autonomous equations), with `steps` applications of the solver's own one-step map, and "
        "checked for exact step/time accounting and an untouched initial state; compiled steppers on a reduced alphabet. Tracker alphabets include constant interrupts with an absolute t_start (0.0, -1.0).",
        "note": "dt/t_start/interval values from fixed lattices including classic floating-point edge cases; other values are not covered. " + _MODES,
    },
    {
        "property_id": "C08",
        "category": "fault_enumeration",
        "technique": "exhaustive stop injection: every tracker x every call index x both stop exceptions (plus simultaneous/later second stops) per configuration",
        "text": "For 9 stepper engines (fixed and adaptive, numpy/numba) x dt x t_start x ranges x 64 tracker sets the fault-free run is "
        "checked against the schedule clauses (strictly increasing genuine simulation times, each scheduled time served exactly "
        "once within dt/2 - exactly for adaptive steppers -, frame counts of a MemoryStorage tracker); then a StopIteration / "
        "FinishedSimulation is injected at EVERY call of EVERY tracker (and at two trackers at once) and the run must equal the "
        "fault-free prefix (all due trackers served, none later), end at the stop time with that state, report the reason and "
        "finalise every tracker once. Constant interrupts with an absolute t_start (0.0, -1.0): no call before t_start, schedule based at max(t_start of the run, t_start of the interrupt).",
        "note": "Linear test equation on 2 cells; scheduled times within 1e-9*dt of t_end are ambiguous. " + _MODES,
    },
    {
        "property_id": "C09",
        "category": "model_checking",
        "technique": "explicit-state BFS over all non-decreasing query histories of the real interrupt objects with validated state merging",
        "text": "BFS over all query histories (14 relative moves: on/just before/just after/far beyond scheduled times, repeats) up to "
        "depth 7 (quick) / 8 (thorough) for ~60 hand-picked and 310 lattice parameter sets of Constant/Fixed/Geometric/"
        "LogarithmicInterrupts (incl. parse_interrupt forms); every transition is checked for answer >= query, strict increase and "
        "lattice membership against a reference model; merged states are validated by re-executing two witnesses from scratch.",
        "note": "Bounded depth and parameter lattice; round-off tolerances derived from operand magnitudes. Trusted: the reference model.",
    },
    {
        "property_id": "C10",
        "category": "exploration",
        "technique": "bounded-exhaustive enumeration of (equation class, parameters, grid, BC assignment) and of a grammar of expression PDEs; routes compared on the complete degree-3 determining set of states",
        "text": "Every (predefined class x 3 asymmetric parameter sets x 6 grid families x single and operator-specific BC assignments "
        "incl. same-value-different-class and time-dependent pairs) and every program of a grammar of expression right-hand sides "
        "(19 terms alone and in pairs, two-field programs, bc_ops, constants, field constants, user functions) is evaluated through "
        "evolution_rate, make_pde_rhs on numpy and numba, the generic PDE built from the class's own expression text, and an "
        "independent reference assembled from field.laplace/gradient_squared, at t in {0, 1.3}, on the COMPLETE determining set for "
        "polynomial maps of degree <= 3 (all states with support <= 3 and entries in 0..3; up to 1789 states) plus generic states - "
        "routes that agree there compute the same polynomial map.  Really compiled rates are compared on a covering subset. Constants are passed with an unused one first (insertion order differs from sorted order); a vector-state part compares interpreted and compiled rates of right-hand sides built from outer/dot of two different operands.",
        "note": "Expression route compared only where the text determines the BC wiring (rule per class in the module docstring); "
        "non-polynomial user terms are compared on the same points without the determining-set argument. " + _MODES,
    },
    {
        "property_id": "C11",
        "category": "exploration",
        "technique": "exhaustive enumeration of all programs of a depth-bounded expression grammar, evaluated through every route against a sympy-free evaluator with forward-mode dual numbers",
        "text": "ALL expressions of a grammar (10 atoms incl. constants, array constants and indexed variables; 20 unary and 8 binary "
        "operators incl. special functions, heaviside, powers, user functions) up to depth 2 (quick: 4045 programs, 952 shape "
        "classes) / depth 3 (thorough: 67977 programs) are evaluated through ScalarExpression calls, the numpy function, the numba "
        "function (interpreted source for all, really compiled once per shape class), single_arg, array arguments, symbolic "
        "differentiate / derivatives, tensor expressions, field construction from expressions on five grid types, aliases and "
        "explicit symbols; the oracle is Python eval of the same text over numbers that carry forward-mode partial derivatives and a "
        "running rounding-error bound and never touches sympy. Constants are passed with an unused one first; field construction through the cell-by-cell fallback (Piecewise, comparisons, scalar-only user functions) is compared cell by cell with the written formula.",
        "note": "Values are fixed generic and special points per arity (transcendental functions admit no finite determining set); "
        "ill-conditioned points are skipped and counted; loud refusals (uncompilable erf, opaque derivatives) are counted. Two "
        "sympy.simplify families are listed known findings. " + _MODES,
    },
    {
        "property_id": "C12",
        "category": "exploration",
        "technique": "bounded-exhaustive enumeration of grid configurations x full point lattices against closed-form geometry",
        "text": "1599 (quick) / 10698 (thorough) grid configurations (all classes, shapes incl. 1 cell, bounds from 1e-3 to 1e6, holes, "
        "periodic flags) x a 14-value point lattice per axis in all combinations (single points and batches): cell centres, exact "
        "cell volumes and their sum, integrals over all/selected axes, projections, mutually inverse coordinate transformations, "
        "contains_point, get_random_point driven by an enumerating generator, normalize_point (idempotent, whole periods, "
        "reflections), symmetric / period-invariant distances with at most half a period per periodic axis.",
        "note": "Points within 1e-9 of a face are not decided for membership. Trusted: closed-form oracles in the check.",
    },
    {
        "property_id": "C13",
        "category": "exploration",
        "technique": "bounded-exhaustive enumeration of (grid, state kind, noise kind, interpretation, solver) x (dt, steps, seed) against an independent re-implementation driven by a replicated generator",
        "text": "Every (grid incl. non-uniform cell volumes, state in scalar/vector/tensor/collections, noise in 0/scalar/per-component/"
        "per-field/field-dependent variance, Ito/Stratonovich/anti-Ito, euler/milstein/semi-implicit) x dt x steps x seeds on the numpy "
        "backend is compared to 1e-12 with the documented update computed from the replicated generator "
        "(default_rng(seed).standard_normal once per step): increment, interpretation drift, Milstein correction; the generator "
        "state after the run must equal exactly one draw per step, seeded runs are bitwise reproducible, zero variance is bitwise "
        "deterministic; the numba backend is replicated through its seeded RNG (interpreted and 12 really compiled steppers); "
        "solvers that must refuse noise do refuse. Variables of multi-field PDEs are deliberately not in alphabetical order; per-field noise is also given as a dict in another order.",
        "note": "make_noise_realization, complex fields, MPI/jax/torch not covered; variances <= 1e-14 are treated as zero by the package "
        "(observation). " + _MODES,
    },
    {
        "property_id": "C14",
        "category": "exploration",
        "technique": "bounded-exhaustive enumeration of grids/fields/collections x all save-restore routes",
        "text": "Every grid class x parameter form x route (from_state, JSON, copy, copy.copy, deepcopy, pickle), every field class x "
        "dtype x label x route, mixed-rank collections, FieldCollection.from_data with/without ghost cells on every grid class, and "
        "the MemoryStorage field_attributes round trip; equality of class, bounds incl. inner radius, periodicity, volumes, labels, "
        "dtype and data (bitwise). Wide dtypes (int64 beyond 2**53, longdouble) are compared exactly.",
        "note": "float32 collections through copy()/storage read-back yield float64 (documented automatic dtype): recorded as observation.",
    },
    {
        "property_id": "C15",
        "category": "model_checking",
        "technique": "explicit-state BFS over operation histories of real field objects vs a buffer/region reference model, with validated state merging and write probes",
        "text": "BFS over ALL sequences (depth 4 quick / 5 thorough; every type-correct operand choice) of a 44-operation alphabet - "
        "constructions with/without ghost cells, component views by index and name, collections with copy_fields False/True, "
        "fc[i]/fc[label]/slices/append/copy, copies incl. dtype change, binary and in-place arithmetic, data assignment, assignment "
        "into collections, unary ops, operators with/without out, dot/outer, interpolate_to_grid, storage round trips - on 4 grid "
        "families.  After EVERY transition, for EVERY pair of live handles np.shares_memory and a write probe (unique sentinel written "
        "through one handle, read through all others) must equal the verdict of a reference model that knows only buffers and "
        "regions; collection layout (fields in order, components row-major), data-as-view, untouched operands and ghost cells are "
        "checked.  States are merged on the alias partition; two witnesses of every merged state are expanded and must agree. Label access with several members carrying the label addresses the first one only.",
        "note": "Tiny grids (2 cells per axis); contents are deterministic; complex outer products without out are excluded (TypeError). "
        "Trusted: numpy, the reference model.",
    },
    {
        "property_id": "C16",
        "category": "exploration",
        "technique": "bounded-exhaustive enumeration of (grid, rank, bc, fill) x full point lattices x every unit basis field against an independent multilinear interpolant; insertion against exact integrals",
        "text": "For every (grid with 1-3 axes incl. periodic mixes, curvilinear and 1-cell axes, rank 0-2, bc in none/value/derivative/"
        "periodic, fill) the full product of a 15-54 value per-axis point lattice (centres, faces, +-1e-9, quarter points, boundary "
        "strips, seams +- period, outside near/far) is interpolated singly and in batches for the zero field, EVERY unit basis field, "
        "the affine basis and a generic field and compared with an independently written multilinear interpolant (constant "
        "extension without bc, modelled ghost cells with bc); range, period invariance, DomainError/fill outside, linear approach "
        "to the imposed boundary value; field.insert and the backend inserter raise the integral by exactly the amount at every "
        "interior lattice point on every grid type; compiled interpolators/inserters agree with the interpreted ones.",
        "note": "Points within 1e-9 of the boundary are not decided for membership; corner strips with bc are counted only; the "
        "ghost-cell inserter on non-uniform grids is a listed known finding. " + _MODES,
    },
    {
        "property_id": "C17",
        "category": "exploration",
        "technique": "bounded-exhaustive enumeration of all decompositions of small grids; operator equivalence as identity of linear maps by basis enumeration; all interleavings of the ghost-cell exchange over a mailbox",
        "text": "Every decomposition (c_1..c_d), 1 <= c_k <= N_k, of grids with 1-3 axes (all classes, holes, periodic mixes): exact "
        "tiling (bounds, shapes, volumes, coordinates), extract/combine of field data bitwise inverse with and without ghost cells, "
        "class/label/dtype of sub-fields, neighbour relations against geometric adjacency; for every registered operator and option "
        "the sub-grid operators combined equal the whole-grid operator as linear maps (zero, every unit vector of the padded array, "
        "superposition) and end to end for 7 BC classes; transferred outer-face BCs give the same ghost cells.  The _MPIBC "
        "send/receive bookkeeping is executed for all nodes over a mailbox standing in for pde.tools.mpi and ALL interleavings of the "
        "nodes' recorded programs are explored (ambiguous receives, deadlock, left-over messages, order dependence, equality with serial). Single axes of 8..40 (80) cells are split into every chunk count; the grid that was split must remain an ordinary whole grid (splittable again, accepts inhomogeneous conditions).",
        "note": "Real MPI and the numba_mpi backend are absent; the exchange is explored with a stand-in.  The anti-periodic wrap face "
        "under the exchange is a listed known finding; radial splits of cylinders etc. are loud refusals. " + _MODES,
    },
    {
        "property_id": "C18",
        "category": "exploration",
        "technique": "bounded-exhaustive enumeration of (grid, BC assignment) problems; operator extracted by basis enumeration; every basis right-hand side (affine solve) incl. incompatible ones",
        "text": "4303 (quick) / 29834 (thorough) problems: all grid classes with 2-4 cells per axis x all ordered pairs of 8 scalar + 3 "
        "per-face BC kinds on the primary axis x a rotating covering choice on the others.  The discrete operator A u + b is extracted "
        "from field.laplace by basis enumeration (independent of the scipy matrices), the problem is classified singular / "
        "non-singular, and the solver is run on zero and EVERY unit right-hand side (non-singular) resp. on a basis of the range and on "
        "incompatible right-hand sides (singular): returned fields must satisfy the discrete equation at the solver's own acceptance "
        "level, incompatible problems must raise; the sparse matrix route is compared entry-wise with the operator; "
        "solve_laplace_equation equals Poisson with zero rhs. One BoundariesList object is re-used for further solves after its conditions were changed through public setters / linked arrays; each solve must solve the problem with the current data.",
        "note": "Singular-compatible right-hand sides may be refused (counted); tolerance 2e-5 follows the solver's own 1e-5 acceptance test. " + _MODES,
    },
    {
        "property_id": "C19",
        "category": "exploration",
        "technique": "bounded-exhaustive enumeration of coordinate systems x point lattices and of all unit component fields through every route that uses a component order",
        "text": "Bases of all coordinate systems on point lattices (orthonormal, right-handed, equal to the normalised Jacobian and to "
        "a finite-difference Jacobian); for every curvilinear grid every unit component field e_i / e_i e_j is pushed through "
        "access by name, from_expression position, differential operators, dot/outer products and conversion to Cartesian grids "
        "and must denote the same physical direction; affine and axial fields; commutation with divergence/gradient on refinement pairs. Complex operands in dot/outer; transposed plot data mirrors positions and components.",
        "note": "D7 (cylindrical conversion to Cartesian uses (r,phi,z)) is a listed known finding pinned by an existing test. " + _MODES,
    },
    {
        "property_id": "C20",
        "category": "model_checking",
        "technique": "explicit-state BFS over operation histories of the real MemoryStorage vs a list-based reference model",
        "text": "Breadth-first search over every history of a 14-operation alphabet (start/append/mutate/"
        "read/clear/derive/tracker-driven writes, incompatible fields) up to depth 5 (quick) / 7 (thorough) "
        "for 4 write modes x {single field, collection}; after every transition the real storage's "
        "observations, raised errors and aliasing are compared with a boring reference model; states are "
        "merged on a canonical observation whose soundness is validated by expanding two witnesses per state. Derived storages (copy, apply, extract_field, extract_time_range) must stay independent of their source in both directions, also when either side is written later (look-ahead of 4/7 write sequences from every merged state up to history length 5).",
        "note": "Bounded depth and a fixed tiny field universe (2-3 cells); file/movie storages are outside the "
        "property; trusted: numpy, the reference model (40 lines).",
    },
]

_TODO = "check not yet built in this round (work in progress, see DESIGN.md for the planned bounded-exhaustive check)"
NOT_APPLICABLE = [
    {"property_id": f"C{i:02d}", "reason": _TODO}
    for i in range(1, 21)
    if f"C{i:02d}" not in {c["property_id"] for c in CHECKS}
]
