#!/bin/bash
# usage: tools/mut.sh <name> <patchfile|-> -- <command...>
# creates a scratch worktree of /repo HEAD under /tmp/mut/<name>, applies the patch (or stdin
# sed-script if given as "sed:<file>:<expr>"), runs the command with PYPDE_REPO pointing at it,
# removes the worktree afterwards.
set -u
name=$1; patch=$2; shift 3
dir=/tmp/mut/$name
mkdir -p /tmp/mut
git -C /repo worktree remove --force "$dir" 2>/dev/null
git -C /repo worktree add --detach "$dir" "${MUT_BASE:-HEAD}" >/dev/null 2>&1 || exit 9
if [[ "$patch" == sed:* ]]; then
  IFS=: read -r _ file expr <<<"$patch"
  sed -i -E "$expr" "$dir/$file"
  git -C "$dir" diff --stat | cat
else
  git -C "$dir" apply "$patch" || { echo "patch failed"; exit 9; }
fi
[ -n "$(git -C "$dir" status --porcelain)" ] || echo "WARNING: mutation changed nothing"
PYPDE_REPO=$dir "$@"
rc=$?
git -C /repo worktree remove --force "$dir"
git -C /repo worktree prune
exit $rc
