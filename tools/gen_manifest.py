#!/venv/bin/python
"""Generate /verif/MANIFEST.json from the table below and validate it against the schema."""
import json
import sys
from pathlib import Path

VERIF = Path(__file__).resolve().parent.parent
sys.path.insert(0, str(VERIF))
from tools.manifest_table import CHECKS, NOT_APPLICABLE, NOTES  # noqa: E402

manifest = {
    "version": 1,
    "setup_cmd": "cd /verif && /venv/bin/python tools/setup_check.py",
    "hooks": {
        "guard": "PY_PDE_VERIF",
        "enable": "no source hooks are needed: checks import pde from /repo's working tree "
        "(sys.path) and observe through public API and harness-side monkeypatches; "
        "the guard name is reserved and unused",
        "baseline_off_cmd": "cd /repo && /venv/bin/python -m pytest -ra -q -p no:cacheprovider --timeout=900 --continue-on-collection-errors",
        "source_commits": [],
        "add_only": True,
    },
    "engines": [
        {
            "name": "mc",
            "path": "/verif/mc",
            "serves_properties": [c["property_id"] for c in CHECKS],
            "kind_free_text": "hand-written explicit-state / bounded-exhaustive explorer in Python that "
            "drives the real py-pde code (mode I: NUMBA_DISABLE_JIT=1 kernels as Python; mode J: real JIT) "
            "against small reference models; BFS with canonical state hashing for history properties",
        }
    ],
    "checks": [],
    "notes": NOTES,
    "not_applicable": NOT_APPLICABLE,
}
for c in CHECKS:
    pid = c["property_id"]
    manifest["checks"].append(
        {
            "property_id": pid,
            "quick_cmd": f"./check {pid} --tier quick",
            "thorough_cmd": f"./check {pid} --tier thorough",
            "evidence_file": f"/verif/evidence/{pid}.json",
            "replay_cmd_template": f"./check {pid} --replay {{path}}",
            "engine": "mc",
            "level_claimed": {
                "category": c["category"],
                "text": c["text"],
                "design_ref": c.get("design_ref", f"DESIGN.md section 2, {pid}"),
            },
            "level_note": c["note"],
            "technique": c["technique"],
        }
    )

import jsonschema  # noqa: E402

schema = json.loads(Path("/root/.vp/MANIFEST.schema.json").read_text())
jsonschema.validate(manifest, schema)
(VERIF / "MANIFEST.json").write_text(json.dumps(manifest, indent=1) + "\n")
claimed = {c["property_id"] for c in CHECKS}
na = {n["property_id"] for n in NOT_APPLICABLE}
allp = {json.loads(l)["id"] for l in (VERIF / "properties.jsonl").read_text().splitlines() if l.strip()}
missing = allp - claimed - na
print(f"MANIFEST.json written: {len(claimed)} checks, {len(na)} not applicable, unaccounted: {sorted(missing)}")
if missing or (claimed & na):
    sys.exit(1)
