#!/bin/bash
# Run every registered check (quick tier by default) in /verif against /repo, one after the other,
# and validate the evidence files.  usage: tools/run_all.sh [quick|thorough] [seed]
cd "$(dirname "$0")/.."
tier=${1:-quick}; seed=${2:-0}
rc=0
for c in $(/venv/bin/python -c "import json; print(' '.join(x['property_id'] for x in json.load(open('MANIFEST.json'))['checks']))"); do
  start=$(date +%s)
  VERIF_SEED=$seed ./check $c --tier $tier > /tmp/runall_$c.log 2>&1
  r=$?
  echo "$c exit=$r $(( $(date +%s) - start ))s $(tail -1 /tmp/runall_$c.log | cut -c1-200)"
  grep -h "^KNOWN-FINDING\|^VIOLATION\|^HARNESS" /tmp/runall_$c.log | cut -c1-160
  [ $r -ne 0 ] && rc=1
done
/venv/bin/python tools/validate_evidence.py || rc=1
exit $rc
