"""Explorer library for the py-pde model-checking harness (see /verif/DESIGN.md)."""
