"""Core of the explorer: worker pools in two execution modes, aggregation, known findings,
replay files and evidence.

A *check* (module ``checks.cXX``) provides

* ``PROPERTY``, ``LEVEL`` (evidence level) and ``main(run)``, which enumerates *cases* (JSON-able
  values) and hands them to ``run.explore(fn, cases, mode=...)``;
* worker functions ``fn(case) -> dict`` that execute the real py-pde code on one case and return

  ``{"v": [violation, ...], "nt": bool, "key": str, "out": str, "ref": str|None, "n": int,
  "states": int, "transitions": int, "info": {...}}``

  where a violation is ``{"sig": str, "msg": str, "detail": any}``.  All keys are optional.

Workers are spawned (never forked from a process that imported numba) and the execution mode is
fixed *before* ``pde``/``numba`` are imported:

* mode ``"I"``: ``NUMBA_DISABLE_JIT=1`` - all kernels run as plain Python;
* mode ``"J"``: real JIT.
"""

from __future__ import annotations

import collections
import fnmatch
import hashlib
import importlib
import json
import multiprocessing as mp
import os
import signal
import sys
import time
import traceback
from pathlib import Path

VERIF = Path(__file__).resolve().parent.parent
REPO = os.environ.get("PYPDE_REPO", "/repo")
NPROC = int(os.environ.get("VERIF_NPROC", "16"))
# runs against a scratch checkout (seeded changes) must not overwrite the committed evidence
_SCRATCH = os.path.realpath(REPO) != "/repo"
OUT = Path(os.environ.get("VERIF_OUT", "/tmp/verif_scratch_out")) if _SCRATCH else VERIF


# ----------------------------------------------------------------------------------------------
# worker side
# ----------------------------------------------------------------------------------------------

_FN_CACHE: dict = {}
_MODE = None


def worker_init(mode: str, repo: str, extra_env: dict | None = None) -> None:
    """Executed in every worker before anything imports numba/pde."""
    global _MODE
    _MODE = mode
    if mode == "I":
        os.environ["NUMBA_DISABLE_JIT"] = "1"
    else:
        os.environ.pop("NUMBA_DISABLE_JIT", None)
    os.environ.setdefault("NUMBA_NUM_THREADS", "16")
    for k, v in (extra_env or {}).items():
        os.environ[k] = v
    for p in (str(VERIF), repo):
        if p in sys.path:
            sys.path.remove(p)
        sys.path.insert(0, p)
    import logging
    import warnings

    warnings.simplefilter("ignore")
    logging.disable(logging.CRITICAL)
    import numpy as np

    np.seterr(all="raise", under="ignore")
    import pde  # noqa: F401

    if not os.path.realpath(pde.__file__).startswith(os.path.realpath(repo) + os.sep):
        raise RuntimeError(f"pde imported from {pde.__file__}, expected below {repo}")
    import numba

    if bool(numba.config.DISABLE_JIT) != (mode == "I"):
        raise RuntimeError("execution mode mismatch")


def mode() -> str:
    return _MODE


class CaseTimeout(Exception):
    pass


def _alarm(signum, frame):
    raise CaseTimeout("case exceeded its time limit")


def resolve(fn_spec: str):
    if fn_spec not in _FN_CACHE:
        mod, name = fn_spec.split(":")
        _FN_CACHE[fn_spec] = getattr(importlib.import_module(mod), name)
    return _FN_CACHE[fn_spec]


def call_case(args):
    """Run one case; never raises."""
    fn_spec, case, limit = args
    t0 = time.time()
    try:
        fn = resolve(fn_spec)
        signal.signal(signal.SIGALRM, _alarm)
        signal.alarm(int(limit))
        try:
            res = fn(case) or {}
        finally:
            signal.alarm(0)
    except BaseException as exc:  # noqa: BLE001
        tb = traceback.extract_tb(exc.__traceback__)
        where = "?"
        for fr in reversed(tb):
            if "/pde/" in fr.filename:
                where = f"{os.path.basename(fr.filename)}:{fr.name}"
                break
        else:
            if tb:
                where = f"{os.path.basename(tb[-1].filename)}:{tb[-1].name}"
        res = {
            "v": [
                {
                    "sig": f"EXC|{type(exc).__name__}|{where}",
                    "msg": f"unexpected {type(exc).__name__}: {str(exc)[:300]}",
                    "detail": traceback.format_exc()[-3000:],
                }
            ]
        }
    res["_t"] = time.time() - t0
    return case, res


def call_chunk(tasks):
    return [call_case(t) for t in tasks]


# ----------------------------------------------------------------------------------------------
# known findings
# ----------------------------------------------------------------------------------------------


def load_known(pid: str):
    path = VERIF / "known_findings.json"
    if not path.exists():
        return []
    data = json.loads(path.read_text())
    return [f for f in data.get("findings", []) if f.get("property") == pid]


# ----------------------------------------------------------------------------------------------
# run (parent side)
# ----------------------------------------------------------------------------------------------


def jsonable(x):
    import numpy as np

    if isinstance(x, dict):
        return {str(k): jsonable(v) for k, v in x.items()}
    if isinstance(x, (list, tuple, set, frozenset)):
        return [jsonable(v) for v in x]
    if isinstance(x, np.ndarray):
        return jsonable(x.tolist())
    if isinstance(x, (np.floating,)):
        return float(x)
    if isinstance(x, (np.integer,)):
        return int(x)
    if isinstance(x, (np.bool_,)):
        return bool(x)
    if isinstance(x, complex):
        return repr(x)
    if isinstance(x, float) and (x != x or x in (float("inf"), float("-inf"))):
        return repr(x)
    if isinstance(x, (str, int, float, bool)) or x is None:
        return x
    return repr(x)


class Run:
    def __init__(self, pid: str, tier: str, seed: int, level: str):
        self.pid, self.tier, self.seed, self.level = pid, tier, seed, level
        self.t0 = time.time()
        self.evaluations = 0
        self.states = 0
        self.transitions = 0
        self.traces = 0
        self.distinct: set = set()
        self.outcomes: collections.Counter = collections.Counter()
        self.refusals: collections.Counter = collections.Counter()
        self.samples: list = []
        self.parts: dict = {}
        self.viol_sigs: dict = {}  # signature -> [count, first replay path, known?]
        self.known = load_known(pid)
        self.known_hit: collections.Counter = collections.Counter()
        self.assumptions: list = []
        self.caps: list = []
        self.notes: dict = {}
        self._pools: dict = {}
        self.exhaustive = True
        self.max_case_s = 0.0

    # -- pools ---------------------------------------------------------------------------------
    def pool(self, mode: str, nproc: int | None = None, env: dict | None = None):
        key = (mode, nproc, tuple(sorted((env or {}).items())))
        if key not in self._pools:
            ctx = mp.get_context("spawn")
            self._pools[key] = ctx.Pool(
                nproc or NPROC, initializer=worker_init, initargs=(mode, REPO, env)
            )
        return self._pools[key]

    def close(self):
        for p in self._pools.values():
            p.terminate()
            p.join()
        self._pools.clear()

    # -- exploring -----------------------------------------------------------------------------
    def explore(
        self,
        fn: str,
        cases,
        *,
        mode: str = "I",
        part: str | None = None,
        chunksize: int | None = None,
        limit: int = 300,
        nproc: int | None = None,
        env: dict | None = None,
        collect: bool = False,
    ):
        """Run ``fn`` on every case (all of them - no sampling) and aggregate the results."""
        cases = list(cases)
        part = part or f"{fn.split(':')[1]}[{mode}]"
        n = len(cases)
        if n == 0:
            return []
        # a few of the actual cases, spread over the enumeration
        for i in sorted({0, n // 3, (2 * n) // 3, n - 1}):
            if len(self.samples) < 40:
                self.samples.append({"part": part, "mode": mode, "case": jsonable(cases[i])})
        pool = self.pool(mode, nproc, env)
        if chunksize is None:
            chunksize = max(1, min(64, n // ((nproc or NPROC) * 8)))
        st = self.parts.setdefault(
            part, {"mode": mode, "cases": 0, "evaluations": 0, "nontrivial": 0, "violations": 0}
        )
        out = []
        # own chunking (imap_unordered with chunksize > 1 returns a generator without timeouts)
        tasks = [(fn, c, limit) for c in cases]
        chunks = [tasks[i : i + chunksize] for i in range(0, n, chunksize)]
        it = pool.imap_unordered(call_chunk, chunks, 1)
        for _ in range(len(chunks)):
            try:
                # a worker that dies (killed from outside, out of memory) loses its task: never wait forever
                results = it.next(timeout=(limit + 120) * chunksize)
            except mp.TimeoutError:
                print(f"HARNESS-ERROR property={self.pid} part={part}: no result within the time limit "
                      f"(a worker process died or hangs)", flush=True)
                self.close()
                raise SystemExit(3) from None
            for case, res in results:
                st["cases"] += 1
                self._consume(fn, mode, part, st, case, res, env)
                if collect:
                    out.append((case, res))
        return out

    def _consume(self, fn, mode, part, st, case, res, env=None):
        n = int(res.get("n", 1))
        self.evaluations += n
        st["evaluations"] += n
        self.states += int(res.get("states", 0))
        self.transitions += int(res.get("transitions", 0))
        self.traces += int(res.get("traces", n))
        self.max_case_s = max(self.max_case_s, res.get("_t", 0.0))
        if res.get("ref"):
            refs = res["ref"] if isinstance(res["ref"], (list, tuple)) else [res["ref"]]
            for r in refs:
                self.refusals[str(r)] += 1
        if res.get("nt", True) and not res.get("ref_only"):
            keys = res.get("keys")
            if keys is None:
                keys = [res.get("key") or json.dumps(jsonable(case), sort_keys=True)]
            for k in keys:
                self.distinct.add(hashlib.sha1(f"{part}|{k}".encode()).digest()[:10])
            st["nontrivial"] += len(keys)
        outs = res.get("outs")
        if outs is None:
            outs = [res.get("out", "ok" if not res.get("v") else "violation")]
        for o in outs:
            self.outcomes[f"{part}:{o}"] += 1
        if res.get("cap"):
            self.exhaustive = False
            self.caps.append(str(res["cap"]))
        for v in res.get("v", []):
            st["violations"] += 1
            self.violation(v, fn=v.get("fn", fn), mode=mode, case=v.get("case", case), env=env)

    def violation(self, v: dict, *, fn: str, mode: str, case, env=None):
        sig = f"{self.pid}|{v['sig']}"
        rec = self.viol_sigs.get(sig)
        if rec is not None:
            rec["count"] += 1
            return
        known = None
        for f in self.known:
            if f.get("status") == "known" and fnmatch.fnmatchcase(sig, f["signature"]):
                known = f
                break
        rdir = OUT / "replays" / self.pid
        rdir.mkdir(parents=True, exist_ok=True)
        h = hashlib.sha1(sig.encode()).hexdigest()[:12]
        path = rdir / f"{h}.json"
        path.write_text(
            json.dumps(
                {
                    "property": self.pid,
                    "signature": sig,
                    "fn": fn,
                    "mode": mode,
                    "env": env or {},
                    "case": jsonable(case),
                    "message": v.get("msg", ""),
                    "detail": jsonable(v.get("detail")),
                    "known_finding": known["signature"] if known else None,
                },
                indent=1,
            )
        )
        self.viol_sigs[sig] = {
            "count": 1,
            "replay": str(path),
            "known": known,
            "msg": v.get("msg", ""),
        }
        if known is None:
            print(f"VIOLATION property={self.pid} replay={path}", flush=True)
            print(f"  signature: {sig}\n  {v.get('msg', '')}", flush=True)

    # -- finishing -----------------------------------------------------------------------------
    def finish(self, rule: str, *, extra: dict | None = None) -> int:
        self.close()
        unknown = {s: r for s, r in self.viol_sigs.items() if r["known"] is None}
        by_known: dict = {}
        for s, r in self.viol_sigs.items():
            if r["known"] is not None:
                e = by_known.setdefault(r["known"]["signature"], {"f": r["known"], "n": 0, "sigs": 0})
                e["n"] += r["count"]
                e["sigs"] += 1
        for ksig, e in sorted(by_known.items()):
            print(
                f"KNOWN-FINDING: property={self.pid} {e['f'].get('description', ksig)} "
                f"[signature {ksig}; {e['sigs']} distinct failing inputs, {e['n']} occurrences]",
                flush=True,
            )
        wall = time.time() - self.t0
        coverage = {
            "evaluations": int(self.evaluations),
            "distinct_nontrivial": len(self.distinct),
            "rule": rule,
            "samples": self.samples[:40],
            "exhaustive": bool(self.exhaustive),
            "parts": self.parts,
            "distinct_outcomes": len(self.outcomes),
            "outcomes": dict(self.outcomes.most_common(60)),
            "refusals": dict(self.refusals.most_common(60)),
            "caps_hit": self.caps[:20],
            "max_case_seconds": round(self.max_case_s, 3),
            "known_findings_seen": {
                k: {"distinct_inputs": e["sigs"], "occurrences": e["n"]} for k, e in by_known.items()
            },
            "unlisted_violation_signatures": sorted(unknown)[:50],
        }
        if self.level == "model_checking" or self.states:
            coverage["states"] = int(self.states)
            coverage["transitions"] = int(self.transitions)
            coverage["traces_validated_against_impl"] = int(self.traces)
        coverage.update(self.notes)
        if extra:
            coverage.update(extra)
        evidence = {
            "property_id": self.pid,
            "tier": self.tier,
            "seed": int(self.seed),
            "level": self.level,
            "coverage": jsonable(coverage),
            "assumptions": self.assumptions,
            "wall_s": round(wall, 2),
            "violations": len(unknown),
        }
        edir = OUT / "evidence"
        edir.mkdir(parents=True, exist_ok=True)
        (edir / f"{self.pid}.json").write_text(json.dumps(evidence, indent=1))
        print(
            f"[{self.pid}] tier={self.tier} seed={self.seed} evaluations={self.evaluations} "
            f"distinct_nontrivial={len(self.distinct)} states={self.states} "
            f"transitions={self.transitions} outcomes={len(self.outcomes)} "
            f"refusals={sum(self.refusals.values())} known={len(by_known)} "
            f"violations={len(unknown)} exhaustive={self.exhaustive} wall={wall:.1f}s",
            flush=True,
        )
        return 1 if unknown else 0


def replay(path: str) -> int:
    """Re-execute one recorded violation on the real code, without the explorer."""
    rec = json.loads(Path(path).read_text())
    ctx = mp.get_context("spawn")
    with ctx.Pool(1, initializer=worker_init, initargs=(rec["mode"], REPO, rec.get("env"))) as p:
        case, res = p.apply(call_case, ((rec["fn"], rec["case"], 600),))
    sigs = [f"{rec['property']}|{v['sig']}" for v in res.get("v", [])]
    print(json.dumps({"recorded": rec["signature"], "observed": sigs}, indent=1))
    for v in res.get("v", []):
        print(" ", v.get("msg"))
    if rec["signature"] in sigs:
        print(f"VIOLATION property={rec['property']} replay={path}")
        return 1
    print("replay: the recorded violation does not occur on the current tree")
    return 0
