import itertools, math, sys, time
import numpy as np
from pde import *
from pde.pdes.base import PDEBase
from pde.trackers.base import TrackerBase, FinishedSimulation
from pde.trackers.interrupts import ConstantInterrupts

class Rec(TrackerBase):
    def __init__(self, interrupts, stop_at=None, exc=StopIteration):
        super().__init__(interrupts); self.ts=[]; self.vals=[]; self.fin=0; self.stop_at=stop_at; self.exc=exc
    def handle(self, field, t):
        self.ts.append(t); self.vals.append(field.data.copy())
        if self.stop_at is not None and len(self.ts)==self.stop_at:
            raise self.exc("stop-%d"%self.stop_at)
    def finalize(self, info=None):
        self.fin+=1

class Lin(PDEBase):
    def __init__(self,a=-1.): super().__init__(); self.a=a
    def evolution_rate(self, state, t=0): return self.a*state
    def make_evolution_rate(self, state, backend):
        a=self.a
        def rhs(x,t): return a*x
        return rhs

grid=UnitGrid([2]); s0=ScalarField(grid,[1.,2.])
eq=Lin(-0.5)
dt=0.1
for exc in [StopIteration, FinishedSimulation]:
  for who in [0,1,2]:
    for k in [1,2,3]:
        Ds=[0.2,0.3,0.6]
        trks=[Rec(ConstantInterrupts(D), stop_at=(k if i==who else None), exc=exc) for i,D in enumerate(Ds)]
        r,info=eq.solve(s0,(0,2.0),dt=dt,solver="euler",backend="numpy",tracker=trks,ret_info=True)
        c=info["controller"]
        print(exc.__name__, who,k, "t_final",c["t_final"],"reason",c["stop_reason"],"succ",c["successful"], [t.ts for t in trks], [t.fin for t in trks], np.allclose(r.data, trks[who].vals[-1]))
