import numpy as np, math, warnings, logging
from pde import *
from pde.pdes.base import PDEBase
warnings.simplefilter("ignore"); logging.disable(logging.CRITICAL)
class Lin(PDEBase):
    def __init__(self,a=-1.): super().__init__(); self.a=a
    def evolution_rate(self, state, t=0): return self.a*state
    def make_evolution_rate(self, state, backend):
        a=self.a
        return lambda x,t: a*x
grid=UnitGrid([2]); n=0; dev={}
for backend in ["numpy","numba"]:
  for solver in ["euler","runge-kutta"]:
    for t0 in [-2.0,-0.3,-1e3,0.0,0.1,1.5,1e3]:
      for T in [0.3,0.7,1.0,2.7,1/3]:
        for tol in [1e-1,1e-3,1e-6]:
          for dt0 in [1e-3,0.1,10.0]:
            eq=Lin(-1.0); s0=ScalarField(grid,[1.0,-2.5]); t1=t0+T
            r,info=eq.solve(s0,(t0,t1),dt=dt0,solver=solver,backend=backend,tracker=None,ret_info=True,adaptive=True,tolerance=tol)
            tf=info["controller"]["t_final"]; n+=1
            if tf!=t1: dev[(t0,T)]=max(dev.get((t0,T),0),abs(tf-t1))
print(n,dev)
