import itertools, numpy as np, logging, math, warnings, time
from pde.tools.expressions import ScalarExpression
from pde import *
warnings.simplefilter("ignore"); logging.disable(logging.CRITICAL)
atoms=["a","b","2","0.5","(-1.5)","k"]
un=["-({})","sin({})","cos({})","exp({})","tanh({})","sqrt({}**2+1)","log({}**2+1)","heaviside({})","erf({})","abs({})","sinh({})","atan({})"]
bi=["({})+({})","({})-({})","({})*({})","({})/(({})**2+1)","({})**2*({})","hypot({},{})","Heaviside({}-{})","({})**({})" ]
import scipy.special
ns={"sin":math.sin,"cos":math.cos,"exp":math.exp,"tanh":math.tanh,"sqrt":math.sqrt,"log":math.log,"heaviside":lambda x,h=0.5:(0.0 if x<0 else (1.0 if x>0 else h)),"Heaviside":lambda x,h=0.5:(0.0 if x<0 else (1.0 if x>0 else h)),"erf":math.erf,"abs":abs,"sinh":math.sinh,"atan":math.atan,"hypot":math.hypot}
lvl1=atoms+[u.format(a) for u in un for a in atoms[:3]]
exprs=[b.format(x,y) for b in bi for x in lvl1 for y in lvl1]
print(len(exprs))
pts=[(0.3,0.7),(-1.2,2.1),(1.7,-0.4)]
bad=0;n=0;t0=time.time();skipped=0
import random
random.Random(0).shuffle(exprs)
for s in exprs[:1500]:
    try:
        e=ScalarExpression(s,signature=["a","b"],consts={"k":1.25})
    except Exception as ex:
        print("PARSE EXC",s,type(ex).__name__,str(ex)[:60]); bad+=1; continue
    for a,b in pts:
        try:
            ref=eval(s,{"__builtins__":{}},dict(ns,a=a,b=b,k=1.25))
        except (OverflowError,ZeroDivisionError,ValueError): skipped+=1; continue
        if isinstance(ref,complex) or abs(ref)>1e8: skipped+=1; continue
        try:
            v=e(a,b)
        except Exception as ex:
            print("EVAL EXC",s,type(ex).__name__,str(ex)[:60]); bad+=1; break
        n+=1
        if not np.isclose(v,ref,rtol=1e-9,atol=1e-11): bad+=1; print("BAD",s,a,b,v,ref); break
print("n",n,"bad",bad,"skipped",skipped,time.time()-t0)
