import itertools, numpy as np, logging, math, warnings
from pde import *
warnings.simplefilter("ignore"); logging.disable(logging.CRITICAL)
def grids():
    for per in [False,True]:
        yield UnitGrid([4],periodic=per); yield CartesianGrid([[-1,2]],[3],periodic=per)
    for per in itertools.product([False,True],repeat=2):
        yield CartesianGrid([[0,1],[-1,3]],[3,2],periodic=list(per))
    yield CartesianGrid([[0,1],[0,2],[-3,3]],[2,3,2],periodic=[False,True,False])
    for cls in [PolarSymGrid,SphericalSymGrid]:
        yield cls(2,4); yield cls((0.7,2),3); yield cls(2,1)
    yield CylindricalSymGrid(2,(0,1),(3,2)); yield CylindricalSymGrid((1,2.5),(0,1),(2,3)); yield CylindricalSymGrid(2,(0,1),(3,2),periodic_z=True)
bad=0
for g in grids():
    V=g.cell_volumes
    w=[]
    for k in range(g.num_cells):
        f=ScalarField(g); f.data.flat[k]=1.0
        w.append(float((f.laplace("auto_periodic_neumann").data*V).sum()))
    scale=np.abs(V).max()/g.discretization.min()**2
    if np.abs(w).max()>1e-12*scale: bad+=1; print("BAD laplace",g,np.abs(w).max()/scale)
    if type(g).__name__ in ("UnitGrid","CartesianGrid","SphericalSymGrid"):
        w=[]
        bc={"*":"auto_periodic_neumann"}
        bcv={ax: ("periodic" if g.periodic[i] else {"type":"normal_value","value":0}) for i,ax in enumerate(g.axes)}
        for k in range(g.num_cells*g.dim):
            f=VectorField(g); f.data.flat[k]=1.0
            if type(g).__name__=="SphericalSymGrid" and k>=g.num_cells: continue
            try:
                d=f.divergence(bcv)
            except Exception as e:
                print("EXC div",g,e); break
            w.append(float((d.data*V).sum()))
        scale=np.abs(V).max()/g.discretization.min()
        if w and np.abs(w).max()>1e-12*scale: bad+=1; print("BAD div",g,np.abs(w).max()/scale)
print("bad",bad)
# simulations
for g in [UnitGrid([4]), CartesianGrid([[0,1],[-1,3]],[3,2],periodic=[True,False]), SphericalSymGrid((0.7,2),3), PolarSymGrid(2,4), CylindricalSymGrid(2,(0,1),(3,2))]:
    s=ScalarField.random_uniform(g,-1,1,rng=np.random.default_rng(0))
    for eq in [DiffusionPDE(0.7), CahnHilliardPDE(0.6), PDE({"c":"laplace(c**3 - c - 0.5*laplace(c))"})]:
        for solver in ["euler","runge-kutta","implicit","crank-nicolson","adams-bashforth"]:
            for backend in ["numpy","numba"]:
                for dt in [1e-4,1e-3]:
                    vals=[]
                    try:
                        r=eq.solve(s,t_range=5*dt,dt=dt,solver=solver,backend=backend,tracker=[DataTracker(lambda st,t: st.integral, interrupts=dt)])
                    except Exception as e:
                        print("EXC",type(g).__name__,type(eq).__name__,solver,backend,dt,type(e).__name__,str(e)[:60]); continue
                    if not np.isclose(r.integral,s.integral,rtol=1e-10,atol=1e-12*g.volume): bad+=1; print("BAD sim",g,type(eq).__name__,solver,backend,dt,r.integral-s.integral)
print("bad",bad)
