import itertools, numpy as np, warnings, logging
from pde import *
from pde.grids.coordinates import *
warnings.simplefilter("ignore"); logging.disable(logging.CRITICAL)
bad=0
def B(*a):
    global bad; bad+=1
    if bad<40: print("BAD",*a)
for c,pts in [(PolarCoordinates(), itertools.product([0.5,1,2.3],[0,0.7,np.pi,4,-1])),
              (SphericalCoordinates(), itertools.product([0.5,1,2.3],[0.3,np.pi/2,2.5],[0,0.7,np.pi,4,-1])),
              (CylindricalCoordinates(), itertools.product([0.5,1,2.3],[0,0.7,np.pi,4,-1],[-1,0,2.5])),
              (CartesianCoordinates(2), itertools.product([0.5,-1],[0.3,2])), (CartesianCoordinates(3), itertools.product([0.5],[0.3],[2.0]))]:
    for p in pts:
        p=np.array(p,float)
        R=c.basis_rotation(p)
        if R.ndim>2: R=R[...,0] if R.shape[-1]==1 else R
        R=np.asarray(R,float).reshape(c.dim,c.dim)
        if not np.allclose(R@R.T,np.eye(c.dim),atol=1e-12): B("orthonormal",c,p)
        if not np.isclose(np.linalg.det(R),1,atol=1e-12): B("righthanded",c,p,np.linalg.det(R))
        J=np.asarray(c.mapping_jacobian(p),float).reshape(c.dim,c.dim)  # J[a,i]=dx_a/dq_i
        cols=J/np.linalg.norm(J,axis=0)
        if not np.allclose(R.T,cols,atol=1e-12): B("jacobian",c,p,R,cols.T)
# conversion
g=CylindricalSymGrid(3,(-1,2),(12,6))
vf=VectorField.from_expression(g,["0","1","0"])  # components in grid order (r,z,phi): uniform axial
gc=CartesianGrid([[-1.5,1.5],[-1.5,1.5],[-0.5,1.5]],[4,4,3])
vc=vf.interpolate_to_grid(gc)
print("uniform axial -> cartesian comps mean abs:", [float(np.abs(vc.data[i]).mean()) for i in range(3)], "expected [0,0,1]")
print("vf['z'] mean", float(vf['z'].data.mean()), "vf[1]", float(vf[1].data.mean()))
vr=VectorField.from_expression(g,["r","z","0"])
vcc=vr.interpolate_to_grid(gc)
x,y,z=gc.coordinate_arrays
print("r e_r + z e_z -> (x,y,z)?", np.abs(vcc.data[0]-x).max(), np.abs(vcc.data[1]-y).max(), np.abs(vcc.data[2]-z).max())
for G in [PolarSymGrid(3,12), SphericalSymGrid(3,12)]:
    v=VectorField.from_expression(G,["r"]+["0"]*(G.dim-1))
    gc=CartesianGrid([[-1.5,1.5]]*G.dim,[4]*G.dim)
    vc=v.interpolate_to_grid(gc)
    print(type(G).__name__, [float(np.abs(vc.data[i]-gc.coordinate_arrays[i]).max()) for i in range(G.dim)])
print("bad",bad)
