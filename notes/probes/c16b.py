import itertools, numpy as np, logging, warnings
from pde import *
from pde.grids.base import DomainError
warnings.simplefilter("ignore"); logging.disable(logging.CRITICAL)
bad=0;n=0
def B(*a):
    global bad; bad+=1
    if bad<30: print("BAD",*a)
for g in [UnitGrid([3]), CartesianGrid([[0,1],[-1,3]],[2,4],periodic=[True,False]), CartesianGrid([[0,1],[0,2],[0,3]],[2,2,3],periodic=[False,True,False]), PolarSymGrid((1,2),3), SphericalSymGrid(2,4), CylindricalSymGrid(2,(0,1),(3,2))]:
    for cls in [VectorField,Tensor2Field]:
        f=cls.random_uniform(g,rng=np.random.default_rng(0))
        vals=f.interpolate(g.cell_coords)   # shape data_shape+grid.shape
        if not np.allclose(vals,f.data,rtol=1e-13): B("centre",g,cls.__name__,vals.shape,f.data.shape)
        # batch shapes
        pts=g.cell_coords.reshape(-1,g.num_axes)[:3]
        v2=f.interpolate(pts)
        if v2.shape!=f.data.shape[:f.rank]+(3,): B("batch shape",v2.shape)
        # with bc value per component
        bcv=np.arange(1,g.dim**f.rank+1,dtype=float).reshape((g.dim,)*f.rank)
        bc={g.axes[a]:("periodic" if g.periodic[a] else {"value":bcv}) for a in range(g.num_axes)}
        for ax in range(g.num_axes):
            if g.periodic[ax]: continue
            for up in [False,True]:
                cell=[s/2 for s in g.shape]; cell[ax]=(g.shape[ax]-1e-9) if up else 1e-9
                pt=g.transform(np.array(cell),"cell","grid")
                v=f.copy().interpolate(pt,bc=bc); n+=1
                if not np.allclose(v,bcv,atol=1e-6): B("bc value",g,cls.__name__,ax,up,v,bcv)
        # insert for tensors: amount per component
        h=cls(g); amt=bcv
        pt=g.transform(np.array([s/2+0.2 for s in g.shape]),"cell","grid")
        h.insert(pt,amt)
        if not np.allclose(h.integral,amt,rtol=1e-12): B("insert",g,cls.__name__,h.integral)
    # scalar interpolate_to_grid same class & to cartesian
    s=ScalarField.random_uniform(g,rng=np.random.default_rng(1))
    s2=s.interpolate_to_grid(g)
    if not np.allclose(s2.data,s.data,rtol=1e-13): B("to same grid",g)
print("n",n,"bad",bad)
