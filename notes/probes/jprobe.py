import sys, time, itertools, numpy as np, warnings, logging
warnings.simplefilter("ignore"); logging.disable(logging.CRITICAL)
from pde import *
from pde.backends import get_backend
from pde.backends.numba.utils import numba_dict
idx=int(sys.argv[1]); tot=int(sys.argv[2])
nbk=get_backend("numba")
grids=[UnitGrid([3]), CartesianGrid([[0,1],[-1,3]],[2,3],periodic=[True,False]), CartesianGrid([[0,1],[0,2],[-3,3]],[2,3,2],periodic=[False,True,False]), SphericalSymGrid((1,2),3), CylindricalSymGrid(2,(0,1),(2,3))]
cases=[]
for g in grids:
    for rank,op in [(0,"laplace"),(0,"gradient"),(1,"divergence"),(1,"vector_gradient"),(2,"tensor_divergence")]:
        for kind in ["value","derivative","mixed","curvature","normal_value","normal_derivative","value_inh","value_expression","derivative_expression","mixed_expression"]:
            if rank==0 and kind.startswith("normal"): continue
            if rank>0 and "expression" in kind: continue
            cases.append((g,rank,op,kind))
res=[]
for k,(g,rank,op,kind) in enumerate(cases):
    if k%tot!=idx: continue
    cls=[ScalarField,VectorField,Tensor2Field][rank]
    rng=np.random.default_rng(1)
    ax=[i for i in range(g.num_axes) if not g.periodic[i]][0]
    bshape=tuple(s for i,s in enumerate(g.shape) if i!=ax)
    if kind=="value_inh": spec={"type":"value","value":rng.uniform(size=(g.dim,)*rank+bshape)}
    elif kind=="value_expression": spec={"type":"value_expression","value":"1+t"+("+"+g.axes[1] if g.num_axes>1 and ax!=1 else "")}
    elif kind=="derivative_expression": spec={"type":"derivative_expression","value":"2*t"}
    elif kind=="mixed_expression": spec={"type":"mixed_expression","value":"1+t","const":"0.5"}
    elif kind=="mixed": spec={"type":"mixed","value":1.5,"const":0.5}
    else: spec={"type":kind,"value":0.7}
    bc={g.axes[i]:("periodic" if g.periodic[i] else "derivative") for i in range(g.num_axes)}
    bc[g.axes[ax]+"+"]=spec
    f=cls.random_uniform(g,rng=rng)
    if isinstance(g,SphericalSymGrid) and rank>0:
        f.data[1:]=0 if rank==1 else f.data[1:]
        if rank==2: 
            d=np.zeros_like(f.data); d[0,0]=f.data[0,0]; d[1,1]=d[2,2]=f.data[1,1]; f.data=d
    t0=time.time()
    try:
        ref=f.apply_operator(op,bc,args={"t":1.3}).data
        o=g.make_operator(op,bc=bc)
        val=o(f.data,args=numba_dict(t=1.3))
        ok=np.allclose(val,ref,rtol=1e-11,atol=1e-12)
        res.append((type(g).__name__,g.num_axes,rank,op,kind,"OK" if ok else "MISMATCH %g"%np.abs(val-ref).max(),round(time.time()-t0,1)))
    except Exception as e:
        res.append((type(g).__name__,g.num_axes,rank,op,kind,"EXC "+type(e).__name__+" "+str(e).split("\n")[0][:80],round(time.time()-t0,1)))
for r in res: print(*r)
