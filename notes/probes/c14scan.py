import itertools, numpy as np, copy, pickle, json, warnings, logging
from pde import *
from pde.fields.base import FieldBase
warnings.simplefilter("ignore"); logging.disable(logging.CRITICAL)
bad=0
def B(*a):
    global bad; bad+=1
    if bad<40: print("BAD",*a)
def grids():
    for per in [False,True]:
        yield UnitGrid([3],periodic=per); yield CartesianGrid([[-1.5,2]],[4],periodic=per)
    yield UnitGrid([3,2],periodic=[True,False]); yield CartesianGrid([[0,1],[-1,3]],[2,3],periodic=[False,True]); yield CartesianGrid([[0,1],[0,2],[-3,3]],[2,3,2],periodic=[False,True,False])
    for cls in [PolarSymGrid,SphericalSymGrid]:
        yield cls(2,3); yield cls(2.5,3); yield cls((0.7,2),3); yield cls((1,3),2)
    for pz in [False,True]:
        yield CylindricalSymGrid(2,(0,1),(3,2),periodic_z=pz); yield CylindricalSymGrid((1,2.5),(-1,1),(2,3),periodic_z=pz); yield CylindricalSymGrid(3,(-2,-1),4,periodic_z=pz)
def same(g,h):
    return type(g) is type(h) and g==h and g.axes_bounds==h.axes_bounds and g.shape==h.shape and list(g.periodic)==list(h.periodic) and g.axes==h.axes and np.allclose(g.cell_volumes,h.cell_volumes,rtol=1e-14)
for g in grids():
    for name,h in [("state",GridBase.from_state(dict(g.state,**{"class":type(g).__name__}))),("json",GridBase.from_state(g.state_serialized)),("copy",g.copy()),("deepcopy",copy.deepcopy(g)),("pickle",pickle.loads(pickle.dumps(g)))]:
        try:
            if not same(g,h): B("grid",name,g,h)
        except Exception as e: B("grid exc",name,g,e)
    for cls,dtype,label in itertools.product([ScalarField,VectorField,Tensor2Field],[float,complex,np.float32],[None,"lbl"]):
        f=cls.random_uniform(g,rng=np.random.default_rng(0),label=label,dtype=dtype)
        try:
            f2=FieldBase.from_state(FieldBase.unserialize_attributes(f.attributes_serialized),data=f.data)
            ok=type(f2) is type(f) and f2==f and f2.label==f.label and f2.dtype==f.dtype and same(f.grid,f2.grid)
            if not ok: B("field",g,cls.__name__,dtype,label, type(f2), f2.dtype, f2.label)
        except Exception as e: B("field exc",g,cls.__name__,dtype,label,type(e).__name__,e)
    # collections
    fc=FieldCollection([ScalarField.random_uniform(g,label="a"),VectorField.random_uniform(g,label="v"),Tensor2Field.random_uniform(g)],label="coll")
    try:
        fc2=FieldBase.from_state(FieldBase.unserialize_attributes(fc.attributes_serialized),data=fc.data)
        ok=type(fc2) is type(fc) and fc2==fc and list(fc2.labels)==list(fc.labels) and fc2.label==fc.label and same(fc.grid,fc2.grid)
        if not ok: B("coll",g)
    except Exception as e: B("coll exc",g,type(e).__name__,e)
    for wg in [True,False]:
        try:
            src=fc._data_full if wg else fc.data
            fc3=FieldCollection.from_data([ScalarField,VectorField,Tensor2Field],g,src,with_ghost_cells=wg)
            if not (np.array_equal(fc3.data,fc.data) and all(np.array_equal(a.data,b.data) for a,b in zip(fc3,fc))): B("from_data",g,wg)
        except Exception as e: B("from_data exc",g,wg,type(e).__name__,str(e)[:60])
print("bad",bad)
