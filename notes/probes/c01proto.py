"""Prototype: continuum oracle via Cartesian embedding; refinement order of raw operators."""
import numpy as np, sympy as sp, itertools, math, sys, time
from pde import *

x,y,z = sp.symbols("x y z", real=True)
X = (x,y,z)

def basis(system, dim):
    """return list of basis vectors (as sympy cartesian vectors) in GRID component order, and coordinate exprs"""
    if system=="polar":
        r = sp.sqrt(x**2+y**2)
        er = sp.Matrix([x/r, y/r]); ep = sp.Matrix([-y/r, x/r])
        return [er, ep], {"r": r}, (x,y)
    if system=="cyl":
        r = sp.sqrt(x**2+y**2)
        er = sp.Matrix([x/r, y/r, 0]); ep = sp.Matrix([-y/r, x/r, 0]); ez = sp.Matrix([0,0,1])
        return [er, ez, ep], {"r": r, "z": z}, (x,y,z)   # grid order r, z, phi
    if system=="sph":
        r = sp.sqrt(x**2+y**2+z**2); rho = sp.sqrt(x**2+y**2)
        er = sp.Matrix([x/r,y/r,z/r]); et = sp.Matrix([x*z/(r*rho), y*z/(r*rho), -rho/r]); ep = sp.Matrix([-y/rho, x/rho, 0])
        return [er, et, ep], {"r": r}, (x,y,z)

def cart_ops(cs):
    n=len(cs)
    grad = lambda f: sp.Matrix([sp.diff(f,c) for c in cs])
    lap = lambda f: sum(sp.diff(f,c,2) for c in cs)
    div = lambda V: sum(sp.diff(V[i],cs[i]) for i in range(n))
    vgrad = lambda V: sp.Matrix(n,n,lambda i,j: sp.diff(V[i],cs[j]))   # T_ij = d_j V_i
    vlap = lambda V: sp.Matrix([lap(V[i]) for i in range(n)])
    tdiv = lambda T: sp.Matrix([sum(sp.diff(T[i,j],cs[j]) for j in range(n)) for i in range(n)])
    return dict(grad=grad,lap=lap,div=div,vgrad=vgrad,vlap=vlap,tdiv=tdiv)

def embed_vector(comps, B):
    return sum((comps[i]*B[i] for i in range(len(B))), sp.zeros(len(B[0]),1))
def embed_tensor(T, B):
    n=len(B); M=sp.zeros(len(B[0]),len(B[0]))
    for i in range(n):
        for j in range(n):
            M += T[i][j]*B[i]*B[j].T
    return M
def project_vector(V,B): return [ (B[i].T*V)[0,0] for i in range(len(B))]
def project_tensor(M,B): return [[ (B[i].T*M*B[j])[0,0] for j in range(len(B))] for i in range(len(B))]

def evaluator(expr, system, cs):
    """return numpy function of grid coords evaluating expr at a generic angle"""
    if system=="polar":
        rr=sp.symbols("rr",positive=True); sub={x: rr*sp.cos(0.3), y: rr*sp.sin(0.3)}
        f=sp.lambdify([rr], sp.sympify(expr).subs(sub), "numpy"); return lambda r: f(r)+0*r
    if system=="cyl":
        rr=sp.symbols("rr",positive=True); zz=sp.symbols("zz",real=True); sub={x: rr*sp.cos(0.3), y: rr*sp.sin(0.3), z: zz}
        f=sp.lambdify([rr,zz], sp.sympify(expr).subs(sub,simultaneous=True), "numpy"); return lambda r,zv: f(r,zv)+0*r
    if system=="sph":
        rr=sp.symbols("rr",positive=True); th,ph=0.9,0.3
        sub={x: rr*math.sin(th)*math.cos(ph), y: rr*math.sin(th)*math.sin(ph), z: rr*math.cos(th)}
        f=sp.lambdify([rr], sp.sympify(expr).subs(sub), "numpy"); return lambda r: f(r)+0*r

def full_coords(grid):
    cs=[]
    for ax in range(grid.num_axes):
        c=grid.axes_coords[ax]; d=grid.discretization[ax]
        cs.append(np.r_[c[0]-d, c, c[-1]+d])
    return np.meshgrid(*cs, indexing="ij")

def run(system, make_grid, opname, rank_in, comps_expr, cont_fn, kwargs={}, Ns=(16,32,64)):
    B, coordexpr, cs = basis(system, None)
    ops = cart_ops(cs)
    # continuum
    if rank_in==0:
        F = comps_expr
        res = cont_fn(ops, F, B)
    elif rank_in==1:
        V = embed_vector(comps_expr, B); res = cont_fn(ops, V, B)
    else:
        M = embed_tensor(comps_expr, B); res = cont_fn(ops, M, B)
    errs=[]
    for N in Ns:
        grid = make_grid(N)
        coords = full_coords(grid)
        # input data (full incl ghost) sampled analytically
        def sample(e):
            return evaluator(e, system, cs)(*coords)
        if rank_in==0: data = sample(comps_expr)
        elif rank_in==1: data = np.array([sample(e) for e in comps_expr])
        else: data = np.array([[sample(e) for e in row] for row in comps_expr])
        op = grid.make_operator_no_bc(opname, backend="numba", **kwargs)
        info_rank = {"laplace":0,"gradient":1,"gradient_squared":0,"divergence":0,"vector_gradient":2,"vector_laplace":1,"tensor_divergence":1,"tensor_double_divergence":0}[opname]
        out = np.empty((grid.dim,)*info_rank + grid.shape)
        op(data, out)
        valid = tuple(c[(slice(1,-1),)*grid.num_axes] for c in coords)
        def ev(e): return evaluator(e, system, cs)(*valid)
        if info_rank==0: exact = ev(res)
        elif info_rank==1: exact = np.array([ev(e) for e in res])
        else: exact = np.array([[ev(e) for e in row] for row in res])
        errs.append(np.abs(out-exact).reshape(-1, *grid.shape) if True else None)
    return errs

def orders(errs):
    # max error over all cells and comps
    e=[float(np.max(a)) for a in errs]
    return e, [math.log2(e[i]/e[i+1]) if e[i+1]>0 else float('inf') for i in range(len(e)-1)]

r_,z_ = sp.sqrt(x**2+y**2), z
R = sp.sqrt(x**2+y**2+z**2)
tests=[]
# cylindrical (no hole, and hole)
for hole in [0, 0.5]:
    mk = lambda N,hole=hole: CylindricalSymGrid((hole,2.0) if hole else 2.0, (-1.0,1.5), (N, N+N//2))
    f = sp.exp(-r_**2)*sp.cos(z_) + r_**2*z_
    vr, vz, vp = r_*sp.exp(-r_**2)*(1+z_), sp.cos(r_**2)*sp.sin(z_), r_*(1+r_**2)*sp.cos(z_)
    tests += [("cyl",mk,"laplace",0,f,lambda o,F,B:o["lap"](F),{}),
              ("cyl",mk,"gradient",0,f,lambda o,F,B:project_vector(o["grad"](F),B),{}),
              ("cyl",mk,"divergence",1,[vr,vz,vp],lambda o,V,B:o["div"](V),{}),
              ("cyl",mk,"vector_gradient",1,[vr,vz,vp],lambda o,V,B:project_tensor(o["vgrad"](V),B),{}),
              ("cyl",mk,"vector_laplace",1,[vr,vz,vp],lambda o,V,B:project_vector(o["vlap"](V),B),{}),
              ]
    # tensor: components with right parity: T_rr even, T_rz odd*..., use smooth cartesian tensor pulled back? choose generic with r factors
    T=[[sp.exp(-r_**2)*(1+z_), r_*sp.cos(z_), r_*z_],
       [r_*sp.sin(z_), sp.cos(r_**2)*z_, r_*(1+z_**2)],
       [r_*(2+z_), r_*sp.exp(-z_**2), sp.exp(-r_**2)*(1+z_) + r_**2*sp.cos(z_)]]
    tests += [("cyl",mk,"tensor_divergence",2,T,lambda o,M,B:project_vector(o["tdiv"](M),B),{})]
for hole in [0,0.5]:
    mk = lambda N,hole=hole: PolarSymGrid((hole,2.0) if hole else 2.0, N)
    f = sp.exp(-r_**2)+r_**4
    vr,vp = r_*sp.exp(-r_**2), r_*(1+r_**2)
    T=[[sp.exp(-r_**2), r_**2*sp.cos(r_**2)],[r_**2*(1+r_**2), sp.exp(-r_**2)+r_**2]]
    tests += [("polar",mk,"laplace",0,f,lambda o,F,B:o["lap"](F),{}),
              ("polar",mk,"divergence",1,[vr,vp],lambda o,V,B:o["div"](V),{}),
              ("polar",mk,"vector_gradient",1,[vr,vp],lambda o,V,B:project_tensor(o["vgrad"](V),B),{}),
              ("polar",mk,"tensor_divergence",2,T,lambda o,M,B:project_vector(o["tdiv"](M),B),{})]
for hole in [0,0.5]:
    mk = lambda N,hole=hole: SphericalSymGrid((hole,2.0) if hole else 2.0, N)
    f = sp.exp(-R**2)+R**4
    vr = R*sp.exp(-R**2)
    # tensor isotropic-transverse: T = a(r) er er + b(r)(I - er er)
    a,b = sp.exp(-R**2), sp.exp(-R**2)+R**2*sp.cos(R**2)
    T=[[a,0,0],[0,b,0],[0,0,b]]
    for cons in [True, False]:
        tests += [("sph",mk,"laplace",0,f,lambda o,F,B:o["lap"](F),{"conservative":cons}),
                  ("sph",mk,"divergence",1,[vr,0,0],lambda o,V,B:o["div"](V),{"conservative":cons}),
                  ("sph",mk,"tensor_divergence",2,T,lambda o,M,B:project_vector(o["tdiv"](M),B),{"conservative":cons}),
                  ("sph",mk,"tensor_double_divergence",2,T,lambda o,M,B:o["div"](o["tdiv"](M)),{"conservative":cons})]
    tests += [("sph",mk,"vector_gradient",1,[vr,0,0],lambda o,V,B:project_tensor(o["vgrad"](V),B),{})]
for t in tests:
    t0=time.time()
    try:
        errs = run(*t)
        e,o = orders(errs)
        # also away from axis: cells with r>=0.5
        print(t[0], t[2], t[6], "hole" if "hole" in str(t[1](4).axes_bounds[0][0]!=0) else "", t[1](4).axes_bounds[0], "err", ["%.2e"%v for v in e], "order", ["%.2f"%v for v in o], "%.1fs"%(time.time()-t0))
    except Exception as ex:
        import traceback; traceback.print_exc(); print("ERR", t[0], t[2], ex)

print("---- error profile near origin for conservative double divergence / tensor_divergence")
mk = lambda N: SphericalSymGrid(2.0, N)
a,b = sp.exp(-R**2), sp.exp(-R**2)+R**2*sp.cos(R**2)
T=[[a,0,0],[0,b,0],[0,0,b]]
for name, fn in [("tensor_double_divergence", lambda o,M,B:o["div"](o["tdiv"](M))), ("tensor_divergence", lambda o,M,B:project_vector(o["tdiv"](M),B))]:
    errs = run("sph", mk, name, 2, T, fn, {"conservative":True})
    for e in errs:
        print(name, "first cells err:", ["%.2e"%v for v in e.reshape(-1,e.shape[-1])[0][:5]], " max r>=0.5:", "%.2e"% e.reshape(-1,e.shape[-1])[0][e.shape[-1]//4:].max())
