import sys, time, numpy as np, math, warnings, logging
warnings.simplefilter("ignore"); logging.disable(logging.CRITICAL)
from pde import *
from pde.pdes.base import PDEBase
class Lin(PDEBase):
    def __init__(self,a=-1.,c3=0.0):
        super().__init__(); self.a=a; self.c3=c3; self.complex_valued=isinstance(a,complex)
    def evolution_rate(self, state, t=0): return self.a*state + (1+2*t+3*t**2+self.c3*t**3 if self.c3 else 0)
    def make_evolution_rate(self, state, backend):
        a=self.a; c3=self.c3
        if c3:
            def rhs(x,t): return a*x + (1+2*t+3*t**2+c3*t**3)
        else:
            def rhs(x,t): return a*x
        return rhs
grid=UnitGrid([2])
idx=int(sys.argv[1])
solvers=["euler","runge-kutta","implicit","crank-nicolson","adams-bashforth","euler-adaptive","rk-adaptive"]
combos=[(s,a) for s in solvers for a in [-0.5,-0.3+0.2j]]
s,a=combos[idx]
t0=time.time()
adaptive=s.endswith("adaptive"); name={"euler-adaptive":"euler","rk-adaptive":"runge-kutta"}.get(s,s)
kw={}
if name in("implicit","crank-nicolson"): kw=dict(maxerror=1e-15,maxiter=1000)
if adaptive: kw=dict(adaptive=True,tolerance=1e-4)
s0=ScalarField(grid,[1.0,-2.5]) if not isinstance(a,complex) else ScalarField(grid,[1.0+0.5j,-2.5+1j])
out=[]
for backend in ["numpy","numba"]:
    eq=Lin(a)
    r,info=eq.solve(s0,(1.5,1.5+0.3),dt=0.1,solver=name,backend=backend,tracker=None,ret_info=True,**kw)
    out.append((r.data.copy(),info["solver"]["steps"],info["controller"]["t_final"]))
print(s,a,"agree",np.allclose(out[0][0],out[1][0],rtol=1e-12 if not adaptive else 1e-3), out[0][1],out[1][1],out[0][2],out[1][2], "secs",round(time.time()-t0,1))
# stage-time variant
if not adaptive and not isinstance(a,complex):
    res=[]
    for backend in ["numpy","numba"]:
        eq=Lin(0.0,c3=4.0); r=eq.solve(s0,(1.5,1.8),dt=0.1,solver=name,backend=backend,tracker=None,**kw); res.append(r.data.copy())
    print(s,"stage agree",np.allclose(res[0],res[1],rtol=1e-12))
