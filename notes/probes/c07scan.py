import itertools, math, sys, time
import numpy as np
import pde as pdepkg
from pde.pdes.base import PDEBase
from pde import *
from pde.trackers.base import TrackerBase
from pde.trackers.interrupts import ConstantInterrupts

class Rec(TrackerBase):
    def __init__(self, interrupts):
        super().__init__(interrupts); self.ts=[]; self.vals=[]; self.fin=0
    def handle(self, field, t):
        self.ts.append(t); self.vals.append(field.data.copy())
    def finalize(self, info=None):
        self.fin+=1

class Lin(PDEBase):
    def __init__(self,a=-1.): super().__init__(); self.a=a
    def evolution_rate(self, state, t=0): return self.a*state
    def make_evolution_rate(self, state, backend):
        a=self.a
        def rhs(x,t): return a*x
        return rhs

grid=UnitGrid([2]); s0=ScalarField(grid,[1.,2.])
eq=Lin(-0.5)
bad=0; n=0
dts=[1.0,0.5,0.1,0.3,1/3,0.7,0.01,1e-3, 0.25]
t0s=[0.0, 1.5, -2.0, 0.1]
t_start=time.time()
for backend in ["numpy","numba"]:
  for solver in ["euler"]:
    for dt in dts:
      for t0 in t0s:
        for N in [1,2,3,4,5,7,10,13]:
            t1=t0+N*dt
            ref=None
            for Dmul in [None,1,1.5,2,2.5,3,0.5,1/3,math.pi/2, 7/3, 10, 0.999, 1.001]:
                trk = None if Dmul is None else Rec(ConstantInterrupts(Dmul*dt))
                r,info=eq.solve(s0,(t0,t1),dt=dt,solver=solver,backend=backend,tracker=trk,ret_info=True)
                n+=1
                steps=info["solver"]["steps"]; tf=info["controller"]["t_final"]
                ok = steps==N and abs(tf-t1)<=1e-9*dt
                if ref is None: ref=r.data.copy()
                ok = ok and np.array_equal(ref,r.data)
                exp = s0.data*(1-0.5*dt)**N
                ok = ok and np.allclose(r.data,exp,rtol=1e-12)
                msg=""
                if trk is not None:
                    D=Dmul*dt
                    ts=np.array(trk.ts)
                    if not np.all(np.diff(ts)>0): ok=False; msg+=" nonincreasing"
                    # genuine sim times
                    k=(ts-t0)/dt
                    if not np.allclose(k,np.round(k),atol=1e-6): ok=False; msg+=" not-sim-time"
                    if D>=dt*(1-1e-12):
                        T=t1-t0
                        K=int(math.floor(T/D+1e-9))
                        sched=t0+np.arange(K+1)*D
                        # each scheduled time served exactly once by call within dt/2
                        for sc in sched:
                            cnt=np.sum(np.abs(ts-sc)<=dt/2*(1+1e-9))
                            if cnt<1: ok=False; msg+=f" unserved {sc}"
                        if len(ts) not in (K+1,K+2): ok=False; msg+=f" frames {len(ts)} vs {K+1}"
                        if len(ts)==K+2 and abs(ts[-1]-tf)>1e-9: ok=False; msg+=" extra-not-final"
                    if trk.fin!=1: ok=False; msg+=" fin"
                if not ok:
                    bad+=1
                    if bad<40: print("BAD",backend,solver,dt,t0,N,Dmul,steps,tf,t1,msg, trk.ts if trk else None)
print("runs",n,"bad",bad, time.time()-t_start)
