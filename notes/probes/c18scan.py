import itertools, numpy as np, warnings, logging
from pde import *
from pde.backends import get_backend
logging.disable(logging.CRITICAL)
nbk=get_backend("numba")
def grids():
    yield UnitGrid([4]); yield UnitGrid([4],periodic=True); yield CartesianGrid([[-1,2]],[3]); 
    yield UnitGrid([3,2]); yield CartesianGrid([[0,1],[0,3]],[2,3],periodic=[True,False]); yield CartesianGrid([[0,1],[0,2],[0,3]],[2,2,3],periodic=[False,True,False])
    yield PolarSymGrid(2,4); yield PolarSymGrid((1,2),3); yield SphericalSymGrid(2,4); yield SphericalSymGrid((1,2),3)
    yield CylindricalSymGrid(2,(0,1),(3,2)); yield CylindricalSymGrid((1,2),(0,1),(2,3)); yield CylindricalSymGrid(2,(0,1),(3,2),periodic_z=True)
bcs_side=[{"value":0},{"value":1.5},{"derivative":0},{"derivative":-0.7},{"mixed":2.0},{"type":"mixed","value":1.5,"const":0.5},{"curvature":0},{"curvature":1.2}]
bad=0;n=0;errs=0
for g in grids():
    sides=[]
    for ax in range(g.num_axes):
        if g.periodic[ax]: sides.append([("periodic",)])
        else: sides.append(list(itertools.product(range(len(bcs_side)),repeat=2)))
    # limit: all pairs for axis 0, and for other axes a fixed rotating choice
    for combo0 in sides[0]:
        bc={}
        for ax,name in enumerate(g.axes):
            if g.periodic[ax]: bc[name]="periodic"
            else:
                c = combo0 if ax==0 else sides[ax][(hash(combo0)+ax*7)%len(sides[ax])]
                bc[name+"-"]=bcs_side[c[0]]; bc[name+"+"]=bcs_side[c[1]]
        rng=np.random.default_rng(1)
        # rhs in the range: L(w)
        w=ScalarField.random_uniform(g,rng=rng)
        try:
            rhs=w.laplace(bc)
        except Exception as e:
            print("lapERR",g,bc,e); continue
        n+=1
        try:
            u=solve_poisson_equation(rhs,bc)
            res=u.laplace(bc).data-rhs.data
            if np.abs(res).max()>1e-4*(1+np.abs(rhs.data).max()):
                bad+=1; print("BAD",g,bc,np.abs(res).max())
        except Exception as e:
            errs+=1; print("ERR",type(e).__name__,g,bc,str(e)[:80])
print("n",n,"bad",bad,"errs",errs)
