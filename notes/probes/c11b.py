import numpy as np, math, warnings, logging, time
from pde import *
from pde.tools.expressions import ScalarExpression, TensorExpression
warnings.simplefilter("ignore"); logging.disable(logging.CRITICAL)
bad=0
def B(*a):
    global bad; bad+=1; print("BAD",*a)
ns={"sin":math.sin,"cos":math.cos,"exp":math.exp,"tanh":math.tanh,"sqrt":math.sqrt,"log":math.log,"heaviside":lambda x,h=0.5:(0.0 if x<0 else (1.0 if x>0 else h)),"Heaviside":lambda x,h=0.5:(0.0 if x<0 else (1.0 if x>0 else h)),"erf":math.erf,"abs":abs,"sinh":math.sinh,"atan":math.atan,"hypot":math.hypot,"pi":math.pi}
exprs=["a+b*2","sin(a)*b","a**2/(1+b**2)","heaviside(a-b)","Heaviside(a-b)*a","erf(a)+hypot(a,b)","exp(-a**2)*cos(b)","a**3-b","tanh(a*b)+k","sqrt(a**2+1)/b","log(a**2+1)*pi","abs(a)-abs(b)","atan(a/b)","2**a","a**b" ,"(a+b)**2-(a-b)**2"]
t0=time.time()
for s in exprs:
    e=ScalarExpression(s,signature=["a","b"],consts={"k":1.25})
    fn=e.get_function("numpy"); fj=e.get_function("numba")
    for a,b in [(0.3,0.7),(1.2,2.1),(1.7,0.4)]:
        ref=eval(s,{"__builtins__":{}},dict(ns,a=a,b=b,k=1.25))
        for name,f in [("np",fn),("call",e)]+([] if "erf" in s else [("nb",fj)]):
            v=f(a,b)
            if not np.isclose(v,ref,rtol=1e-10): B(s,name,a,b,v,ref)
    # arrays elementwise
    A=np.array([0.3,1.2,1.7]); Bv=np.array([0.7,2.1,0.4])
    va=fn(A,Bv); vj=None if "erf" in s else fj(A,Bv)
    refs=[eval(s,{"__builtins__":{}},dict(ns,a=x,b=y,k=1.25)) for x,y in zip(A,Bv)]
    if not (np.allclose(va,refs,rtol=1e-10) and ("erf" in s or np.allclose(vj,refs,rtol=1e-10))): B("array",s,va,vj,refs)
    # derivatives vs numeric
    for var in ["a","b"]:
        if "eaviside" in s or "abs" in s or "hypot" in s: continue
        d=e.differentiate(var)
        a,b=1.2,2.1; h=1e-6
        num=(eval(s,{"__builtins__":{}},dict(ns,a=a+(h if var=="a" else 0),b=b+(h if var=="b" else 0),k=1.25))-eval(s,{"__builtins__":{}},dict(ns,a=a-(h if var=="a" else 0),b=b-(h if var=="b" else 0),k=1.25)))/(2*h)
        if not np.isclose(d(a,b),num,rtol=1e-6,atol=1e-8): B("deriv",s,var,d(a,b),num)
print("scalar exprs done",time.time()-t0,"bad",bad)
# fields
g=CartesianGrid([[0,1],[-1,3]],[2,3])
x,y=g.coordinate_arrays
f=ScalarField.from_expression(g,"sin(x)*y+2")
if not np.allclose(f.data,np.sin(x)*y+2): B("scalar field")
v=VectorField.from_expression(g,["x*y","cos(y)"])
if not (np.allclose(v.data[0],x*y) and np.allclose(v.data[1],np.cos(y))): B("vector field")
t=Tensor2Field.from_expression(g,[["x","y"],["x*y","1"]])
if not (np.allclose(t.data[0,1],y) and np.allclose(t.data[1,0],x*y) and np.allclose(t.data[1,1],1)): B("tensor field")
gp=PolarSymGrid(2,4); r=gp.axes_coords[0]
if not np.allclose(ScalarField.from_expression(gp,"radius**2").data,r**2): B("alias radius")
gc=CylindricalSymGrid(2,(0,1),(3,2)); rr,zz=gc.coordinate_arrays
vc=VectorField.from_expression(gc,["r","z","r*z"])
if not (np.allclose(vc.data[0],rr) and np.allclose(vc.data[1],zz) and np.allclose(vc.data[2],rr*zz)): B("cyl vector order")
if not np.allclose(vc["z"].data,zz): B("cyl by-name z")
if not np.allclose(vc["φ"].data,rr*zz): B("cyl by-name phi")
# cartesian special const
fc=ScalarField.from_expression(gp,"cartesian[0]")
print("cartesian const ok", fc.data[:2])
te=TensorExpression("[[a, b], [a*b, 2]]"); print(te(0.5,3.0), te.derivatives(0.5,3.0).shape)
print("bad",bad)
