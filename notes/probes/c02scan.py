import itertools, numpy as np, logging, math, warnings
from pde import *
from pde.backends import get_backend
warnings.simplefilter("ignore")
logging.disable(logging.CRITICAL)
nbk=get_backend("numba")
def grids():
    yield UnitGrid([3]); yield CartesianGrid([[-1,2]],[4]); yield UnitGrid([3],periodic=True)
    yield CartesianGrid([[0,1],[-1,3]],[2,3],periodic=[False,False]); yield CartesianGrid([[0,1],[-1,3]],[3,2],periodic=[True,False])
    yield CartesianGrid([[0,1],[0,2],[-3,3]],[2,3,2],periodic=[False,True,False])
    yield PolarSymGrid((1,2),3); yield SphericalSymGrid(2,3); yield CylindricalSymGrid((1,2),(0,1),(2,3))
bad=0;n=0
def B(*a):
    global bad; bad+=1
    if bad<40: print("BAD",*a)
for g in grids():
  for rank in [0,1,2]:
    cls=[ScalarField,VectorField,Tensor2Field][rank]
    tshape=(g.dim,)*rank
    for ax in range(g.num_axes):
        if g.periodic[ax]: continue
        for up in [False,True]:
            side=g.axes[ax]+("+" if up else "-")
            bshape=tuple(s for i,s in enumerate(g.shape) if i!=ax)
            rng=np.random.default_rng(3)
            vals={"hom":rng.uniform(1,2,size=tshape) if rank else 1.3, "inh":rng.uniform(1,2,size=tshape+bshape)}
            for kind,normal in itertools.product(["value","derivative","mixed","curvature"],[False,True]):
                if normal and rank==0: continue
                for vk in ["hom","inh"]:
                    if normal:
                        nshape=(g.dim,)*(rank-1)
                        v=rng.uniform(1,2,size=nshape if vk=="hom" else nshape+bshape)
                        if v.ndim==0: v=float(v)
                    else: v=vals[vk]
                    name=("normal_" if normal else "")+kind
                    spec={"type":name,"value":v}
                    if kind=="mixed": spec["const"]=0.7
                    bc={"*":"auto_periodic_neumann" if rank==0 else ("auto_periodic_derivative"), side:spec}
                    bc={ (g.axes[a]): ("periodic" if g.periodic[a] else "derivative") for a in range(g.num_axes)}
                    bc[side]=spec
                    f=cls.random_uniform(g,rng=np.random.default_rng(5))
                    f._data_full[...]=777.0
                    f.data=np.random.default_rng(5).uniform(size=f.data.shape)
                    try:
                        f.set_ghost_cells(bc)
                    except Exception as e:
                        B("exc",g,rank,side,name,vk,type(e).__name__,str(e)[:80]); continue
                    n+=1
                    full=f._data_full
                    def sl(k):  # index along axis in full array
                        idx=[slice(1,-1)]*g.num_axes; idx[ax]=k; return (...,*idx)
                    ghost=full[sl(-1 if up else 0)]; c1=full[sl(-2 if up else 1)]; c2=full[sl(-3 if up else 2)] if g.shape[ax]>=2 else None
                    dx=g.discretization[ax]
                    vb=np.asarray(v,float)
                    if normal:
                        gh=ghost[...,ax,*([slice(None)]*len(bshape))] if rank==1 else ghost[:,ax]
                        c1n=c1[ax] if rank==1 else c1[:,ax]; c2n=(c2[ax] if rank==1 else c2[:,ax]) if c2 is not None else None
                        # others untouched
                        others=np.delete(ghost, ax, axis=rank-1)
                        if not np.all(others== (np.delete(c1,ax,axis=rank-1) if False else others)): pass
                        # untouched means equals neumann default? we set default 'derivative' for whole axis first... skip
                    else:
                        gh,c1n,c2n=ghost,c1,c2
                    if vb.ndim and vk=="hom": vb=vb.reshape(vb.shape+(1,)*len(bshape))
                    if kind=="value": lhs=(gh+c1n)/2; rhs=vb
                    elif kind=="derivative": lhs=(gh-c1n)/dx; rhs=vb
                    elif kind=="mixed": lhs=(gh-c1n)/dx+vb*(gh+c1n)/2; rhs=0.7
                    else: lhs=(gh-2*c1n+c2n)/dx**2; rhs=vb
                    if not np.allclose(lhs,rhs,rtol=1e-12,atol=1e-12): B("cond",g,rank,side,name,vk,np.abs(lhs-rhs).max())
                    # compiled setter route (mode I python)
                    bcs=g.get_boundary_conditions(bc,rank=rank)
                    setter=nbk.make_ghost_cell_setter(bcs)
                    full2=np.full_like(full,777.0); full2[(...,*g._idx_valid)]=f.data
                    setter(full2)
                    # compare excluding corners
                    mask=np.zeros(g._shape_full,bool)
                    for a in range(g.num_axes):
                        idx=[slice(1,-1)]*g.num_axes; idx[a]=[0,-1]; mask[tuple(idx)]=True
                    if not np.allclose(full2[...,mask],full[...,mask],rtol=1e-13): B("setter mismatch",g,rank,side,name,vk,np.abs(full2[...,mask]-full[...,mask]).max())
print("n",n,"bad",bad)
