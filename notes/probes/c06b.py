import numpy as np, math, warnings, logging
from pde import *
from pde.pdes.base import PDEBase
warnings.simplefilter("ignore"); logging.disable(logging.CRITICAL)
class Lin(PDEBase):
    def __init__(self,a=-1.): super().__init__(); self.a=a
    def evolution_rate(self, state, t=0): return self.a*state
    def make_evolution_rate(self, state, backend):
        a=self.a
        return lambda x,t: a*x
grid=UnitGrid([2]); worst=0; n=0
for backend in ["numpy","numba"]:
  for solver in ["euler","runge-kutta"]:
    for lam in [0.5,1.0,5.0,20.0]:
      for T in [0.3,1.0,2.7,10.0]:
        for tol in [1e-1,1e-2,1e-3,1e-4,1e-6,1e-8]:
          for dt0 in [1e-3,0.1,10.0]:
            eq=Lin(-lam); s0=ScalarField(grid,[1.0,-2.5])
            r,info=eq.solve(s0,(0.5,0.5+T),dt=dt0,solver=solver,backend=backend,tracker=None,ret_info=True,adaptive=True,tolerance=tol)
            steps=info["solver"]["steps"]; err=np.abs(r.data-s0.data*math.exp(-lam*T)).max()
            ratio=err/(steps*tol); n+=1
            if ratio>worst: worst=ratio; print("worst",backend,solver,lam,T,tol,dt0,steps,err,ratio)
print(n,worst)
