import itertools, numpy as np, logging, math, warnings
from pde import *
from pde.backends import get_backend
warnings.simplefilter("ignore"); logging.disable(logging.CRITICAL)
nbk=get_backend("numba")
bad=0;n=0
def B(*a):
    global bad; bad+=1
    if bad<40: print("BAD",*a)
def grids():
    yield UnitGrid([3]); yield CartesianGrid([[-1,2]],[4]); 
    yield CartesianGrid([[0,1],[-1,3]],[2,3]); yield CartesianGrid([[0,1],[-1,3]],[3,2],periodic=[True,False])
    yield CartesianGrid([[0,1],[0,2],[-3,3]],[2,3,2],periodic=[False,True,False]); yield CartesianGrid([[0,1],[0,2],[-3,3]],[2,2,2])
    yield PolarSymGrid((1,2),3); yield SphericalSymGrid(2,3); yield CylindricalSymGrid((1,2),(0,1),(2,3)); yield CylindricalSymGrid(2,(0,1),(2,3))
import math as m
for g in grids():
    for ax in range(g.num_axes):
        if g.periodic[ax]: continue
        for up in [False,True]:
            side=g.axes[ax]+("+" if up else "-")
            others=[a for i,a in enumerate(g.axes) if i!=ax]
            exprs=["1.5","1+t","2*"+g.axes[ax]+"+t"]+(["sin(%s)+t*%s"%(others[0],others[-1]), "%s*%s+2"%(others[0],others[-1])] if others else [])
            for kind,e in itertools.product(["value_expression","derivative_expression","mixed_expression","virtual_point","value","derivative"],exprs):
                spec={"type":kind,"value":e}
                if kind=="mixed_expression": spec["const"]="0.5+t"
                if kind in("value","derivative") and "t" in e.replace("sqrt","").replace("tan","") and "t" in [c for c in e]: 
                    # const BCs do not know t
                    if "t" in e.split("*")+e.split("+"): continue
                bc={g.axes[i]:("periodic" if g.periodic[i] else "derivative") for i in range(g.num_axes)}
                bc[side]=spec
                tval=1.3
                f=ScalarField.random_uniform(g,rng=np.random.default_rng(5)); f._data_full[...]=777.0; f.data=np.random.default_rng(5).uniform(size=g.shape)
                try:
                    f.set_ghost_cells(bc,args={"t":tval})
                except Exception as ex:
                    B("exc",g,side,kind,e,type(ex).__name__,str(ex)[:80]); continue
                n+=1
                full=f._data_full
                def sl(k):
                    idx=[slice(1,-1)]*g.num_axes; idx[ax]=k; return tuple(idx)
                gh=full[sl(-1 if up else 0)]; c1=full[sl(-2 if up else 1)]
                dx=g.discretization[ax]
                # evaluate expression at face coords
                coords=g._boundary_coordinates(ax,up)  # shape bshape+(num_axes,)
                ns={"sin":np.sin,"t":tval}
                for i,a in enumerate(g.axes): ns[a]=coords[...,i]
                v=eval(e,{"__builtins__":{}},ns)+0*gh
                if kind in("value_expression","value"): lhs=(gh+c1)/2
                elif kind in("derivative_expression","derivative"): lhs=(gh-c1)/dx
                elif kind=="mixed_expression": lhs=(gh-c1)/dx+v*(gh+c1)/2; v=0.5+tval
                else: lhs=gh
                if not np.allclose(lhs,v,rtol=1e-12,atol=1e-12): B("cond",g,side,kind,e,np.abs(lhs-v).max())
                bcs=g.get_boundary_conditions(bc)
                setter=nbk.make_ghost_cell_setter(bcs)
                full2=np.full_like(full,777.0); full2[g._idx_valid]=f.data
                from pde.backends.numba.utils import numba_dict
                try:
                    setter(full2,args=numba_dict(t=tval))
                except Exception as ex:
                    B("setter exc",g,side,kind,e,type(ex).__name__,str(ex)[:80]); continue
                mask=np.zeros(g._shape_full,bool)
                for a in range(g.num_axes):
                    idx=[slice(1,-1)]*g.num_axes; idx[a]=[0,-1]; mask[tuple(idx)]=True
                if not np.allclose(full2[mask],full[mask],rtol=1e-13): B("setter mismatch",g,side,kind,e,np.abs(full2[mask]-full[mask]).max())
# anti-periodic and spec formats
g=CartesianGrid([[0,1],[-1,3]],[3,2],periodic=[True,False])
f=ScalarField.random_uniform(g,rng=np.random.default_rng(2))
f.set_ghost_cells({"x":"anti-periodic","y":"neumann"})
if not (np.allclose(f._data_full[0,1:-1],-f._data_full[-2,1:-1]) and np.allclose(f._data_full[-1,1:-1],-f._data_full[1,1:-1])): B("anti-periodic")
f.set_ghost_cells({"x":"periodic","y":"neumann"})
if not (np.allclose(f._data_full[0,1:-1],f._data_full[-2,1:-1]) and np.allclose(f._data_full[-1,1:-1],f._data_full[1,1:-1])): B("periodic")
# formats equal
g=CartesianGrid([[0,1],[-1,3]],[2,3])
ref=None
for fmt in [{"x-":{"value":1},"x+":{"derivative":2},"y":"neumann"},{"left":{"value":1},"right":{"derivative":2},"*":"neumann"},{"x":({"value":1},{"derivative":2}),"y":"derivative"},{"x-":{"type":"dirichlet","value":1},"x+":{"type":"neumann","value":2},"bottom":"neumann","top":{"derivative":0}},[[{"value":1},{"derivative":2}],"neumann"],{"x":{"low":{"value":1},"high":{"derivative":2}},"y":"neumann"}]:
    f=ScalarField.random_uniform(g,rng=np.random.default_rng(2)); f._data_full[[0,-1],:]=9; f._data_full[:,[0,-1]]=9
    try:
        f.set_ghost_cells(fmt)
    except Exception as ex: B("fmt exc",fmt,type(ex).__name__,ex); continue
    if ref is None: ref=f._data_full.copy()
    elif not np.array_equal(ref,f._data_full): B("fmt mismatch",fmt)
print("n",n,"bad",bad)
