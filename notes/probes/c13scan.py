import itertools, numpy as np, logging, math, warnings
from pde import *
from pde.pdes.base import SDEBase
warnings.simplefilter("ignore"); logging.disable(logging.CRITICAL)
class MulSDE(SDEBase):
    """du/dt = a u + noise with variance v0*u^2 (multiplicative)"""
    def __init__(self,a,v0,**kw): super().__init__(noise=v0,**kw); self.a=a; self.v0=v0
    def evolution_rate(self,state,t=0): return self.a*state
    def make_evolution_rate(self,state,backend):
        a=self.a
        return lambda x,t: a*x
    def make_noise_variance(self,state,*,backend,ret_diff=False):
        v0=self.v0
        if ret_diff: return lambda x,t: (v0*x**2, 2*v0*x)
        return lambda x,t: v0*x**2
bad=0;n=0
for g in [UnitGrid([3]), CartesianGrid([[0,1],[-1,3]],[2,3]), SphericalSymGrid((0.5,2),3), CylindricalSymGrid(2,(0,1),(2,2))]:
  inv=1/g.cell_volumes
  for interp,alpha in [("ito",0),("stratonovich",0.5),("anti-ito",1.0)]:
    for solver in ["euler","milstein"]:
      for dt in [0.01,0.1]:
        for steps in [1,3]:
          for seed in [0,1]:
            a,v0=-0.3,0.2
            eq=MulSDE(a,v0,noise_interpretation=interp,rng=np.random.default_rng(seed))
            s0=ScalarField.random_uniform(g,0.5,1.5,rng=np.random.default_rng(7))
            r=eq.solve(s0,t_range=steps*dt,dt=dt,solver=solver,backend="numpy",tracker=None)
            rng=np.random.default_rng(seed)
            u=s0.data.copy()
            for k in range(steps):
                var=v0*u**2; dvar=2*v0*u; rate=a*u
                xi=rng.standard_normal(u.shape)
                if solver=="euler":
                    u=u+dt*rate+np.sqrt(dt)*np.sqrt(var*inv)*xi+ (0.5*dt*alpha*dvar*inv if alpha else 0)
                else:
                    dW=np.sqrt(dt)*xi
                    u=u+dt*rate+0.5*dt*alpha*dvar*inv+np.sqrt(var*inv)*dW+0.25*dvar*inv*(dW**2-dt)
            n+=1
            if not np.allclose(r.data,u,rtol=1e-12): bad+=1; print("BAD",g,interp,solver,dt,steps,seed,np.abs(r.data-u).max())
# additive: DiffusionPDE with noise on collections etc.
for g in [UnitGrid([3]), SphericalSymGrid((0.5,2),3)]:
    for seed in [0,3]:
        eq=DiffusionPDE(0.5,noise=0.3,rng=np.random.default_rng(seed)); s0=ScalarField.random_uniform(g,rng=np.random.default_rng(1)); dt=0.01
        r=eq.solve(s0,t_range=2*dt,dt=dt,solver="euler",backend="numpy",tracker=None)
        rng=np.random.default_rng(seed); u=s0.copy()
        for k in range(2):
            lap=u.laplace("auto_periodic_neumann").data
            u.data=u.data+dt*0.5*lap+np.sqrt(0.3*dt/g.cell_volumes)*rng.standard_normal(g.shape)
        n+=1
        if not np.allclose(r.data,u.data,rtol=1e-12): bad+=1; print("BAD additive",g,seed)
        eq0=DiffusionPDE(0.5,noise=0.0); r0=eq0.solve(s0,t_range=2*dt,dt=dt,solver="euler",backend="numpy",tracker=None)
# PDE with per-field noise
g=UnitGrid([3]); 
eq=PDE({"a":"-a","b":"-2*b"},noise=[0.1,0.4],rng=np.random.default_rng(5))
fc=FieldCollection([ScalarField(g,1.0),ScalarField(g,2.0)]); dt=0.05
r=eq.solve(fc,t_range=dt,dt=dt,solver="euler",backend="numpy",tracker=None)
rng=np.random.default_rng(5); xi=rng.standard_normal((2,3))
exp=np.array([np.full(3,1.0)*(1-dt), np.full(3,2.0)*(1-2*dt)])+np.sqrt(dt)*np.sqrt(np.array([[0.1],[0.4]]))*xi
print("per-field", np.allclose(r.data,exp,rtol=1e-12))
print("n",n,"bad",bad)
