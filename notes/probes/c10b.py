import numpy as np, warnings, logging
from pde import *
from pde.backends import get_backend
warnings.simplefilter("ignore"); logging.disable(logging.CRITICAL)
nbk=get_backend("numba")
bad=0;n=0
def B(*a):
    global bad; bad+=1; print("BAD",*a)
g1=CartesianGrid([[0,2]],[4]); g2=CartesianGrid([[0,1],[-1,3]],[3,2],periodic=[True,False]); gs=SphericalSymGrid((0.7,2),3)
cases=[
 (g1,{"c":"laplace(c) + k*c**2 - x*c + t"},dict(consts={"k":0.7},bc={"x-":{"value":1.2},"x+":{"derivative":0.5}})),
 (g1,{"c":"laplace(c**2) - d_dx(c)*c"},dict(bc={"x":"dirichlet"})),
 (g1,{"c":"laplace(c) + gradient_squared(c)"},dict(bc={"x":{"value":0.3}},bc_ops={"c:gradient_squared":{"x":{"derivative":0.4}}})),
 (g1,{"c":"laplace(laplace(c))"},dict(bc={"x":{"value_expression":"1+t"}})),
 (g2,{"u":"laplace(u) - u*v + y","v":"0.5*laplace(v) + u**2 - sin(t)"},dict(bc={"x":"periodic","y":{"value":0.5}},bc_ops={"v:laplace":{"x":"periodic","y":{"derivative":1.0}}})),
 (g2,{"c":"divergence(c*gradient(c)) + dot(gradient(c),gradient(c))"},dict(bc={"x":"periodic","y":"neumann"})),
 (gs,{"c":"laplace(c**3 - c - 0.6*laplace(c)) + r"},dict(bc={"r-":{"value":0.2},"r+":{"derivative":0.1}})),
 (g1,{"c":"integral(c)*laplace(c) + f*c"},dict(consts={"f":ScalarField(g1,[1.,2.,3.,4.])},bc={"x":"neumann"})),
]
for g,rhs,kw in cases:
    rng=np.random.default_rng(0)
    if len(rhs)==1: s=ScalarField.random_uniform(g,0.1,1,rng=rng)
    else: s=FieldCollection([ScalarField.random_uniform(g,0.1,1,rng=rng) for _ in rhs])
    vals={}
    for b in ["numpy","numba"]:
        nbk._cache_methods={}
        eq=PDE(rhs,**kw)
        try:
            f=eq.make_pde_rhs(s,backend=b); vals[b]=np.array(f(s.data.copy(),1.3))
        except Exception as e: B("exc",rhs,b,type(e).__name__,str(e)[:100])
    nbk._cache_methods={}
    ref=PDE(rhs,**kw).evolution_rate(s.copy(),1.3).data; n+=1
    for b,v in vals.items():
        if not np.allclose(v,ref,rtol=1e-11,atol=1e-12): B("mismatch",rhs,b,np.abs(v-ref).max())
# independent reference for first case
g=g1; s=ScalarField.random_uniform(g,0.1,1,rng=np.random.default_rng(0)); nbk._cache_methods={}
eq=PDE(cases[0][1],**cases[0][2]); got=eq.evolution_rate(s.copy(),1.3).data
x=g.axes_coords[0]; exp=s.laplace({"x-":{"value":1.2},"x+":{"derivative":0.5}}).data+0.7*s.data**2-x*s.data+1.3
if not np.allclose(got,exp,rtol=1e-12): B("independent ref")
print("n",n,"bad",bad)
