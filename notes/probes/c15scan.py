import numpy as np, itertools, warnings, logging
from pde import *
warnings.simplefilter("ignore"); logging.disable(logging.CRITICAL)
bad=0
def B(*a):
    global bad; bad+=1; print("BAD",*a)
for g in [UnitGrid([3]), CartesianGrid([[0,1],[0,2]],[2,3],periodic=[True,False]), SphericalSymGrid(2,3), CylindricalSymGrid(2,(0,1),(2,2))]:
    rng=np.random.default_rng(0)
    s=ScalarField.random_uniform(g,rng=rng); v=VectorField.random_uniform(g,rng=rng); t=Tensor2Field.random_uniform(g,rng=rng)
    # data is live view of padded array
    for f in [s,v,t]:
        if not np.shares_memory(f.data,f._data_full): B("data view",g,type(f))
        f._data_full[...]=np.arange(f._data_full.size).reshape(f._data_full.shape)
        if not np.array_equal(f.data, f._data_full[(...,*g._idx_valid)]): B("view content")
    # component views
    v0=v[0]; t01=t[0,g.dim-1]
    v0.data[...]=-5
    if not np.all(v.data[0]==-5): B("vector comp view",g)
    t01.data[...]=-6
    if not np.all(t.data[0,g.dim-1]==-6): B("tensor comp view",g)
    # collection links
    fc=FieldCollection([s,v,t])
    for i,f in enumerate([s,v,t]):
        if not np.shares_memory(f._data_full,fc._data_full): B("collection link",g,i)
    fc.data[0]=42
    if not np.all(s.data==42): B("write via coll -> member")
    v.data[g.dim-1]=43
    if not np.all(fc.data[1+g.dim-1]==43): B("write via member -> coll, layout",g)
    t.data[g.dim-1,0]=44
    k=1+g.dim+((g.dim-1)*g.dim+0)
    if not np.all(fc.data[k]==44): B("tensor rowmajor layout",g,k)
    # stale view after relink (documented?)
    v0_new=v[0]
    if not np.shares_memory(v0_new._data_full, fc._data_full): B("new comp view not in coll")
    # copies never alias
    pairs=[("copy",s.copy(),s),("fc copy",fc.copy(),fc),("slice",fc[0:2],fc),("append",fc.append(s.copy()),fc),("arith",s+1,s),("arith2",s*s,s),("neg",-s,s),("real",s.real,s),("op",s.laplace("auto_periodic_neumann"),s),("grad",s.gradient("auto_periodic_neumann"),s),("coll copy_fields",FieldCollection([s.copy(),v.copy()],copy_fields=True),fc)]
    for name,a,b in pairs:
        if np.shares_memory(a._data_full,b._data_full): B("alias",name,g)
    c=fc.copy()
    for a,b in zip(c,fc):
        if np.shares_memory(a._data_full,b._data_full): B("member alias after copy")
    # binary ops leave operands unchanged; inplace only valid cells
    s2=ScalarField.random_uniform(g,rng=rng); s2._data_full[...]=7.0; s2.data=rng.uniform(size=g.shape)
    before=s2._data_full.copy(); other=ScalarField.random_uniform(g,rng=rng); ob=other._data_full.copy()
    for op in [lambda a,b:a+b, lambda a,b:a-b, lambda a,b:a*b, lambda a,b:a/(b+2), lambda a,b:a**2, lambda a,b:2-a, lambda a,b: 3/(a+2)]:
        r=op(s2,other)
        if not (np.array_equal(s2._data_full,before) and np.array_equal(other._data_full,ob)): B("operand changed")
    for op in ["__iadd__","__isub__","__imul__","__itruediv__"]:
        s3=s2.copy(); gh=s3._data_full.copy()
        getattr(s3,op)(other+2)
        mask=np.ones(s3._data_full.shape,bool); mask[g._idx_valid]=False
        if not np.array_equal(s3._data_full[mask],gh[mask]): B("inplace touched ghost",op)
        if not np.array_equal(other._data_full,ob): B("inplace changed other")
    s3=s2.copy(); gh=s3._data_full.copy(); s3**=2
    mask=np.ones(s3._data_full.shape,bool); mask[g._idx_valid]=False
    if not np.array_equal(s3._data_full[mask],gh[mask]): B("ipow ghost")
    # storage
    st=MemoryStorage(); st.start_writing(s); st.append(s,0.0); r=st[0]
    if np.shares_memory(r._data_full,s._data_full) or np.shares_memory(r.data,st.data[0]): B("storage alias")
print("bad",bad)
