import numpy as np, itertools, warnings, logging, collections
from pde import *
warnings.simplefilter("ignore"); logging.disable(logging.CRITICAL)
g=UnitGrid([2])
fA=ScalarField(g,[1.,2.]); fB=ScalarField(g,[3.,4.])
OPS=["start","appA","appB","appNone","mutA","end","clear","clear_shape","read","extract_range","copy"]
class Model:
    def __init__(s,mode): s.mode=mode; s.frames=[]; s.shape=None; s.curA=np.array([1.,2.])
    def step(s,op):
        if op=="start":
            if s.mode=="readonly": return "RuntimeError"
            s.shape=(2,)
            if s.mode=="truncate_once": s.frames=[]; s.mode="append"
            elif s.mode=="truncate": s.frames=[]
            return None
        if op in("appA","appB","appNone"):
            if s.shape is None: return "RuntimeError"
            data=s.curA.copy() if op!="appB" else np.array([3.,4.])
            t={"appA":1.5,"appB":2.5}.get(op)
            if t is None: t=0 if not s.frames else s.frames[-1][0]+1
            s.frames.append((t,data)); return None
        if op=="mutA": s.curA=s.curA+10; return None
        if op=="clear": s.frames=[]; return None
        if op=="clear_shape": s.frames=[]; s.shape=None; return None
        return None
def run(mode,hist):
    st=MemoryStorage(write_mode=mode); a=ScalarField(g,[1.,2.]); b=ScalarField(g,[3.,4.]); m=Model(mode)
    for op in hist:
        exp=m.step(op); got=None
        try:
            if op=="start": st.start_writing(a)
            elif op=="appA": st.append(a,1.5)
            elif op=="appB": st.append(b,2.5)
            elif op=="appNone": st.append(a)
            elif op=="mutA": a.data+=10
            elif op=="end": st.end_writing()
            elif op=="clear": st.clear()
            elif op=="clear_shape": st.clear(clear_data_shape=True)
            elif op=="read":
                for i,(t,f) in enumerate(st.items()):
                    f.data[...]=-99  # mutate read-back
            elif op=="extract_range":
                if len(st): 
                    e=st.extract_time_range((1.0,2.0))
                    expt=[t for t,_ in m.frames if 1.0<=t<=2.0]
                    # only valid when times sorted
                    if sorted(st.times)==list(st.times) and list(e.times)!=expt: return ("extract mismatch",hist,list(e.times),expt)
            elif op=="copy":
                if len(st):
                    c=st.copy()
                    if list(c.times)!=list(st.times) or any(not np.array_equal(x,y) for x,y in zip(c.data,st.data)): return ("copy mismatch",hist)
        except Exception as e: got=type(e).__name__
        if got!=exp: return ("exc mismatch",hist,op,got,exp)
        if list(st.times)!=[t for t,_ in m.frames]: return ("times",hist,list(st.times),[t for t,_ in m.frames])
        if any(not np.array_equal(x,y[1]) for x,y in zip(st.data,m.frames)): return ("data",hist)
        if st.write_mode!=m.mode: return ("mode",hist,st.write_mode,m.mode)
    return None
bad=0;n=0
for mode in ["truncate_once","truncate","append","readonly"]:
    for d in range(1,6):
        for hist in itertools.product(OPS,repeat=d):
            n+=1
            r=run(mode,hist)
            if r: 
                bad+=1
                if bad<15: print("BAD",mode,r)
print("n",n,"bad",bad)
