import itertools, numpy as np, logging, math, warnings
from pde import *
from pde.backends import get_backend
warnings.simplefilter("ignore"); logging.disable(logging.CRITICAL)
nbk=get_backend("numba")
bad=0;n=0
def grids():
    yield UnitGrid([4]); yield UnitGrid([4],periodic=True); yield CartesianGrid([[0,1],[-1,3]],[3,2],periodic=[True,False]); yield SphericalSymGrid((0.7,2),3); yield PolarSymGrid(2,3); yield CylindricalSymGrid(2,(0,1),(3,2))
def eqs(bc1,bc2):
    yield DiffusionPDE(0.7,bc=bc1), "c"
    yield AllenCahnPDE(0.6,1.7,bc=bc1), "c"
    yield CahnHilliardPDE(0.8,bc_c=bc1,bc_mu=bc2), "c"
    yield KPZInterfacePDE(0.4,1.3,bc=bc1), "c"
    yield KuramotoSivashinskyPDE(0.9,bc=bc1,bc_lap=bc2), "c"
    yield SwiftHohenbergPDE(0.2,0.7,0.3,bc=bc1,bc_lap=bc2), "c"
    yield WavePDE(1.4,bc=bc1), "uv"
    yield KleinGordonPDE(1.3,0.6,bc=bc1), "uv"
for clear in [True, False]:
  bad=0
  for g in grids():
    for bc1,bc2 in [("auto_periodic_neumann","auto_periodic_neumann"),("auto_periodic_dirichlet","auto_periodic_neumann"),("auto_periodic_neumann","auto_periodic_dirichlet"),({"*":{"value":1.2}} ,{"*":{"derivative":0.5}})]:
        if isinstance(bc1,dict) and any(g.periodic): continue
        for eq,kind in eqs(bc1,bc2):
            rng=np.random.default_rng(0)
            if kind=="c": s=ScalarField.random_uniform(g,-1,1,rng=rng)
            else: s=FieldCollection([ScalarField.random_uniform(g,-1,1,rng=rng),ScalarField.random_uniform(g,-1,1,rng=rng)])
            if clear: nbk._cache_methods={}
            ref=eq.evolution_rate(s.copy(),1.3).data
            for b in ["numpy","numba"]:
                if clear: nbk._cache_methods={}
                try:
                    rhs=eq.make_pde_rhs(s,backend=b)
                    val=rhs(s.data.copy(),1.3)
                except Exception as e:
                    print("EXC",type(eq).__name__,b,type(e).__name__,str(e)[:100]); bad+=1; continue
                n+=1
                if not np.allclose(val,ref,rtol=1e-11,atol=1e-12): bad+=1; print("BAD clear=%s"%clear,type(g).__name__,g.shape,type(eq).__name__,b,bc1,bc2,np.abs(val-ref).max())
            # expression route
            same = (bc1==bc2) or type(eq).__name__ in ("DiffusionPDE","AllenCahnPDE","KPZInterfacePDE","WavePDE","KleinGordonPDE")
            if same:
                ex = eq.expressions if hasattr(eq,"expressions") else {"c":eq.expression}
                if clear: nbk._cache_methods={}
                eq2=PDE(ex,bc=bc1)
                val=eq2.evolution_rate(s.copy(),1.3).data
                if not np.allclose(val,ref,rtol=1e-5,atol=1e-8): bad+=1; print("BAD expr clear=%s"%clear,type(g).__name__,type(eq).__name__,bc1,np.abs(val-ref).max(), ex)
  print("clear",clear,"n",n,"bad",bad)
