import itertools, numpy as np, logging
from pde import *
from pde.grids._mesh import GridMesh
logging.disable(logging.CRITICAL)
def grids():
    for per in [False, True]:
        for n in [1,2,3,5,7]:
            yield UnitGrid([n],periodic=per)
        yield CartesianGrid([[-1,2]],[5],periodic=per)
    yield UnitGrid([3,4]); yield CartesianGrid([[0,1],[-1,3]],[4,5],periodic=[True,False]); yield CartesianGrid([[0,1],[0,2],[0,3]],[2,3,4],periodic=[False,True,False])
    yield PolarSymGrid(2,5); yield PolarSymGrid((1,2),4); yield SphericalSymGrid(2,5); yield SphericalSymGrid((0.5,2),4)
    yield CylindricalSymGrid(2,(0,1),(3,4)); yield CylindricalSymGrid(2,(-1,1),(3,5),periodic_z=True); yield CylindricalSymGrid((1,2),(0,1),(2,3))
bad=0;n=0
for g in grids():
    for decomp in itertools.product(*[range(1,s+1) for s in g.shape]):
        try:
            mesh=GridMesh.from_grid(g, list(decomp))
        except Exception as e:
            print("ERR from_grid", g, decomp, type(e).__name__, str(e)[:60]); continue
        n+=1
        msgs=[]
        # tiling
        vol=sum(sg.volume for sg in mesh.subgrids.flat)
        if not np.isclose(vol,g.volume,rtol=1e-12): msgs.append(f"volume {vol} {g.volume}")
        for ax in range(g.num_axes):
            idx=[0]*g.num_axes; idx[ax]=slice(None)
            subs=list(mesh.subgrids[tuple(idx)])
            if sum(s.shape[ax] for s in subs)!=g.shape[ax]: msgs.append("shape sum")
            if subs[0].axes_bounds[ax][0]!=g.axes_bounds[ax][0] or subs[-1].axes_bounds[ax][1]!=g.axes_bounds[ax][1]: msgs.append(f"outer bounds ax{ax} {subs[0].axes_bounds[ax]} {subs[-1].axes_bounds[ax]} {g.axes_bounds[ax]}")
            for a,b in zip(subs[:-1],subs[1:]):
                if a.axes_bounds[ax][1]!=b.axes_bounds[ax][0]: msgs.append("gap")
            cc=np.concatenate([s.axes_coords[ax] for s in subs])
            if not np.allclose(cc,g.axes_coords[ax],rtol=1e-12,atol=1e-12): msgs.append("coords")
        # split/combine
        for cls in [ScalarField, VectorField, Tensor2Field]:
            f=cls.random_uniform(g,rng=np.random.default_rng(0)); f._data_full[...]=np.random.default_rng(1).uniform(size=f._data_full.shape)
            for wg in [False,True]:
                src=f._data_full if wg else f.data
                parts=[mesh.extract_field_data(src,i,with_ghost_cells=wg) for i in range(len(mesh))]
                for i,p in enumerate(parts):
                    exp=(mesh[i]._shape_full if wg else mesh[i].shape)
                    if p.shape[-g.num_axes:]!=exp: msgs.append(f"part shape {i}")
                comb=mesh.combine_field_data(parts,with_ghost_cells=wg)
                if not np.array_equal(comb,src): msgs.append(f"roundtrip {cls.__name__} wg={wg}")
        # neighbors
        for i in range(len(mesh)):
            for ax in range(g.num_axes):
                for up in [False,True]:
                    nb=mesh.get_neighbor(ax,up,node_id=i)
                    if nb is not None:
                        back=mesh.get_neighbor(ax,not up,node_id=nb)
                        if back!=i: msgs.append(f"neighbor asym {i} {ax} {up} {nb} {back}")
        # operator equivalence for laplace w/ global bc
        bc="auto_periodic_neumann"
        f=ScalarField.random_uniform(g,rng=np.random.default_rng(2))
        ref=f.laplace(bc).data
        parts=[]
        for i in range(len(mesh)):
            sub=mesh.extract_field_data(f._data_full,i,with_ghost_cells=True)
            sg=mesh[i]
            out=np.empty(sg.shape)
            sg.make_operator_no_bc("laplace")(np.ascontiguousarray(sub),out)
            parts.append(out)
        comb=mesh.combine_field_data(parts)
        if not np.allclose(comb,ref,rtol=1e-10,atol=1e-10): msgs.append(f"operator mismatch {np.abs(comb-ref).max()}")
        if msgs:
            bad+=1
            if bad<30: print("BAD",g,decomp,msgs[:4])
print("n",n,"bad",bad)
