import itertools, numpy as np, logging, warnings
from pde import *
from pde.backends import get_backend
from pde.backends.scipy.operators.common import make_laplace_from_matrix
warnings.simplefilter("ignore"); logging.disable(logging.CRITICAL)
import importlib
mods={"UnitGrid":"cartesian","CartesianGrid":"cartesian","PolarSymGrid":"polar_sym","SphericalSymGrid":"spherical_sym","CylindricalSymGrid":"cylindrical_sym"}
def grids():
    yield UnitGrid([4]); yield UnitGrid([3],periodic=True); yield CartesianGrid([[-1,2]],[3]); 
    yield CartesianGrid([[0,1],[-1,3]],[2,3]); yield CartesianGrid([[0,1],[0,3]],[2,3],periodic=[True,False]); yield CartesianGrid([[0,1],[0,2],[0,3]],[2,2,3],periodic=[False,True,False])
    yield PolarSymGrid(2,4); yield PolarSymGrid((1,2),3); yield SphericalSymGrid(2,4); yield SphericalSymGrid((1,2),3)
    yield CylindricalSymGrid(2,(0,1),(3,2)); yield CylindricalSymGrid((1,2),(0,1),(2,3)); yield CylindricalSymGrid(2,(0,1),(3,2),periodic_z=True)
side=[{"value":0},{"value":1.5},{"derivative":-0.7},{"type":"mixed","value":1.5,"const":0.5},{"curvature":1.2}]
bad=0;n=0
for g in grids():
    mod=importlib.import_module("pde.backends.scipy.operators."+mods[type(g).__name__])
    np_axes=[i for i in range(g.num_axes) if not g.periodic[i]]
    for combo in itertools.product(range(len(side)),repeat=2*len(np_axes)):
        if len(np_axes)>1 and (sum(combo)%3!=0): continue  # thin out
        bc={}; k=0
        for i,a in enumerate(g.axes):
            if g.periodic[i]: bc[a]="periodic"
            else:
                spec=[side[combo[k]],side[combo[k+1]]]; k+=2
                if g.shape[i]<2 and any("curvature" in s for s in spec): spec=[side[0],side[0]]
                # inhomogeneous per-face arrays for value on multi-axis grids
                bc[a+"-"]=spec[0]; bc[a+"+"]=spec[1]
        bcs=g.get_boundary_conditions(bc)
        try:
            m,v=mod._get_laplace_matrix(bcs)
        except Exception as e:
            print("EXC",g,bc,e); continue
        lap=make_laplace_from_matrix(m,v)
        f=ScalarField.random_uniform(g,rng=np.random.default_rng(0))
        a=lap(f.data); b=f.laplace(bc).data
        n+=1
        if not np.allclose(a,b,rtol=1e-11,atol=1e-11):
            bad+=1
            if bad<25: print("BAD",type(g).__name__,g.axes_bounds,g.shape,bc,np.abs(a-b).max())
print("n",n,"bad",bad)
