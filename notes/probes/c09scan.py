import itertools, math, numpy as np
from pde.trackers.interrupts import *
bad=0;n=0
def B(*a):
    global bad; bad+=1
    if bad<30: print("BAD",*a)
ulp=lambda x: np.nextafter(x,np.inf)-x
def queries(ans, period):
    # candidate next queries relative to the last answer `ans`
    return [("on",ans),("-ulp",np.nextafter(ans,-np.inf)),("+ulp",np.nextafter(ans,np.inf)),("-eps",ans-1e-9*period),("+eps",ans+1e-9*period),("+half",ans+0.5*period),("+1",ans+period),("+2.5",ans+2.5*period),("+far",ans+101.3*period),("-half",ans-0.5*period)]
def explore(make, check, period_of, depth=5, t0=0.0):
    global n
    # DFS over query choice indices
    def rec(hist):
        global n
        it=make(); a=it.initialize(t0); answers=[a]; qs=[t0]
        for choice in hist:
            q=queries(answers[-1] if math.isfinite(answers[-1]) else qs[-1]+1, period_of(it))[choice][1]
            q=max(q,qs[-1])
            a=it.next(q); qs.append(q); answers.append(a)
        n+=1
        check(it,qs,answers,hist)
        if len(hist)<depth:
            for c in range(10): rec(hist+[c])
    rec([])
# constant
for dt,t0,ts in [(1.0,0.0,None),(0.1,0.3,None),(1/3,-2.0,None),(0.7,1.5,2.0)]:
    def chk(it,qs,ans,hist,dt=dt,t0=t0,ts=ts):
        base=t0 if ts is None else max(t0,ts)
        for i in range(1,len(ans)):
            if not ans[i]>=qs[i]-1e-9*dt: B("const earlier",dt,t0,hist,qs,ans)
            if not ans[i]>ans[i-1]: B("const nonincr",dt,t0,hist,qs,ans)
            k=(ans[i]-base)/dt
            if abs(k-round(k))>1e-6: B("const lattice",dt,t0,hist,ans[i],k)
    explore(lambda dt=dt,ts=ts: ConstantInterrupts(dt,ts), chk, lambda it: it.dt, depth=4, t0=t0)
print("const n",n,"bad",bad)
# fixed
for lst in [[0.5,1.0,1.5,4.0],[0.0,0.1,0.2,0.30000000000000004,1.0],[2.0],[1.0,1.0000000001,3.0]]:
    def chk(it,qs,ans,hist,lst=lst):
        idx=-1
        for i in range(len(ans)):
            q=qs[i]
            # reference: first element at position > idx with value >= q
            j=idx+1
            while j<len(lst) and lst[j]<q: j+=1
            exp=lst[j] if j<len(lst) else math.inf
            idx=j if j<len(lst) else len(lst)
            if ans[i]!=exp: B("fixed",lst,hist,qs,ans,i,exp); break
    explore(lambda lst=lst: FixedInterrupts(lst), chk, lambda it: 0.5, depth=4, t0=0.0)
print("fixed n",n,"bad",bad)
for scale,factor,t0 in [(1.0,2.0,0.0),(0.1,10.0,0.0),(3.0,1.5,1.0)]:
    def chk(it,qs,ans,hist,scale=scale,factor=factor):
        for i in range(len(ans)):
            if not ans[i]>=qs[i]*(1-1e-9): B("geo earlier",scale,factor,hist,qs,ans)
            if i and not ans[i]>ans[i-1]: B("geo nonincr",scale,factor,hist,qs,ans)
            k=math.log(ans[i]/scale)/math.log(factor)
            if abs(k-round(k))>1e-6: B("geo lattice",scale,factor,ans[i],k)
    explore(lambda s=scale,f=factor: GeometricInterrupts(s,f), chk, lambda it: (it._t_next or it.scale)*(it.factor-1), depth=4, t0=t0)
print("geo n",n,"bad",bad)
for dt0,factor,t0 in [(1.0,2.0,0.0),(0.1,1.0,0.0),(0.5,1.5,1.0)]:
    def chk(it,qs,ans,hist,dt0=dt0,factor=factor):
        for i in range(1,len(ans)):
            if not ans[i]>=qs[i]-1e-9*dt0: B("log earlier",hist,qs,ans)
            if not ans[i]>ans[i-1]: B("log nonincr",hist,qs,ans)
            gap=ans[i]-ans[i-1]; unit=dt0*factor**(i-1)
            m=gap/unit
            if abs(m-round(m))>1e-6 or round(m)<1: B("log gap lattice",dt0,factor,hist,i,gap,unit,m)
    explore(lambda d=dt0,f=factor: LogarithmicInterrupts(d,f), chk, lambda it: it.dt*it.factor, depth=4, t0=t0)
print("log n",n,"bad",bad)
