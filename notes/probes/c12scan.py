import itertools, numpy as np, logging, math
from pde import *
logging.disable(logging.CRITICAL)
def grids():
    for per in [False, True]:
        for n in [1,2,5]:
            yield UnitGrid([n],periodic=per)
        yield CartesianGrid([[-1,2]],[5],periodic=per); yield CartesianGrid([[-1e-3,2e-3]],[3],periodic=per); yield CartesianGrid([[-1e6,3e6]],[4],periodic=per)
    yield UnitGrid([3,4],periodic=[True,False]); yield CartesianGrid([[0,1],[-1,3]],[4,5],periodic=[True,False]); yield CartesianGrid([[0,1],[0,2],[-3,3]],[2,3,4],periodic=[False,True,True])
    yield PolarSymGrid(2,5); yield PolarSymGrid((1,2),4); yield PolarSymGrid(2,1); yield SphericalSymGrid(2,5); yield SphericalSymGrid((0.5,2),4)
    yield CylindricalSymGrid(2,(0,1),(3,4)); yield CylindricalSymGrid(2,(-1,1),(3,5),periodic_z=True); yield CylindricalSymGrid((1,2),(0,1),(2,3)); yield CylindricalSymGrid((1,2),(0,1),(2,3),periodic_z=True)
bad=0
def B(*a):
    global bad; bad+=1
    if bad<60: print("BAD",*a)
for g in grids():
    # centres and dx
    for ax in range(g.num_axes):
        lo,hi=g.axes_bounds[ax]; N=g.shape[ax]; dx=(hi-lo)/N
        if not np.isclose(g.discretization[ax],dx,rtol=1e-14): B("dx",g)
        if not np.allclose(g.axes_coords[ax], lo+(np.arange(N)+0.5)*dx, rtol=1e-13, atol=1e-13*abs(hi-lo)): B("centres",g)
    # volumes
    cv=g.cell_volumes
    if not np.isclose(cv.sum(), g.volume, rtol=1e-12): B("volsum",g,cv.sum(),g.volume)
    if not np.isclose(g.integrate(1), g.volume, rtol=1e-12): B("integrate1",g)
    # exact cell volume
    name=type(g).__name__
    exp=None
    if name in("UnitGrid","CartesianGrid"):
        exp=np.prod(g.discretization)*np.ones(g.shape)
    elif name=="PolarSymGrid":
        r=g.axes_coords[0]; d=g.discretization[0]; exp=np.pi*((r+d/2)**2-(r-d/2)**2)
    elif name=="SphericalSymGrid":
        r=g.axes_coords[0]; d=g.discretization[0]; exp=4/3*np.pi*((r+d/2)**3-(r-d/2)**3)
    elif name=="CylindricalSymGrid":
        r=g.axes_coords[0]; d=g.discretization[0]; exp=np.outer(np.pi*((r+d/2)**2-(r-d/2)**2), np.ones(g.shape[1])*g.discretization[1])
    if not np.allclose(cv,exp,rtol=1e-12): B("cellvol",g)
    # integrate over selected axes & project
    if g.num_axes>1:
        f=ScalarField.random_uniform(g,rng=np.random.default_rng(0))
        for ax_name in g.axes:
            try:
                p=f.project(ax_name)
                if not np.isclose(p.integral,f.integral,rtol=1e-12): B("project",g,ax_name,p.integral,f.integral)
            except NotImplementedError as e: pass
    # transforms
    for cell in itertools.product(*[[0.5, s-0.5, 0, s, 0.3, s/2, -0.7, s+1.2, -3.7*s, 4.3*s] for s in g.shape]):
        cell=np.array(cell,float)
        pg=g.transform(cell,"cell","grid"); pc=g.transform(cell,"cell","cartesian")
        if not np.allclose(g.transform(pg,"grid","cell"),cell,rtol=1e-9,atol=1e-9): B("cell-grid-cell",g,cell)
        if name in("UnitGrid","CartesianGrid") or all(pg[i]>=0 for i in range(1) ):
            back=g.transform(pc,"cartesian","cell")
            if not np.allclose(back,cell,rtol=1e-9,atol=1e-9): B("cart roundtrip",g,cell,back)
        inside=bool(np.all((cell>=0)&(cell<=g.shape)))
        if bool(g.contains_point(pg,coords="grid"))!=inside: B("contains",g,cell)
        # normalize
        q=g.normalize_point(pg.copy()); q2=g.normalize_point(q.copy())
        if not np.allclose(q,q2,rtol=1e-12,atol=1e-12*max(1,np.abs(pg).max())): B("idempotent",g,cell,q,q2)
        for ax in range(g.num_axes):
            L=g.axes_bounds[ax][1]-g.axes_bounds[ax][0]
            if g.periodic[ax]:
                k=(q[ax]-pg[ax])/L
                if not np.isclose(k,round(k),atol=1e-7): B("period shift",g,cell,ax,k)
                if not (g.axes_bounds[ax][0]-1e-9*L<=q[ax]<=g.axes_bounds[ax][1]+1e-9*L): B("normalize inside",g,cell,q)
            else:
                if q[ax]!=pg[ax]: B("nonperiodic moved",g,cell)
        qr=g.normalize_point(pg.copy(),reflect=True)
        if not g.contains_point(qr,coords="grid"): 
            # allow roundoff
            cc=g.transform(qr,"grid","cell")
            if not np.all((cc>=-1e-9)&(cc<=np.array(g.shape)+1e-9)): B("reflect inside",g,cell,qr)
    # distances
    pts=[g.transform(np.array(c,float),"cell","grid") for c in itertools.product(*[[0.1, s/2, s-0.1] for s in g.shape])]
    for p1,p2 in itertools.product(pts,pts):
        d12=g.distance(p1,p2); d21=g.distance(p2,p1)
        if not np.isclose(d12,d21,rtol=1e-12,atol=1e-15): B("dist sym",g,p1,p2)
        for ax in range(g.num_axes):
            if g.periodic[ax]:
                L=g.axes_bounds[ax][1]-g.axes_bounds[ax][0]
                p3=p2.copy(); p3[ax]+=L
                if not np.isclose(g.distance(p1,p3),d12,rtol=1e-9,atol=1e-12*L): B("dist period shift",g,p1,p2,ax,d12,g.distance(p1,p3))
                dv=g.difference_vector(p1,p2)
                # cart component along that periodic axis
                ci = ax if name in("UnitGrid","CartesianGrid") else 2
                if abs(dv[ci])>L/2*(1+1e-9): B("more than half period",g,p1,p2,dv)
print("bad",bad)
