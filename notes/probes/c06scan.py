import itertools, numpy as np, logging, math, warnings
from pde import *
from pde.pdes.base import PDEBase
warnings.simplefilter("ignore"); logging.disable(logging.CRITICAL)
class Lin(PDEBase):
    def __init__(self,a=-1.,g=None):
        super().__init__(); self.a=a; self.g=g; self.complex_valued=isinstance(a,complex); self.calls=[]
    def evolution_rate(self, state, t=0):
        self.calls.append(t)
        r=self.a*state
        if self.g is not None: r=r+self.g(t)
        return r
    def make_evolution_rate(self, state, backend):
        a=self.a; g=self.g; calls=self.calls
        if g is None:
            def rhs(x,t): calls.append(t); return a*x
        else:
            def rhs(x,t): calls.append(t); return a*x+g(t)
        return rhs
grid=UnitGrid([2])
bad=0;n=0
def R(solver,z):
    return {"euler":1+z,"runge-kutta":1+z+z**2/2+z**3/6+z**4/24,"implicit":1/(1-z),"crank-nicolson":(1+z/2)/(1-z/2)}[solver]
for backend in ["numpy","numba"]:
  for a in [-1.0,-0.5,0.3,2.0,-3+2j,1j]:
    for dt in [0.1,0.01,1/3,0.25]:
      for N in [1,2,3,5]:
        for t0 in [0.0,1.5,-2.0]:
          for solver in ["euler","runge-kutta","implicit","crank-nicolson","adams-bashforth"]:
            z=a*dt
            if solver in("implicit","crank-nicolson") and abs(z)>=0.7: continue
            s0=ScalarField(grid,[1.0,-2.5]) if not isinstance(a,complex) else ScalarField(grid,[1.0+0.5j,-2.5+1j])
            eq=Lin(a)
            kw={}
            if solver in("implicit","crank-nicolson"): kw=dict(maxerror=1e-15,maxiter=1000)
            try:
                r,info=eq.solve(s0,(t0,t0+N*dt),dt=dt,solver=solver,backend=backend,tracker=None,ret_info=True,**kw)
            except Exception as e:
                print("EXC",backend,a,dt,N,solver,type(e).__name__,str(e)[:80]); bad+=1; continue
            n+=1
            if solver=="adams-bashforth":
                um=(1-z)*s0.data.astype(complex); u=s0.data.astype(complex)
                for k in range(N): u,um=u+z*(1.5*u-0.5*um),u
                exp=u
            else: exp=s0.data*R(solver,z)**N
            if not np.allclose(r.data,exp,rtol=1e-11,atol=1e-13): bad+=1; print("BAD",backend,a,dt,N,t0,solver,r.data,exp)
            if info["solver"]["steps"]!=N: bad+=1; print("BAD steps",backend,solver,info["solver"]["steps"],N)
print("n",n,"bad",bad)
# stage times with g(t)
g=lambda t: 1+2*t+3*t**2+4*t**3
G=lambda t: t+t**2+t**3+t**4
for backend in ["numpy","numba"]:
  for solver in ["euler","runge-kutta","implicit","crank-nicolson","adams-bashforth"]:
    for dt in [0.1,0.25]:
      for t0 in [0.0,1.5]:
        N=3
        eq=Lin(0.0,g); s0=ScalarField(grid,[1.0,-2.5])
        kw=dict(maxerror=1e-15,maxiter=1000) if solver in("implicit","crank-nicolson") else {}
        r=eq.solve(s0,(t0,t0+N*dt),dt=dt,solver=solver,backend=backend,tracker=None,**kw)
        ts=[t0+k*dt for k in range(N+1)]
        if solver=="euler": inc=sum(dt*g(t) for t in ts[:-1])
        elif solver=="runge-kutta": inc=sum(dt/6*(g(t)+4*g(t+dt/2)+g(t+dt)) for t in ts[:-1])
        elif solver=="implicit": inc=sum(dt*g(t+dt) for t in ts[:-1])
        elif solver=="crank-nicolson": inc=sum(dt/2*(g(t)+g(t+dt)) for t in ts[:-1])
        else: inc=sum(dt*(1.5*g(t)-0.5*g(t-dt)) for t in ts[:-1])
        if not np.allclose(r.data,s0.data+inc,rtol=1e-12): bad+=1; print("BAD stage",backend,solver,dt,t0,r.data-s0.data,inc)
print("bad",bad)
# adaptive
for backend in ["numpy","numba"]:
  for solver in ["euler","runge-kutta"]:
    for lam in [0.5,1.0,5.0]:
      for T in [0.3,1.0,2.7]:
        for tol in [1e-2,1e-3,1e-4,1e-6]:
          for dt0 in [1e-3,0.1,10.0]:
            eq=Lin(-lam); s0=ScalarField(grid,[1.0,-2.5])
            r,info=eq.solve(s0,(0.5,0.5+T),dt=dt0,solver=solver,backend=backend,tracker=None,ret_info=True,adaptive=True,tolerance=tol)
            steps=info["solver"]["steps"]; tf=info["controller"]["t_final"]
            err=np.abs(r.data-s0.data*math.exp(-lam*T)).max()
            if tf!=0.5+T or err>steps*tol: bad+=1; print("BAD adaptive",backend,solver,lam,T,tol,dt0,steps,tf,err,steps*tol)
print("bad",bad)
