import itertools, numpy as np, logging
from pde import *
from pde.grids.base import DomainError
logging.disable(logging.CRITICAL)
def grids():
    yield UnitGrid([1]); yield UnitGrid([4]); yield UnitGrid([4],periodic=True); yield CartesianGrid([[-1,2]],[3])
    yield UnitGrid([3,2]); yield CartesianGrid([[0,1],[-1,3]],[2,4],periodic=[True,False]); yield CartesianGrid([[0,1],[0,2],[0,3]],[2,2,3],periodic=[False,True,False])
    yield PolarSymGrid(2,4); yield PolarSymGrid((1,2),3); yield SphericalSymGrid(2,4); yield SphericalSymGrid((1,2),3)
    yield CylindricalSymGrid(2,(0,1),(3,2)); yield CylindricalSymGrid((1,2),(0,1),(2,3)); yield CylindricalSymGrid(2,(0,1),(3,2),periodic_z=True)
bad=0;n=0
for g in grids():
    rng=np.random.default_rng(0)
    f=ScalarField.random_uniform(g,rng=rng)
    # centres
    vals=f.interpolate(g.cell_coords)
    if not np.allclose(vals,f.data,rtol=1e-13): bad+=1; print("BAD centre",g)
    # affine field exact between centres
    coef=np.arange(1,g.num_axes+1)*0.7
    aff=ScalarField(g, 1.5+sum(coef[i]*g.cell_coords[...,i] for i in range(g.num_axes)))
    # points: per axis alphabet in cell coords
    alph=[]
    for ax in range(g.num_axes):
        N=g.shape[ax]
        a=[0.5, N-0.5, 0.0, N*1.0, 0.25, N-0.25, 1.0 if N>1 else 0.5, (N/2), 1.3 if N>1 else 0.6, -0.3, N+0.3, -1.7, N+2.2]
        alph.append(a)
    for cell in itertools.product(*alph):
        n+=1
        pt=g.transform(np.array(cell),"cell","grid")
        inside=all( (0<=c<=g.shape[ax]) or g.periodic[ax] for ax,c in enumerate(cell))
        try:
            v=f.interpolate(pt); va=aff.interpolate(pt); ok=True
        except DomainError: ok=False; v=None
        if ok!=inside:
            bad+=1; print("BAD membership",g,cell,ok,inside); continue
        if not ok:
            vf=f.interpolate(pt,fill=-7.5)
            if vf!=-7.5: bad+=1; print("BAD fill",g,cell,vf)
            continue
        if not (f.data.min()-1e-12<=v<=f.data.max()+1e-12): bad+=1; print("BAD range",g,cell,v)
        # affine exact if all coords within [0.5, N-0.5] for nonperiodic axes (and periodic: within too)
        if all(0.5<=c<=g.shape[ax]-0.5 for ax,c in enumerate(cell)):
            exact=1.5+sum(coef[i]*pt[i] for i in range(g.num_axes))
            if not np.isclose(va,exact,rtol=1e-12): bad+=1; print("BAD affine",g,cell,va,exact)
        # periodic shift invariance
        for ax in range(g.num_axes):
            if g.periodic[ax]:
                c2=list(cell); c2[ax]+=g.shape[ax]; v2=f.interpolate(g.transform(np.array(c2),"cell","grid"))
                if not np.isclose(v,v2,rtol=1e-12): bad+=1; print("BAD periodic",g,cell,v,v2)
    # with bc: Dirichlet value at boundary
    for ax in range(g.num_axes):
        if g.periodic[ax]: continue
        for up in [False,True]:
            bc={g.axes[a]:("periodic" if g.periodic[a] else {"value":2.5}) for a in range(g.num_axes)}
            cell=[s/2 for s in g.shape]
            cell[ax]= g.shape[ax] if up else 0.0
            # move slightly inside
            for eps in [1e-9]:
                c=list(cell); c[ax]+= -eps if up else eps
                pt=g.transform(np.array(c),"cell","grid")
                v=f.copy().interpolate(pt,bc=bc)
                if not np.isclose(v,2.5,atol=1e-6): bad+=1; print("BAD bc boundary value",g,ax,up,v)
    # insert conserves
    for cell in itertools.product(*[[0.5, a[4], a[2]+1e-6, a[3]-1e-6, a[7], a[8]] for a in alph]):
        pt=g.transform(np.array(cell),"cell","grid")
        h=ScalarField(g); 
        try:
            h.insert(pt,1.7)
        except Exception as e:
            bad+=1; print("BAD insert exc",g,cell,e); continue
        if not np.isclose(h.integral,1.7,rtol=1e-12): bad+=1; print("BAD insert",g,cell,h.integral)
        from pde.backends import get_backend
        ins=get_backend("numba").make_inserter(g)
        h2=ScalarField(g); ins(h2.data,pt,1.7)
        if not np.allclose(h.data,h2.data,rtol=1e-12,atol=1e-14): bad+=1; print("BAD inserter mismatch",g,cell,h.data,h2.data)
print("n",n,"bad",bad)
