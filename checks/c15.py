"""C15 - field objects share or isolate memory exactly as documented.

Breadth-first search over *all* operation histories (operations take their operands from the list
of live handles; every type-correct operand choice is enumerated) of real py-pde field objects on
one tiny grid per family, against a reference model that knows nothing about py-pde: every object
is ``(buffer id, first component, number of components)``.  See DESIGN.md, C15.

Clauses of the property statement encoded by the model (and nothing else):

* constructions, ``copy()``, slices of a collection, ``append``, arithmetic/unary results, operator
  results (without ``out=``), ``interpolate_to_grid`` and fields read back from a storage allocate a
  NEW buffer (never alias their source);
* component views ``v[i]``, ``t[i, j]`` share the parent's buffer (tensor components row-major);
* a collection and its member fields share one buffer, fields in order; with ``copy_fields=False``
  the member objects themselves are *moved* into the collection's new buffer (docstring of
  ``FieldCollection``: "the original fields are modified so their data points to the collection");
  only the member moves: a component view taken before keeps the parent's OLD buffer; an older
  collection that still lists the object no longer shares memory with it ("basically impossible to
  have fields that are linked to multiple collections"); identical fields => copies (docstring);
  dtypes are observed, not modelled (they only decide which operand choices are type-correct);
* ``fc[i]`` / ``fc["label"]`` return the member object (wherever it lives now), ``fc[i] = x``
  writes the valid cells of that member; operations with ``out=`` return ``out``;
* ``f.data`` is a live view of ``f._data_full``; binary operations write nothing; in-place
  operations write only valid cells of the target; operators additionally set the ghost cells of
  their *source* (documented: "boundary conditions applied to the field before applying the operator").
"""

from __future__ import annotations

import collections
import hashlib
import itertools

PROPERTY = "C15"
LEVEL = "model_checking"

GRIDS = ["UnitGrid", "CartesianGrid", "PolarSymGrid", "CylindricalSymGrid"]
MODEL_DIM = {"UnitGrid": 1, "CartesianGrid": 2, "PolarSymGrid": 2, "CylindricalSymGrid": 3}
RANK = {"S": 0, "V": 1, "T": 2}
KIND_OF_RANK = "SVT"
CLS = {"S": "ScalarField", "V": "VectorField", "T": "Tensor2Field", "C": "FieldCollection"}
BC = "auto_periodic_neumann"
TAG = "member of copying collection"

CTORS = ["S(arr)", "S(arr,ghost)", "V(arr)", "V(arr,ghost)", "T(arr)", "T(arr,ghost)"]
# operation alphabet, simplest first
OPS = CTORS + [
    "v[0]", "v[axis]", "t[0,d-1]", "t[axis,axis]",
    "FC([a])", "FC([a,b])", "FC([a,b],copy_fields=True)",
    "fc[0]", "fc[label]", "fc[0:1]", "fc.append(b)",
    "copy()", "copy(dtype=complex)",
    "a+b", "a-1.5", "a*b", "a/b", "a**2",
    "a+=b", "a-=1.5", "a*=b", "a/=2.0", "a**=2",
    "a.data=arr", "fc[0]=b", "fc[label]=b", "fc[duplabel]=b",
    "v[0]=b", "v[axis]=b", "v[0]=arr", "t[0,d-1]=b", "t[axis,axis]=b", "t[0,d-1]=2.5",
    "-a", "a.real", "a.conjugate()",
    "laplace(bc)", "gradient(bc)", "laplace(bc,out=b)", "gradient(bc,out=b)",
    "dot(b)", "dot(b,out=c)", "outer_product(b)", "outer_product(b,out=c)",
    "interpolate_to_grid", "storage[0]",
    # construction from live objects and further results that must be new buffers
    "Cls(grid,f)", "Cls(grid,f,dtype=complex)", "FC(fc)", "FC(fc,copy_fields=True)",
    "to_scalar()", "smooth()",
]
# rarer operations, explored in the thorough tier only
OPS_THOROUGH_ONLY = [
    "smooth(out=b)", "trace()", "transpose()", "transpose(inplace=True)", "symmetrize()",
    "symmetrize(inplace=True)", "project/slice",
]
FC_SETITEM = {"fc[0]=b": 0, "fc[label]=b": -1, "fc[duplabel]=b": 0}  # op -> addressed member
MODEL_AXES = {"UnitGrid": 1, "CartesianGrid": 2, "PolarSymGrid": 1, "CylindricalSymGrid": 2}
SLICEABLE = {"CartesianGrid", "CylindricalSymGrid"}  # project()/slice() are implemented for these only
# component assignments: op -> (kind of the target, which component, kind of the value)
COMP_ASSIGN = {
    "v[0]=b": ("V", "first", "field"), "v[axis]=b": ("V", "last", "field"), "v[0]=arr": ("V", "first", "array"),
    "t[0,d-1]=b": ("T", "first-last", "field"), "t[axis,axis]=b": ("T", "last-first", "field"),
    "t[0,d-1]=2.5": ("T", "first-last", "number"),
}


def comp_index(which, dim):
    """flat (row-major) index of the assigned component"""
    return {"first": 0, "last": dim - 1, "first-last": dim - 1, "last-first": (dim - 1) * dim}[which]


INPLACE = {"a+=b": "add", "a-=1.5": "subtract", "a*=b": "multiply", "a/=2.0": "true_divide", "a**=2": "power"}


# ----------------------------------------------------------------------------------------------
# reference model (knows nothing about py-pde)
# ----------------------------------------------------------------------------------------------


class MObj:
    """one field object: kind S/V/T/C, complex?, buffer id, first component, number of components"""

    def __init__(self, kind, cx, buf, off, n, prov, members=None, copying=False):
        self.kind, self.cx, self.buf, self.off, self.n = kind, cx, buf, off, n
        self.prov, self.members, self.copying = prov, members, copying

    def cells(self):
        return [(self.buf, self.off + k) for k in range(self.n)]

    def msig(self):
        return tuple(m.kind for m in self.members) if self.kind == "C" else self.kind


class Effect:
    def __init__(self, res=None, wv=(), wg=(), relink=False, outcome=""):
        self.res, self.wv, self.wg, self.relink, self.outcome = res, set(wv), set(wg), relink, outcome


class Model:
    def __init__(self, dim, sliceable=False):
        self.dim, self.nbuf, self.handles, self.sliceable = dim, 0, [], sliceable

    def newbuf(self):
        self.nbuf += 1
        return self.nbuf

    def ncomp(self, kind):
        return self.dim ** RANK[kind]

    def fresh(self, kind, cx, prov):
        return MObj(kind, cx, self.newbuf(), 0, self.ncomp(kind), prov)

    def collection(self, specs, prov, copying):
        """new collection with NEW hidden member objects (kind, cx) linked into a new buffer"""
        buf, off, members = self.newbuf(), 0, []
        cx = any(c for _, c in specs)
        what = f"{TAG} {prov}" if copying else f"member of collection {prov}"
        for kind, _ in specs:
            members.append(MObj(kind, cx, buf, off, self.ncomp(kind), what))
            off += self.ncomp(kind)
        return MObj("C", cx, buf, 0, off, prov, members, copying)

    def duplicate(self, o, prov, cx=None):
        """an independent copy of an object (collections: with linked hidden members)"""
        cx = o.cx if cx is None else cx
        if o.kind == "C":
            return self.collection([(m.kind, cx) for m in o.members], prov, False)
        return self.fresh(o.kind, cx, prov)

    # -- which operand tuples are type-correct ------------------------------------------------
    def choices(self, op):
        H = self.handles
        n = len(H)
        idx = range(n)
        fld = [i for i in idx if H[i].kind != "C"]
        col = [i for i in idx if H[i].kind == "C"]

        def same(a, b):
            return a.kind == b.kind and a.msig() == b.msig()

        if op in CTORS:
            return [()]
        if op in ("v[0]", "v[axis]"):
            return [(i,) for i in idx if H[i].kind == "V"]
        if op in ("t[0,d-1]", "t[axis,axis]"):
            return [(i,) for i in idx if H[i].kind == "T"]
        if op == "FC([a])":
            return [(i,) for i in fld]
        if op in ("FC([a,b])", "FC([a,b],copy_fields=True)"):
            return [(i, j) for i in fld for j in fld]
        if op in ("fc[0]", "fc[label]", "fc[0:1]"):
            return [(i,) for i in col]
        if op == "fc.append(b)":
            return [(i, j) for i in col for j in idx]
        if op in ("copy()", "copy(dtype=complex)", "a-1.5", "a**2", "a-=1.5", "a/=2.0", "a**=2", "a.data=arr",
                  "-a", "a.real", "a.conjugate()", "storage[0]"):
            return [(i,) for i in idx]
        if op in ("a+b", "a*b"):
            return [(i, j) for i in idx for j in idx
                    if H[i].kind == "S" or H[j].kind == "S" or same(H[i], H[j])]
        if op == "a/b":
            return [(i, j) for i in idx for j in idx if H[j].kind == "S"]
        if op in ("a+=b", "a*=b"):
            return [(i, j) for i in idx for j in idx
                    if (H[j].kind == "S" or same(H[i], H[j])) and (H[i].cx or not H[j].cx)]
        if op in FC_SETITEM:
            mi = FC_SETITEM[op]
            return [(i, j) for i in col for j in fld
                    if H[j].kind in ("S", H[i].members[mi].kind) and (H[i].members[mi].cx or not H[j].cx)]
        if op in COMP_ASSIGN:
            kind, _, val = COMP_ASSIGN[op]
            if val != "field":
                return [(i,) for i in idx if H[i].kind == kind]
            return [(i, j) for i in idx for j in idx
                    if H[i].kind == kind and H[j].kind == "S" and (H[i].cx or not H[j].cx)]
        if op == "laplace(bc)":
            return [(i,) for i in idx if H[i].kind == "S"]
        if op == "gradient(bc)":
            return [(i,) for i in idx if H[i].kind in "SV"]
        if op == "laplace(bc,out=b)":
            return [(i, j) for i in idx for j in idx
                    if H[i].kind == "S" and H[j].kind == "S" and (H[j].cx or not H[i].cx)]
        if op == "gradient(bc,out=b)":
            return [(i, j) for i in idx for j in idx
                    if H[i].kind in "SV" and H[j].kind == KIND_OF_RANK[RANK[H[i].kind] + 1]
                    and (H[j].cx or not H[i].cx)]
        if op == "dot(b)":
            return [(i, j) for i in idx for j in idx if H[i].kind == "V" and H[j].kind in "VT"]
        if op == "dot(b,out=c)":
            return [(i, j, k) for i in idx for j in idx for k in idx
                    if H[i].kind == "V" and H[j].kind in "VT"
                    and H[k].kind == ("S" if H[j].kind == "V" else "V")
                    and (H[k].cx or not (H[i].cx or H[j].cx))]
        if op == "outer_product(b)":  # the result is always allocated real (see assumptions)
            return [(i, j) for i in idx for j in idx
                    if H[i].kind == "V" and H[j].kind == "V" and not (H[i].cx or H[j].cx)]
        if op == "outer_product(b,out=c)":
            return [(i, j, k) for i in idx for j in idx for k in idx
                    if H[i].kind == "V" and H[j].kind == "V" and H[k].kind == "T"
                    and (H[k].cx or not (H[i].cx or H[j].cx))]
        if op in ("Cls(grid,f)", "Cls(grid,f,dtype=complex)", "to_scalar()"):
            return [(i,) for i in fld]
        if op in ("FC(fc)", "FC(fc,copy_fields=True)"):
            return [(i,) for i in col]
        if op == "smooth()":  # the result is always allocated real (see assumptions)
            return [(i,) for i in idx if not H[i].cx]
        if op == "smooth(out=b)":
            return [(i, j) for i in idx for j in idx if same(H[i], H[j]) and H[j].cx == H[i].cx]  # scipy does not mix
        if op in ("trace()", "transpose()", "transpose(inplace=True)", "symmetrize()", "symmetrize(inplace=True)"):
            return [(i,) for i in idx if H[i].kind == "T"]
        if op == "project/slice":
            return [(i,) for i in idx if H[i].kind == "S"] if self.sliceable else []
        if op == "interpolate_to_grid":  # not implemented for tensors
            return [(i,) for i in idx if all(k in "SV" for k in H[i].msig())]
        raise ValueError(op)

    # -- effect of one operation --------------------------------------------------------------
    def apply(self, op, args):
        H, dim = self.handles, self.dim
        o = [H[i] for i in args]
        a = o[0] if o else None
        b = o[1] if len(o) > 1 else None

        def new(obj, outcome="new buffer", **kw):
            return Effect(("new", obj), outcome=outcome, **kw)

        if op in CTORS:
            return new(self.fresh(op[0], False, op))
        if op == "v[0]":
            return new(MObj("S", a.cx, a.buf, a.off, 1, op), "view")
        if op == "v[axis]":
            return new(MObj("S", a.cx, a.buf, a.off + dim - 1, 1, op), "view")
        if op == "t[0,d-1]":
            return new(MObj("S", a.cx, a.buf, a.off + dim - 1, 1, op), "view")
        if op == "t[axis,axis]":
            return new(MObj("S", a.cx, a.buf, a.off + (dim - 1) * dim, 1, op), "view")
        if op in ("FC([a])", "FC([a,b])"):
            if len({id(x) for x in o}) != len(o):  # identical fields are copied (docstring)
                return new(self.collection([(x.kind, x.cx) for x in o], op + " with a is b", True), "copying collection")
            buf, off, cx = self.newbuf(), 0, any(x.cx for x in o)
            for x in o:  # the member - and only the member - moves
                x.buf, x.off, x.cx = buf, off, cx
                off += x.n
            return new(MObj("C", cx, buf, 0, off, op, list(o), False), "relink", relink=True)
        if op == "FC([a,b],copy_fields=True)":
            return new(self.collection([(x.kind, x.cx) for x in o], op, True), "copying collection")
        if op in ("fc[0]", "fc[label]"):
            m = a.members[0 if op == "fc[0]" else -1]
            if any(m is x for x in H):
                return Effect(("same", m), outcome="member (existing handle)")
            return Effect(("new", m), outcome="member (exposed)")
        if op == "fc[0:1]":
            m = a.members[0]
            return new(self.collection([(m.kind, m.cx)], op, True), "copying collection")
        if op == "fc.append(b)":
            src = a.members + (b.members if b.kind == "C" else [b])
            return new(self.collection([(m.kind, m.cx) for m in src], op, True), "copying collection")
        if op == "copy()":
            return new(self.duplicate(a, op))
        if op == "copy(dtype=complex)":
            return new(self.duplicate(a, op, True))
        if op in ("a+b", "a*b"):
            src = b if (a.kind == "S" and b.kind != "S") else a
            return new(self.duplicate(src, op, a.cx or b.cx))
        if op == "a/b":
            return new(self.duplicate(a, op, a.cx or b.cx))
        if op in ("a-1.5", "a**2", "-a", "a.conjugate()", "interpolate_to_grid", "storage[0]"):
            return new(self.duplicate(a, op))
        if op == "a.real":
            return new(self.duplicate(a, op, False))
        if op in INPLACE or op == "a.data=arr":
            return Effect(None, wv=a.cells(), outcome="write valid cells")
        if op in FC_SETITEM:
            m = a.members[FC_SETITEM[op]]
            return Effect(None, wv=m.cells(), outcome="write valid cells of member")
        if op in COMP_ASSIGN:  # only the valid cells of exactly that component
            return Effect(None, wv=[(a.buf, a.off + comp_index(COMP_ASSIGN[op][1], dim))],
                          outcome="write valid cells of one component")
        if op == "laplace(bc)":
            return new(self.fresh(a.kind, a.cx, op), wg=a.cells())
        if op == "gradient(bc)":
            return new(self.fresh(KIND_OF_RANK[RANK[a.kind] + 1], a.cx, op), wg=a.cells())
        if op in ("laplace(bc,out=b)", "gradient(bc,out=b)"):
            return Effect(("same", b), wv=b.cells(), wg=a.cells(), outcome="out")
        if op == "dot(b)":
            return new(self.fresh("S" if b.kind == "V" else "V", a.cx or b.cx, op))
        if op == "Cls(grid,f)":
            return new(self.duplicate(a, op))
        if op == "Cls(grid,f,dtype=complex)":
            return new(self.duplicate(a, op, True))
        if op == "FC(fc)":  # "support assigning a field collection": its member objects are re-linked
            mem = list(a.members)
            buf, off, cx = self.newbuf(), 0, any(x.cx for x in mem)
            for x in mem:
                x.buf, x.off, x.cx = buf, off, cx
                off += x.n
            return new(MObj("C", cx, buf, 0, off, op, mem, False), "relink", relink=True)
        if op == "FC(fc,copy_fields=True)":
            return new(self.collection([(m.kind, m.cx) for m in a.members], op, True), "copying collection")
        if op in ("to_scalar()", "trace()"):
            return new(self.fresh("S", a.cx, op))
        if op in ("smooth()", "transpose()", "symmetrize()"):
            return new(self.duplicate(a, op))
        if op == "smooth(out=b)":  # collections smooth member by member into the member objects of out
            tgt = [c for m in b.members for c in m.cells()] if b.kind == "C" else b.cells()
            return Effect(("same", b), wv=tgt, outcome="out")
        if op in ("transpose(inplace=True)", "symmetrize(inplace=True)"):
            return Effect(("same", a), wv=a.cells(), outcome="write valid cells")
        if op == "project/slice":
            return Effect(None, outcome="results on a sub-grid")
        if op == "outer_product(b)":
            return new(self.fresh("T", False, op))
        if op in ("dot(b,out=c)", "outer_product(b,out=c)"):
            return Effect(("same", o[2]), wv=o[2].cells(), outcome="out")
        raise ValueError(op)


# ----------------------------------------------------------------------------------------------
# real system
# ----------------------------------------------------------------------------------------------


def make_grid(name):
    import pde

    if name == "UnitGrid":
        return pde.UnitGrid([2])
    if name == "CartesianGrid":
        return pde.CartesianGrid([[0, 1], [0, 2]], [2, 2])
    if name == "PolarSymGrid":
        return pde.PolarSymGrid(2, 2)
    if name == "CylindricalSymGrid":
        return pde.CylindricalSymGrid(2, (0, 1), (2, 2))
    raise ValueError(name)


class World:
    """the live handles (real field objects) of one history"""

    def __init__(self, gridname, seed):
        import numpy as np

        self.np = np
        self.gridname = gridname
        self.grid = make_grid(gridname)
        self.grid2 = make_grid(gridname)  # equal but distinct grid: target of interpolate_to_grid
        self.dim = self.grid.dim
        self.full = tuple(s + 2 for s in self.grid.shape)
        self.vidx = (Ellipsis,) + (slice(1, -1),) * self.grid.num_axes
        probe = np.arange(int(np.prod(self.full))).reshape(self.full)
        assert np.array_equal(probe[self.grid._idx_valid], probe[self.vidx]) and self.grid._shape_full == self.full
        self.axes = list(self.grid.axes) + list(self.grid.axes_symmetric)
        self.table = np.random.default_rng(1000003 * seed + 15).uniform(1.0, 2.0, 1024)
        self.counter = 0
        self.h = []
        self.extra = []  # violations noticed inside an operation of the harness

    def vals(self, shape, salt, cx=False):
        np = self.np
        size = int(np.prod(shape)) if shape else 1
        idx = ((salt * 53 + 7) % 400 + np.arange(size)) % 512
        out = self.table[idx].reshape(shape)
        if cx:
            out = out + 1j * self.table[512 + idx].reshape(shape)
        return out

    def reseed(self):
        """deterministic contents (valid AND ghost cells) for every handle"""
        for i, x in enumerate(self.h):
            arr = x._data_full
            arr[...] = self.vals(arr.shape, i, arr.dtype.kind == "c")

    def apply(self, op, args):
        import pde

        np, g, dim = self.np, self.grid, self.dim
        o = [self.h[i] for i in args]
        a = o[0] if o else None
        b = o[1] if len(o) > 1 else None
        self.counter += 1
        if op in CTORS:
            cls = getattr(pde, CLS[op[0]])
            comp = (dim,) * RANK[op[0]]
            label = f"h{len(self.h)}"
            if op.endswith("ghost)"):
                return cls(g, self.vals(comp + self.full, 20 + self.counter), label=label, with_ghost_cells=True)
            return cls(g, self.vals(comp + tuple(g.shape), 20 + self.counter), label=label)
        if op == "v[0]":
            return a[0]
        if op == "v[axis]":
            return a[self.axes[-1]]
        if op == "t[0,d-1]":
            return a[0, dim - 1]
        if op == "t[axis,axis]":
            return a[self.axes[-1], self.axes[0]]
        if op in ("FC([a])", "FC([a,b])"):
            return pde.FieldCollection(list(o), copy_fields=False)
        if op == "FC([a,b],copy_fields=True)":
            return pde.FieldCollection(list(o), copy_fields=True)
        if op == "fc[0]":
            return a[0]
        if op == "fc[label]":
            a.labels = [f"m{k}" for k in range(len(a))]
            return a[f"m{len(a) - 1}"]
        if op == "fc[0:1]":
            return a[0:1]
        if op == "fc.append(b)":
            return a.append(b)
        if op == "copy()":
            return a.copy()
        if op == "copy(dtype=complex)":
            return a.copy(dtype=complex)
        if op == "a+b":
            return a + b
        if op == "a-1.5":
            return a - 1.5
        if op == "a*b":
            return a * b
        if op == "a/b":
            return a / b
        if op == "a**2":
            return a**2
        if op == "a+=b":
            return a.__iadd__(b)
        if op == "a-=1.5":
            return a.__isub__(1.5)
        if op == "a*=b":
            return a.__imul__(b)
        if op == "a/=2.0":
            return a.__itruediv__(2.0)
        if op == "a**=2":
            return a.__ipow__(2)
        if op == "a.data=arr":
            a.data = self.vals(a.data.shape, 90)
            return None
        if op == "fc[0]=b":
            a[0] = b
            return None
        if op == "fc[label]=b":
            a.labels = [f"m{k}" for k in range(len(a))]
            a[f"m{len(a) - 1}"] = b
            return None
        if op == "fc[duplabel]=b":  # several members carry the label: the first one is addressed (docstring)
            a.labels = ["m"] * len(a)
            a["m"] = b
            return None
        if op in COMP_ASSIGN:
            which, val = COMP_ASSIGN[op][1:]
            key = {"first": 0, "last": self.axes[-1], "first-last": (0, dim - 1),
                   "last-first": (self.axes[-1], self.axes[0])}[which]
            a[key] = b if val == "field" else (2.5 if val == "number" else self.vals(tuple(g.shape), 91))
            return None
        if op == "-a":
            return -a
        if op == "a.real":
            return a.real
        if op == "a.conjugate()":
            return a.conjugate()
        if op == "laplace(bc)":
            return a.laplace(BC)
        if op == "gradient(bc)":
            return a.gradient(BC)
        if op == "laplace(bc,out=b)":
            return a.laplace(BC, out=b)
        if op == "gradient(bc,out=b)":
            return a.gradient(BC, out=b)
        if op == "dot(b)":
            return a.dot(b)
        if op == "dot(b,out=c)":
            return a.dot(b, out=o[2])
        if op == "outer_product(b)":
            return a.outer_product(b)
        if op == "outer_product(b,out=c)":
            return a.outer_product(b, out=o[2])
        if op == "interpolate_to_grid":
            return a.interpolate_to_grid(self.grid2)
        if op == "Cls(grid,f)":
            return type(a)(g, a)
        if op == "Cls(grid,f,dtype=complex)":
            return type(a)(g, a, dtype=complex)
        if op == "FC(fc)":
            return pde.FieldCollection(a)
        if op == "FC(fc,copy_fields=True)":
            return pde.FieldCollection(a, copy_fields=True)
        if op == "to_scalar()":
            return a.to_scalar()
        if op == "smooth()":
            return a.smooth(0.7)
        if op == "smooth(out=b)":
            return a.smooth(0.7, out=b)
        if op == "trace()":
            return a.trace()
        if op == "transpose()":
            return a.transpose()
        if op == "transpose(inplace=True)":
            return a.transpose(inplace=True)
        if op == "symmetrize()":
            return a.symmetrize()
        if op == "symmetrize(inplace=True)":
            return a.symmetrize(inplace=True)
        if op == "project/slice":  # results live on a sub-grid: checked here, not kept as handles
            ax = self.grid.axes[0]
            for name, r in (("project()", a.project(ax)), ("slice()", a.slice({ax: "mid"}))):
                if any(np.shares_memory(r._data_full, x._data_full) for x in self.h):
                    self.extra.append(f"result of {name} aliases a live handle")
            return None
        if op == "storage[0]":
            st = pde.MemoryStorage()
            st.start_writing(a)
            st.append(a, 0.5)
            r, r2 = st[0], st[0]
            if np.shares_memory(r._data_full, r2._data_full):
                self.extra.append("two reads of one stored frame alias each other")
            if np.shares_memory(r._data_full, st.data[0]):
                self.extra.append("field read from a storage aliases the stored frame")
            if np.shares_memory(a._data_full, st.data[0]):
                self.extra.append("stored frame aliases the appended field")
            return r
        raise ValueError(op)

    # -- canonical observation of the real objects (used for merging) -------------------------
    def canon(self):
        np = self.np

        def mem(arr):
            r = arr
            while isinstance(r.base, np.ndarray):
                r = r.base
            ra = r.__array_interface__["data"][0]
            return ra, arr.__array_interface__["data"][0] - ra

        pos = {id(x): i for i, x in enumerate(self.h)}
        loc, roots, mems = [], [], []
        for x in self.h:
            arr = x._data_full
            root, off = mem(arr)
            ml, mr = [], []
            if hasattr(x, "fields"):
                for f in x.fields:
                    fr, fo = mem(f._data_full)
                    ml.append((type(f).__name__, f._data_full.dtype.kind, fo, fr == root, id(f) in pos))
                    mr.append((fr, pos.get(id(f), -1)))
            loc.append((type(x).__name__, arr.dtype.kind, arr.nbytes, off, tuple(ml)))
            roots.append(root)
            mems.append(mr)
        order0 = sorted(range(len(loc)), key=lambda i: loc[i])
        groups = [list(g) for _, g in itertools.groupby(order0, key=lambda i: loc[i])]
        best = None
        for perm in itertools.product(*[itertools.permutations(g) for g in groups]):
            order = [i for g in perm for i in g]
            newpos = {old: new for new, old in enumerate(order)}
            ren = {}
            enc = []
            for i in order:
                r = ren.setdefault(roots[i], len(ren))
                ms = tuple((ren.setdefault(fr, len(ren)), newpos[p] if p >= 0 else -1) for fr, p in mems[i])
                enc.append((loc[i], r, ms))
            enc = tuple(enc)
            if best is None or enc < best:
                best = enc
        return best


# ----------------------------------------------------------------------------------------------
# one step: execute on the real objects and on the model, compare every observable
# ----------------------------------------------------------------------------------------------


def _v(W, op, what, msg, **detail):
    return {"sig": f"{W.gridname}|{op}|{what}", "msg": f"{what}: {msg}", "detail": detail}


def _flat(W, arr):
    return arr.reshape((-1,) + W.full)


def _addr(arr):
    return arr.__array_interface__["data"][0]


def _member_linked(W, f, kind, cfull, off):
    """is the member `f` exactly the components off, off+1, ... of the collection array, its own
    components in row-major order?"""
    comp = (W.dim,) * RANK[kind]
    ff = f._data_full
    if type(f).__name__ != CLS[kind] or ff.shape != comp + W.full or ff.dtype != cfull.dtype:
        return False
    for flat, ix in enumerate(W.np.ndindex(*comp)):  # C order = row-major
        if _addr(ff[ix]) != _addr(cfull[off + flat]) or ff[ix].strides != cfull[off + flat].strides:
            return False
    return True


def step(W, M, op, args, check=True):
    """returns (violations, effect); the handle lists of W and M are updated"""
    np = W.np
    W.reseed()
    n0 = len(W.h)
    if check:
        before = [x._data_full.copy() for x in W.h]
        pre_cells = [m.cells() for m in M.handles]
    eff = M.apply(op, args)
    W.extra = []
    r = W.apply(op, args)
    viol = [_v(W, op, x, "") for x in W.extra]
    # ---- the returned object ----
    if eff.res is None:
        if op in INPLACE and r is not W.h[args[0]]:
            viol.append(_v(W, op, "in-place operator did not return its target", ""))
    elif eff.res[0] == "same":
        j = next(i for i, m in enumerate(M.handles) if m is eff.res[1])
        if r is not W.h[j]:
            viol.append(_v(W, op, "returned object is not the documented existing object",
                           f"expected handle {j} ({eff.res[1].prov})"))
            return viol, eff
    else:
        if any(r is x for x in W.h):
            viol.append(_v(W, op, "returned an existing handle but model says new object", eff.res[1].prov))
            return viol, eff
        W.h.append(r)
        M.handles.append(eff.res[1])
    # the dtype is an observed attribute (it only restricts which operand choices are type-correct)
    for x, m in zip(W.h, M.handles):
        m.cx = x._data_full.dtype.kind == "c"
        if m.kind == "C" and hasattr(x, "fields") and len(x.fields) == len(m.members):
            for f, mm in zip(x.fields, m.members):
                mm.cx = f._data_full.dtype.kind == "c"
    if not check:
        return viol, eff
    H, R = M.handles, W.h
    n = len(R)

    res_obj = eff.res[1] if eff.res else None

    def who(i):
        """role of a handle in the last operation + kind (the history is in the replay case)"""
        if H[i] is res_obj:
            r = "result"
        elif i in args:
            r = f"operand{args.index(i)}"
        else:
            r = "bystander"
        return f"{r}({H[i].kind})" + (f" [{TAG}]" if TAG in H[i].prov else "")

    def pair(i, j):
        return f"{who(i)}~{who(j)}"

    def provs(*idx):
        return "; ".join(f"handle {i} = {H[i].prov}" for i in idx)

    # ---- classes and dtypes ----
    for i in range(n):
        arr = R[i]._data_full
        if type(R[i]).__name__ != CLS[H[i].kind] or arr.dtype.kind not in "fc":
            viol.append(_v(W, op, f"class/dtype differs from model: {who(i)}",
                           f"{provs(i)}: real {type(R[i]).__name__}/{arr.dtype}, model {CLS[H[i].kind]}/complex={H[i].cx}"))
        elif arr.shape != ((W.dim,) * RANK[H[i].kind] if H[i].kind != "C" else (H[i].n,)) + W.full:
            viol.append(_v(W, op, f"shape differs from model: {who(i)}", f"{provs(i)}: {arr.shape}"))
    if viol:
        return viol, eff
    # ---- nothing but the documented cells was written ----
    for i in range(n0):
        bf, af = _flat(W, before[i]), _flat(W, R[i]._data_full)
        for k, cell in enumerate(pre_cells[i]):
            okv = cell in eff.wv or np.array_equal(bf[k][W.vidx], af[k][W.vidx])
            if cell in eff.wg:
                okg = True
            else:
                x, y = bf[k].copy(), af[k].copy()
                x[W.vidx] = 0
                y[W.vidx] = 0
                okg = np.array_equal(x, y)
            role = ("written " if cell in eff.wv else "") + who(i)
            if not okv:
                viol.append(_v(W, op, f"valid cells of {role} changed", f"{provs(i)}, component {k}"))
            if not okg:
                viol.append(_v(W, op, f"ghost cells of {role} changed", f"{provs(i)}, component {k}"))
    # ---- value written by in-place operations / assignments ----
    if eff.res is None and not viol:
        tv = before[args[0]][W.vidx]
        if op in INPLACE:
            other = before[args[1]][W.vidx] if len(args) > 1 else {"a-=1.5": 1.5, "a/=2.0": 2.0, "a**=2": 2}[op]
            exp = getattr(np, INPLACE[op])(tv, other)
            got = R[args[0]].data
        elif op == "a.data=arr":
            exp, got = W.vals(tv.shape, 90), R[args[0]].data
        else:
            exp, got = None, None
        if op in COMP_ASSIGN:
            which, val = COMP_ASSIGN[op][1:]
            got = R[args[0]].data.reshape((-1,) + tuple(W.grid.shape))[comp_index(which, W.dim)]
            exp = np.broadcast_to(before[args[1]][W.vidx] if val == "field" else
                                  (2.5 if val == "number" else W.vals(tuple(W.grid.shape), 91)), got.shape)
        if op in FC_SETITEM:  # through the collection (model: the member lives where the model says)
            m0 = H[args[0]].members[FC_SETITEM[op]]
            if m0.buf == H[args[0]].buf:
                got = R[args[0]].data[m0.off:m0.off + m0.n]
                src = before[args[1]][W.vidx].reshape((-1,) + tuple(W.grid.shape))
                exp = np.broadcast_to(src, got.shape)
        # (values: same numpy ufunc on the saved operands; 1e-12 covers numpy's scalar-power fast paths)
        if exp is not None and not np.allclose(np.asarray(got), exp, rtol=1e-12, atol=0.0):
            t = f" [{TAG}]" if TAG in H[args[0]].prov or (op in FC_SETITEM and H[args[0]].copying) else ""
            viol.append(_v(W, op, f"target does not hold the written values{t}", f"{got!r} != {exp!r}"))
    # ---- every pair of handles: np.shares_memory == model ----
    cellsets = [set(m.cells()) for m in H]
    for i in range(n):
        for j in range(i + 1, n):
            real = bool(np.shares_memory(R[i]._data_full, R[j]._data_full))
            mod = bool(cellsets[i] & cellsets[j])
            if real != mod:
                what = "handles alias but model says isolated" if real else "handles isolated but model says alias"
                viol.append(_v(W, op, f"{pair(i, j)}|{what}", provs(i, j)))
    # ---- data is a live view of _data_full ----
    for i in range(n):
        d, f = R[i].data, R[i]._data_full[W.vidx]
        di, fi = d.__array_interface__, f.__array_interface__
        if di["data"][0] != fi["data"][0] or d.shape != f.shape or d.strides != f.strides:
            viol.append(_v(W, op, f"data is not the view of the valid cells of _data_full: {who(i)}", provs(i)))
    # ---- collections: members in order, tensor components row-major ----
    for i in range(n):
        if H[i].kind != "C":
            continue
        flds = R[i].fields
        if len(flds) != len(H[i].members):
            viol.append(_v(W, op, f"number of members differs from model: {who(i)}", provs(i)))
            continue
        cfull = R[i]._data_full
        exp_off = 0
        for mi, (f, m) in enumerate(zip(flds, H[i].members)):
            linked_model = m.buf == H[i].buf and m.off == exp_off
            ok_addr = _member_linked(W, f, m.kind, cfull, exp_off)
            if linked_model and not ok_addr:
                what = (f"{TAG} is not linked to the collection array" if H[i].copying
                        else "member is not linked to the collection array (fields in order, components row-major)")
                viol.append(_v(W, op, f"{H[i].prov}|{what}", f"collection handle {i}, member {mi}"))
            elif not linked_model and ok_addr:
                viol.append(_v(W, op, f"{H[i].prov}|member is linked although model says it was moved away",
                               f"collection handle {i}, member {mi}"))
            exp_off += m.n
    if viol:
        return viol, eff
    # ---- write probes ----
    post = [x._data_full.copy() for x in R]
    for ai in range(n):
        d = R[ai].data
        na = H[ai].n
        sent = (1000.0 * (ai + 1) + 16.0 * np.arange(na)[:, None] + np.arange(d.size // na)[None, :]).reshape(d.shape)
        d[...] = sent
        sflat = sent.reshape((na,) + tuple(W.grid.shape))
        where = {cell: k for k, cell in enumerate(H[ai].cells())}
        for bi in range(n):
            bf, af = _flat(W, post[bi]), _flat(W, R[bi]._data_full)
            for k, cell in enumerate(H[bi].cells()):
                exp = bf[k].copy()
                if cell in where:
                    exp[W.vidx[1:]] = sflat[where[cell]]
                if af[k].dtype == exp.dtype and af[k].tobytes() == exp.tobytes():  # bitwise (ghost cells may be NaN)
                    continue
                if bi == ai:
                    viol.append(_v(W, op, f"write through data not seen in own _data_full: {who(ai)}", provs(ai)))
                elif cell in where:
                    viol.append(_v(W, op, f"{pair(ai, bi)}|write through first not seen through second "
                                   "(model: alias, fields in order, row-major)", f"{provs(ai, bi)}, component {k}"))
                else:
                    viol.append(_v(W, op, f"{pair(ai, bi)}|write through first changed second but model says isolated",
                                   f"{provs(ai, bi)}, component {k}"))
        for bi in range(n):
            R[bi]._data_full[...] = post[bi]
        if viol:
            break
    return viol, eff


def safe_step(W, M, op, args, check=True):
    """`step`, with exceptions of the real code turned into violations (no operand choice that the
    model offers is a documented refusal); the effect is then marked as re-linking so that the
    explorer rebuilds the objects"""
    from mc.core import CaseTimeout

    try:
        return step(W, M, op, args, check)
    except (CaseTimeout, KeyboardInterrupt):
        raise
    except Exception as exc:  # noqa: BLE001
        import traceback

        tb = traceback.extract_tb(exc.__traceback__)
        fr = next((f for f in reversed(tb) if "/pde/" in f.filename), tb[-1])
        where = f"{fr.filename.rsplit('/', 1)[-1]}:{fr.name}"
        v = _v(W, op, f"EXC|{type(exc).__name__}|{where}", str(exc)[:300], traceback=traceback.format_exc()[-2000:])
        return [v], Effect(relink=True)


# ----------------------------------------------------------------------------------------------
# histories
# ----------------------------------------------------------------------------------------------


def _replay(grid, seed, hist, check_all=False, check_last=False):
    W = World(grid, seed)
    M = Model(MODEL_DIM[grid], grid in SLICEABLE)
    assert W.dim == M.dim
    viol = []
    for i, (op, args) in enumerate(hist):
        last = i == len(hist) - 1
        v, _ = safe_step(W, M, op, tuple(args), check=check_all or (check_last and last))
        if v:
            for x in v:
                x["msg"] += f" after history {hist[: i + 1]}"
            viol += v
            break
    return W, M, viol


def _attach(viol, grid, seed, hist):
    for v in viol:
        v["case"] = {"grid": grid, "seed": seed, "history": hist}
        v["fn"] = "checks.c15:run_history"
    return viol


def run_history(case):
    """replay: re-execute exactly one history on fresh objects, checking after every operation"""
    hist = [[op, list(args)] for op, args in case["history"]]
    _, _, viol = _replay(case["grid"], case["seed"], hist, check_all=True)
    return {"v": _attach(viol, case["grid"], case["seed"], hist)}


def _key(k):
    return hashlib.sha1(repr(k).encode()).hexdigest()[:16]


def bfs(case):
    """BFS from one root (grid family, first operation) to the depth bound with state merging.

    Successors of a state are executed on ONE replayed instance: after an operation that does not
    re-link objects the result handle is dropped (contents are re-seeded before every operation);
    after a re-linking operation or a violation the history is replayed from scratch.  Two witnesses
    of every merged state are expanded and must have the same successors; every violation is
    confirmed by re-executing exactly its history on fresh objects."""
    grid, first, depth, seed = case["grid"], case["first"], case["depth"], case["seed"]
    ops = OPS + (OPS_THOROUGH_ONLY if case.get("all_ops") else [])
    root = [[first, []]]
    W, M, viol = _replay(grid, seed, root, check_last=True)
    executed = 1
    viols, seen = [], set()

    def report(vs, hist):
        for v in vs:
            if v["sig"] in seen:
                continue
            seen.add(v["sig"])
            again = run_history({"grid": grid, "seed": seed, "history": hist})["v"]
            hit = [x for x in again if x["sig"] == v["sig"]]
            if hit:
                viols.append(hit[0])
            else:
                v["sig"] += " (not reproduced from scratch)"
                viols.append(_attach([v], grid, seed, hist)[0])

    if viol:
        report(viol, root)
        return {"v": viols, "n": 1, "states": 1, "transitions": 1, "outs": ["violation"]}
    k0 = W.canon()
    states = {k0: [root]}
    succs = {}
    frontier = collections.deque([k0])
    transitions, merge_checks, max_depth = 1, 0, 1
    outs = collections.Counter()
    while frontier:
        key = frontier.popleft()
        wit = states[key]
        if len(wit[0]) >= depth:
            continue
        ref = None
        for wi, hist in enumerate(wit[:2]):
            W, M, _ = _replay(grid, seed, hist)
            executed += len(hist)
            n0 = len(W.h)
            succ = []
            for op in ops:
                for args in M.choices(op):
                    h2 = hist + [[op, list(args)]]
                    v, eff = safe_step(W, M, op, args)
                    executed += 1
                    if v:
                        if wi == 0:
                            transitions += 1
                            outs[f"{op}:violation"] += 1
                        report(v, h2)
                        W, M, _ = _replay(grid, seed, hist)
                        executed += len(hist)
                        continue
                    k = W.canon()
                    succ.append((op, k))
                    if wi == 0:
                        transitions += 1
                        outs[f"{op}:{eff.outcome}"] += 1
                        if k not in states:
                            states[k] = [h2]
                            frontier.append(k)
                            max_depth = max(max_depth, len(h2))
                        elif len(states[k]) < 2 and states[k][0] != h2:
                            states[k].append(h2)
                    if eff.relink:
                        W, M, _ = _replay(grid, seed, hist)
                        executed += len(hist)
                    else:
                        del W.h[n0:]
                        del M.handles[n0:]
            if wi == 0:
                ref = sorted(set(succ))
                succs[key] = [k for _, k in succ]
            else:
                merge_checks += 1
                if sorted(set(succ)) != ref:
                    viols.append(_attach([{
                        "sig": f"{grid}|explorer: merged states have different futures",
                        "msg": f"histories {wit[0]} and {hist} reach equal canonical states but diverge",
                        "detail": None}], grid, seed, hist)[0])
    # number of operation sequences represented by the merged graph
    cnt = {k0: 1}
    histories = 1
    for _ in range(1, depth):
        nxt = collections.Counter()
        for s, c in cnt.items():
            for t in succs.get(s, ()):
                nxt[t] += c
        cnt = nxt
        histories += sum(cnt.values())
    return {
        "v": viols,
        "n": executed,
        "states": len(states),
        "transitions": transitions,
        "traces": executed,
        "keys": [f"{grid}|{_key(k)}" for k in states],
        "outs": sorted(outs),
        "info": {"grid": grid, "first": first, "states": len(states), "transitions": transitions,
                 "merge_checks": merge_checks, "histories": histories, "max_depth": max_depth,
                 "outcomes": dict(outs)},
    }


def main(run):
    # DESIGN.md asks for depth 3 / 4; state merging makes 4 / 5 affordable
    depth = 4 if run.tier == "quick" else 5
    weight = {"T": 0, "V": 1, "S": 2}
    all_ops = run.tier != "quick"
    ops = OPS + (OPS_THOROUGH_ONLY if all_ops else [])
    cases = [{"grid": g, "first": op, "depth": depth, "seed": run.seed, "all_ops": all_ops}
             for g in reversed(GRIDS) for op in sorted(CTORS, key=lambda o: weight[o[0]])]
    res = run.explore("checks.c15:bfs", cases, mode="I", part="bfs", chunksize=1, limit=6000, collect=True)
    tot = collections.Counter()
    per_grid = collections.defaultdict(collections.Counter)
    outcomes = collections.Counter()
    for _, r in res:
        info = r.get("info")
        if not info:
            continue
        for f in ("states", "transitions", "merge_checks", "histories"):
            tot[f] += info[f]
            per_grid[info["grid"]][f] += info[f]
        outcomes.update(info["outcomes"])
    run.notes["depth_bound"] = depth
    run.notes["operation_alphabet"] = ops
    run.notes["operations_in_thorough_only"] = OPS_THOROUGH_ONLY
    run.notes["histories_represented"] = tot["histories"]
    run.notes["merged_states_validated"] = tot["merge_checks"]
    run.notes["per_grid"] = {k: dict(v) for k, v in per_grid.items()}
    run.notes["transition_outcomes"] = dict(outcomes)
    run.assumptions += [
        "NUMBA_DISABLE_JIT=1 (field/collection code is plain Python; operators run their kernels interpreted)",
        "state merging on a canonical observation of the REAL objects (class, dtype, root allocation, byte offset of "
        "every handle and of every member of every collection, up to renaming of allocations and permutation of "
        "handles); validated at run time: two witnesses of every merged state are expanded and must have the same "
        "successors",
        "successors of one state run on one replayed instance (result handle dropped, contents re-seeded before every "
        "operation; replay from scratch after re-linking operations); every violation is confirmed by re-executing "
        "exactly its history on fresh objects",
        "operand choices are restricted to type-correct ones (ranks, collection signatures, no complex operand "
        "written into a real target); outer_product without out= only for real operands because its result is "
        "always allocated real (complex operands raise TypeError - not a memory property)",
        "vector Laplace / tensor interpolation are not in the alphabet (not implemented on all families)",
        "smooth() without out= only for real fields because its result is always allocated real (complex fields "
        "raise RuntimeError - not a memory property); project()/slice() exist on Cartesian/cylindrical grids only and "
        "their results (sub-grid) are compared with every live handle inside the operation, not kept as handles",
        "FieldCollection(fc) re-links the member objects of fc (documented convenience: fields = fc.fields); a "
        "collection smooths member by member into the member objects of out",
        "operators set the ghost cells of their source (documented); everything else an operation does not "
        "document to write must stay bitwise unchanged, including ghost cells",
        "dtypes are observed, not modelled (a collection whose members were moved into a later collection builds "
        "copy()/-fc/storage results from the moved members, whose dtype may have been up-cast there; documented: "
        "fields cannot be linked to several collections at once)",
        "values written by in-place operations are compared with the same numpy ufunc applied to the saved operands "
        "(rtol 1e-12: numpy's scalar-power fast path differs from np.power in the last bits)",
        "VERIF_SEED only selects the generic contents written into the fields",
    ]
    return (
        f"BFS over all histories of the {len(ops)}-operation alphabet with all type-correct operand choices up to "
        f"depth {depth} from 4 grid families x 6 constructions; after every transition every pair of live handles "
        "(np.shares_memory), every write probe, the layout of every collection, the data view, the set of written "
        "cells and the class/dtype are compared with the buffer/region reference model; distinct = distinct canonical "
        "alias states of the real objects"
    )
