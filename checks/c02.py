"""C02 - boundary conditions hold exactly at the discrete boundary.

For every (grid, rank, axis, side, BC type/alias, value kind, specification format) the map
``valid cells -> ghost cells`` realised by py-pde is extracted *completely* (zero field, every unit
basis vector, one generic field; ghost cells pre-filled with sentinels) and compared entry-wise with
an independently written model of the defining identities.  See DESIGN.md, C02.
"""

from __future__ import annotations

import itertools

from checks._grids import MORE_GRIDS, SMALL_GRIDS, geometry, grid_name, make_grid, side_names

PROPERTY = "C02"
LEVEL = "exploration"

SENT = 777.25  # sentinel written into every ghost cell before conditions are imposed

BASES = ["value", "derivative", "mixed", "curvature"]
ALIASES = {
    "value": ["dirichlet"],
    "derivative": ["neumann"],
    "mixed": ["robin"],
    "curvature": ["second_derivative", "extrapolate"],
    "normal_value": ["normal_dirichlet", "dirichlet_normal"],
    "normal_derivative": ["normal_neumann", "neumann_normal"],
    "normal_mixed": ["normal_robin"],
    "normal_curvature": [],
    "value_expression": ["value_expr"],
    "derivative_expression": ["derivative_expr"],
    "mixed_expression": ["mixed_expr", "robin_expression", "robin_expr"],
}


# ----------------------------------------------------------------------------------------------
# independent model of the values v, d, gamma, beta, k on a face
# ----------------------------------------------------------------------------------------------


def coef(which, j, tau):
    base = {"v": 1.3, "b": 0.7}[which]
    return base + 0.31 * sum((k + 1) * jk for k, jk in enumerate(j)) + 0.17 * sum((m + 2) * tm for m, tm in enumerate(tau))


def expr_text(geo, axis, with_t, which):
    """expression of the boundary coordinates (and t); for 1-axis grids of the axis' own coordinate"""
    base = {"v": 1.3, "b": 0.7}[which]
    others = [a for i, a in enumerate(geo["axes"]) if i != axis] or [geo["axes"][axis]]
    terms = [repr(base)]
    for k, name in enumerate(others):
        terms.append(f"{0.5 + 0.25 * k}*{name}" if k % 2 == 0 else f"-0.25*{name}**2")
    if with_t:
        terms.append("0.5*t")
    return " + ".join(terms).replace("+ -", "- ")


def expr_value(geo, axis, upper, j, with_t, t, which):
    base = {"v": 1.3, "b": 0.7}[which]
    idx_other = [i for i in range(geo["num_axes"]) if i != axis]
    if idx_other:
        coords = [geo["centres"][i][jk] for i, jk in zip(idx_other, j)]
    else:
        coords = [geo["bounds"][axis][1 if upper else 0]]
    val = base
    for k, c in enumerate(coords):
        val += (0.5 + 0.25 * k) * c if k % 2 == 0 else -0.25 * c**2
    if with_t:
        val += 0.5 * t
    return val


def build_value(np, geo, axis, upper, tshape, vk, which, t):
    """returns (python value handed to py-pde, fn(j, tau) -> number) or None if the kind
    coincides with a simpler one on this face"""
    bshape = tuple(n for i, n in enumerate(geo["shape"]) if i != axis)
    if vk == "zero":
        return 0, lambda j, tau: 0.0
    if vk == "scalar":
        c = coef(which, (), ())
        return c, lambda j, tau: c
    if vk == "int":  # a python int (not a float)
        return 2, lambda j, tau: 2.0
    if vk == "face_int":  # integer-typed per-face array
        if not bshape:
            return None
        arr = np.empty(tshape + bshape, dtype=np.int64)
        for tau in np.ndindex(*tshape):
            for j in np.ndindex(*bshape):
                arr[tau + j] = 1 + sum((k + 1) * jk for k, jk in enumerate(j)) + sum(tau)
        return arr, lambda j, tau: float(1 + sum((k + 1) * jk for k, jk in enumerate(j)) + sum(tau))
    if vk == "tensor":
        if not tshape:
            return None
        arr = np.empty(tshape)
        for tau in np.ndindex(*tshape):
            arr[tau] = coef(which, (), tau)
        return arr, lambda j, tau: coef(which, (), tau)
    if vk == "tensor_face":
        if not bshape:
            return None
        arr = np.empty(tshape + bshape)
        for tau in np.ndindex(*tshape):
            for j in np.ndindex(*bshape):
                arr[tau + j] = coef(which, j, tau)
        return arr, lambda j, tau: coef(which, j, tau)
    if vk in ("expr", "expr_t"):
        if tshape:
            return None
        wt = vk == "expr_t"
        return expr_text(geo, axis, wt, which), lambda j, tau: expr_value(geo, axis, upper, j, wt, t, which)
    raise ValueError(vk)


# ----------------------------------------------------------------------------------------------
# independent model of the ghost cells
# ----------------------------------------------------------------------------------------------


def expected_full(np, geo, rank, full_in, sides):
    """sides: {(axis, upper): model} with model = dict(base=..., normal=bool, v=fn, b=fn) or
    {"base": "periodic", "sign": +-1} or {"base": "neumann0"}.  Works on a copy of full_in."""
    exp = full_in.copy()
    n = geo["num_axes"]
    dim = geo["dim"]
    tshape = (dim,) * rank
    for (axis, upper), m in sides.items():
        N = geo["shape"][axis]
        dx = geo["dx"][axis]
        others = [i for i in range(n) if i != axis]
        for j in itertools.product(*[range(geo["shape"][i]) for i in others]):
            def cell(k):  # index into the full array for position k along `axis` (full indexing)
                idx = [0] * n
                for i, jk in zip(others, j):
                    idx[i] = jk + 1
                idx[axis] = k
                return tuple(idx)

            g = cell(N + 1 if upper else 0)
            c1 = cell(N if upper else 1)
            c2 = cell(N - 1 if upper else 2)
            opp = cell(1 if upper else N)
            for tau in itertools.product(*[range(d) for d in tshape]):
                if m["base"] == "periodic":
                    exp[tau + g] = m["sign"] * full_in[tau + opp]
                    continue
                if m["base"] == "neumann0":
                    exp[tau + g] = full_in[tau + c1]
                    continue
                if m.get("normal"):
                    if tau[-1] != axis:
                        continue  # other components keep their sentinel
                    tv = tau[:-1]
                else:
                    tv = tau
                v = m["v"](j, tv)
                c = full_in[tau + c1]
                if m["base"] == "value":
                    exp[tau + g] = 2 * v - c
                elif m["base"] == "derivative":
                    exp[tau + g] = c + dx * v
                elif m["base"] == "mixed":
                    b = m["b"](j, tv)
                    exp[tau + g] = (2 * dx * b + (2 - v * dx) * c) / (2 + v * dx)
                elif m["base"] == "curvature":
                    exp[tau + g] = 2 * c - full_in[tau + c2] + dx**2 * v
                elif m["base"] == "virtual_point":
                    exp[tau + g] = v
                else:
                    raise ValueError(m["base"])
    return exp


def valid_index(geo, rank):
    return (slice(None),) * rank + (slice(1, -1),) * geo["num_axes"]


def inputs(np, geo, rank, seed):
    """zero field, every unit basis vector, one generic field (seeded)"""
    shape = (geo["dim"],) * rank + tuple(geo["shape"])
    size = 1
    for s in shape:
        size *= s
    yield "zero", np.zeros(shape)
    for k in range(size):
        e = np.zeros(size)
        e[k] = 1.0
        yield f"e{k}", e.reshape(shape)
    yield "generic", np.random.default_rng(seed).uniform(-1, 2, size=shape)


# ----------------------------------------------------------------------------------------------
# the worker: one (grid, rank, axis, side, type name, value kind, t) -> all formats, all inputs
# ----------------------------------------------------------------------------------------------


def _default_sides(geo, target):
    sides = {}
    for a in range(geo["num_axes"]):
        for up in (False, True):
            if (a, up) == target:
                continue
            if geo["periodic"][a]:
                sides[(a, up)] = {"base": "periodic", "sign": 1}
            else:
                sides[(a, up)] = {"base": "neumann0"}
    return sides


def _default_bc(geo):
    return {name: ("periodic" if per else "derivative") for name, per in zip(geo["axes"], geo["periodic"])}


def bc_case(case):
    import numpy as np
    from pde import ScalarField, Tensor2Field, VectorField
    from pde.backends import get_backend
    from pde.grids.boundaries.local import BCDataError

    spec, rank, axis, upper = case["grid"], case["rank"], case["axis"], case["upper"]
    tname, vk, bk, t, seed = case["type"], case["vk"], case.get("bk", "zero"), case.get("t", 0.0), case.get("seed", 0)
    geo = geometry(spec)
    grid = make_grid(spec)
    cls = [ScalarField, VectorField, Tensor2Field][rank]
    dim = geo["dim"]
    normal = tname.startswith("normal_") or tname.endswith("_normal")
    is_expr = "expr" in tname or tname == "virtual_point"
    base = None
    for b in BASES + ["virtual_point"]:
        if b in tname or any(tname == al for al in ALIASES.get(b, []) + ALIASES.get("normal_" + b, []) + ALIASES.get(b + "_expression", [])):
            base = b
    if base is None:
        raise ValueError(tname)
    tshape = (dim,) * (rank - 1 if normal else rank)
    sig0 = f"{spec[0]}{geo['num_axes']}d|rank{rank}|{tname}|{vk}"

    built = build_value(np, geo, axis, upper, tshape, vk, "v", t)
    if built is None:
        return {"nt": False, "out": "coincides with a simpler value kind"}
    V, vfn = built
    model = {"base": base, "normal": normal, "v": vfn}
    spec_bc = {"type": tname, "value": V}
    if base == "mixed":
        bb = build_value(np, geo, axis, upper, tshape, bk, "b", t)
        if bb is None:
            return {"nt": False, "out": "coincides with a simpler value kind"}
        B, bfn = bb
        model["b"] = bfn
        spec_bc["const"] = B
    side_key = geo["axes"][axis] + ("+" if upper else "-")
    bc = dict(_default_bc(geo))
    # axis-wide default for the other side of the target axis
    bc[side_key] = spec_bc
    sides = _default_sides(geo, (axis, upper))
    sides[(axis, upper)] = model
    args = {"t": t} if vk == "expr_t" or (base == "mixed" and bk == "expr_t") else None

    viol = []
    refusal = None
    n = 0
    vidx = valid_index(geo, rank)
    nbk = get_backend("numba")

    prebuilt = {}

    def impose(route, bc_data, u):
        f = cls(grid)
        f._data_full[...] = SENT
        f._data_full[vidx] = u
        if route == "field":  # parses the specification on every call
            f.set_ghost_cells(bc_data, args=args) if args else f.set_ghost_cells(bc_data)
        elif route == "bcs":
            if "bcs" not in prebuilt:
                prebuilt["bcs"] = grid.get_boundary_conditions(bc_data, rank=rank)
            prebuilt["bcs"].set_ghost_cells(f._data_full, args=args)
        else:  # the (here interpreted) source of the compiled setter
            if "setter" not in prebuilt:
                prebuilt["setter"] = nbk.make_ghost_cell_setter(grid.get_boundary_conditions(bc_data, rank=rank))
            setter = prebuilt["setter"]
            setter(f._data_full, args=args) if args else setter(f._data_full)
        return f

    try:
        grid.get_boundary_conditions(bc, rank=rank)
    except (NotImplementedError, ValueError, BCDataError, RuntimeError) as e:
        return {"nt": False, "ref": f"{type(e).__name__}: rank{rank} {tname} {vk}/{bk}", "out": "refused at construction"}

    one_cell_curv = base == "curvature" and geo["shape"][axis] < 2
    mixed_kinds_differ = base == "mixed" and bk != vk and ("tensor_face" in (vk, bk) or "face_int" in (vk, bk)) and len(tshape) > 0
    for route in ("field", "bcs", "setter"):
        for label, u in inputs(np, geo, rank, seed):
            if route == "field" and label not in ("zero", "generic"):
                continue  # same code path as "bcs" after parsing; the basis is enumerated there
            try:
                f = impose(route, bc, u)
            except NotImplementedError as e:
                refusal = f"NotImplementedError while imposing: {tname}"
                break
            except RuntimeError as e:
                if one_cell_curv and "support points" in str(e):
                    refusal = "curvature condition on a one-cell axis (RuntimeError: needs two support points)"
                    break
                raise
            except ValueError as e:
                if mixed_kinds_differ and "broadcast" in str(e):
                    refusal = "Robin condition with per-face tensor gamma and differently shaped beta (ValueError: broadcast)"
                    break
                raise
            n += 1
            full_in = np.full_like(f._data_full, SENT)
            full_in[vidx] = u
            if one_cell_curv:
                refusal = "curvature condition on a one-cell axis accepted silently (no oracle)"
                break
            exp = expected_full(np, geo, rank, full_in, sides)
            got = f._data_full
            scale = 1.0 + float(np.max(np.abs(exp[exp != SENT]))) if np.any(exp != SENT) else 1.0
            diff = np.abs(got - exp)
            if not np.all(diff <= 1e-12 * scale):
                pos = tuple(int(i) for i in np.unravel_index(int(np.argmax(diff)), diff.shape))
                where = "valid cell" if all(1 <= p <= s for p, s in zip(pos[rank:], geo["shape"])) else "ghost cell"
                untouched = exp[pos] == SENT
                viol.append(
                    {
                        "sig": f"{sig0}|{route}|"
                        + ("a cell that must stay untouched was written" if untouched or where == "valid cell"
                           else "ghost cell violates the condition"),
                        "msg": f"{grid_name(spec)} rank={rank} side={side_key} {tname} value={vk}/{bk} t={t} input={label} "
                        f"route={route}: at {pos} got {got[pos]!r} expected {exp[pos]!r}",
                        "detail": {"pos": pos, "got": float(got[pos]), "exp": float(exp[pos])},
                    }
                )
                break
            if route == "field" and label == "generic":
                # get_boundary_values returns the face average of ghost and adjacent cell
                f2 = cls(grid)
                f2._data_full[...] = SENT
                f2._data_full[vidx] = u
                if args is None:
                    bv = f2.get_boundary_values(axis, upper, bc=bc)
                    sl = [slice(1, -1)] * geo["num_axes"]
                    slg = list(sl)
                    sl[axis] = -2 if upper else 1
                    slg[axis] = -1 if upper else 0
                    e = (exp[(...,) + tuple(sl)] + exp[(...,) + tuple(slg)]) / 2
                    ok = np.all(np.abs(bv - e) <= 1e-12 * scale) if bv.shape == e.shape else False
                    if not ok:
                        viol.append({"sig": f"{sig0}|get_boundary_values differs from (ghost+cell)/2",
                                     "msg": f"{grid_name(spec)} side={side_key} {tname}", "detail": None})
        if refusal:
            break
    if refusal:
        return {"nt": False, "ref": refusal, "out": "refused", "n": n}
    return {"v": viol[:3], "n": n, "out": f"{base}{'-normal' if normal else ''}",
            "key": f"{grid_name(spec)}|{rank}|{side_key}|{tname}|{vk}|{bk}|{t}"}


# ----------------------------------------------------------------------------------------------
# periodic / anti-periodic and specification formats (differential oracle + identities)
# ----------------------------------------------------------------------------------------------


def format_case(case):
    """all accepted ways of writing the same condition on one side give the identical ghost cells"""
    import warnings

    import numpy as np
    from pde import ScalarField, Tensor2Field, VectorField
    from pde.grids.boundaries.local import BCBase, BCDataError

    spec, rank, axis, upper, tname = case["grid"], case["rank"], case["axis"], case["upper"], case["type"]
    seed = case.get("seed", 0)
    geo = geometry(spec)
    grid = make_grid(spec)
    cls = [ScalarField, VectorField, Tensor2Field][rank]
    vidx = valid_index(geo, rank)
    ax = geo["axes"][axis]
    pm = "+" if upper else "-"
    c = coef("v", (), ())
    base = [b for b in BASES if b in tname][0] if not tname.endswith("periodic") else "periodic"
    u = np.random.default_rng(seed + 1).uniform(-1, 2, size=(geo["dim"],) * rank + tuple(geo["shape"]))
    full_in = np.full((geo["dim"],) * rank + tuple(s + 2 for s in geo["shape"]), SENT)
    full_in[vidx] = u
    viol, n, outs, refs = [], 0, [], []

    def run(bc_data):
        f = cls(grid)
        f._data_full[...] = SENT
        f._data_full[vidx] = u
        with warnings.catch_warnings():
            warnings.simplefilter("ignore")
            f.set_ghost_cells(bc_data)
        return f._data_full

    def check(label, bc_data, sides):
        nonlocal n
        try:
            got = run(bc_data)
        except (BCDataError, NotImplementedError) as e:
            refs.append(f"{type(e).__name__}: format {label}")
            return
        n += 1
        exp = expected_full(np, geo, rank, full_in, sides)
        if not np.all(np.abs(got - exp) <= 1e-12 * (1 + abs(c) + 2)):
            pos = tuple(int(i) for i in np.unravel_index(int(np.argmax(np.abs(got - exp))), got.shape))
            viol.append(
                {
                    "sig": f"{spec[0]}{geo['num_axes']}d|rank{rank}|{tname}|format {label}|ghost cells differ from the condition",
                    "msg": f"{grid_name(spec)} rank={rank} side={ax}{pm} {tname} format={label} bc={bc_data!r}: at {pos} "
                    f"got {got[pos]!r} expected {exp[pos]!r}",
                    "detail": None,
                }
            )
        outs.append(label)

    dflt = _default_bc(geo)
    if base == "periodic":
        sign = -1 if tname == "anti-periodic" else 1
        sides = _default_sides(geo, None)
        sides[(axis, False)] = {"base": "periodic", "sign": sign}
        sides[(axis, True)] = {"base": "periodic", "sign": sign}
        bc = dict(dflt)
        bc[ax] = tname
        check("axis name", bc, sides)
        bc = dict(dflt)
        bc[ax] = {"type": tname}
        check("axis dict", bc, sides)
        if tname == "periodic":
            for auto in ("auto_periodic_neumann", "auto_periodic_derivative"):
                check(auto, auto, _default_sides(geo, None))
            bc = {"*": "auto_periodic_neumann"}
            check("wildcard auto_periodic", bc, _default_sides(geo, None))
        return {"v": viol[:3], "n": n, "outs": outs, "ref": refs,
                "keys": [f"{grid_name(spec)}|{rank}|{ax}|{tname}|{o}" for o in outs], "nt": bool(outs)}

    normal = tname.startswith("normal_")
    model = {"base": base, "normal": normal, "v": lambda j, tau: c, "b": lambda j, tau: 0.0}
    model0 = {"base": base, "normal": normal, "v": lambda j, tau: 0.0, "b": lambda j, tau: 0.0}
    tgt = (axis, upper)
    other = (axis, not upper)
    S = _default_sides(geo, tgt)
    S1 = dict(S)
    S1[tgt] = model
    S0 = dict(S)
    S0[tgt] = model0
    both1 = dict(S1)
    both1[other] = model
    both0 = dict(S0)
    both0[other] = model0
    if base == "curvature" and geo["shape"][axis] < 2:
        return {"nt": False, "ref": "curvature condition on a one-cell axis", "out": "refused"}

    full = {"type": tname, "value": c}
    check("side key, type/value dict", {**dflt, ax + pm: full}, S1)
    check("side key, {name: value}", {**dflt, ax + pm: {tname: c}}, S1)
    check("side key, bare string", {**dflt, ax + pm: tname}, S0)
    check("axis key (both sides)", {**dflt, ax: full}, both1)
    check("wildcard with override", {"*": dflt[ax] if False else "derivative", **{k: v for k, v in dflt.items() if v == "periodic"}, ax + pm: full}, S1)
    for name, (a, up) in side_names(geo).items():
        if (a, up) == tgt:
            check(f"named side", {**dflt, name: full}, S1)
    alt = {"r": "radius", "φ": "phi"}.get(ax)
    if alt and spec[0] in ("polar", "sph"):
        check("alias axis name", {**{k: v for k, v in dflt.items() if k != ax}, alt: "derivative", alt + pm: full}, S1)
    # a BCBase instance and a BoundariesList instance
    inst = BCBase.from_data(grid, axis, upper, full, rank=rank)
    check("BCBase instance", {**dflt, ax + pm: inst}, S1)
    bl = grid.get_boundary_conditions({**dflt, ax + pm: full}, rank=rank)
    check("BoundariesList instance", bl, S1)
    # legacy formats (deprecated but accepted)
    lowhigh = {"low": "derivative", "high": "derivative"}
    lowhigh["high" if upper else "low"] = full
    legacy = [("periodic" if per else "derivative") for per in geo["periodic"]]
    legacy[axis] = lowhigh
    if geo["num_axes"] > 1:
        check("legacy list of axes with low/high dict", legacy, S1)
        pair = ["derivative", "derivative"]
        pair[1 if upper else 0] = full
        legacy2 = list(legacy)
        legacy2[axis] = pair
        check("legacy list of [low, high] lists", legacy2, S1)
    else:
        check("legacy low/high dict", lowhigh, S1)
        pair = ["derivative", "derivative"]
        pair[1 if upper else 0] = full
        check("legacy [low, high] list", pair, S1)
    # whole-grid forms need a grid without periodic axes
    if not any(geo["periodic"]):
        allsides1 = {(a, up): model for a in range(geo["num_axes"]) for up in (False, True)}
        allsides0 = {(a, up): model0 for a in range(geo["num_axes"]) for up in (False, True)}
        if not (base == "curvature" and min(geo["shape"]) < 2):
            check("single dict for all sides", full, allsides1)
            check("single {name: value} for all sides", {tname: c}, allsides1)
            check("single string for all sides", tname, allsides0)
            check("wildcard only", {"*": full}, allsides1)
    return {"v": viol[:3], "n": n, "outs": outs, "ref": refs,
            "keys": [f"{grid_name(spec)}|{rank}|{ax}{pm}|{tname}|{o}" for o in outs], "nt": bool(outs)}


# ----------------------------------------------------------------------------------------------


def type_names(rank):
    names = []
    if rank == 0:
        names += [(b, vk, bk) for b in BASES for vk in ("zero", "scalar", "int", "face_int", "tensor_face", "expr") for bk in _bks(b, vk)]
        for b in ("value_expression", "derivative_expression", "mixed_expression", "virtual_point"):
            for vk in ("zero", "scalar", "expr", "expr_t"):
                for bk in (("zero", "scalar", "expr_t") if b == "mixed_expression" else ("zero",)):
                    names.append((b, vk, bk))
    else:
        for b in BASES:
            for vk in ("zero", "scalar", "int", "tensor", "tensor_face", "face_int"):
                for bk in _bks(b, vk):
                    names.append((b, vk, bk))
            for vk in ("zero", "scalar", "tensor", "tensor_face", "expr"):
                for bk in _bks(b, vk):
                    names.append(("normal_" + b, vk, bk))
    # aliases: one inhomogeneous value kind each
    for canon, als in ALIASES.items():
        if (rank == 0) == (canon.startswith("normal_")):
            continue
        if rank > 0 and "expression" in canon:
            continue
        for al in als:
            names.append((al, "scalar", "scalar" if "mixed" in canon else "zero"))
    return names


def _bks(base, vk):
    if base != "mixed":
        return ("zero",)
    return ("zero", "scalar") if vk in ("zero", "scalar") else ("zero", "scalar", vk)


def main(run):
    grids = SMALL_GRIDS + (MORE_GRIDS if run.tier == "thorough" else [])
    cases, fcases = [], []
    for spec in grids:
        geo = geometry(spec)
        for rank in (0, 1, 2):
            for axis in range(geo["num_axes"]):
                if geo["periodic"][axis]:
                    for tname in ("periodic", "anti-periodic"):
                        fcases.append({"grid": spec, "rank": rank, "axis": axis, "upper": False, "type": tname, "seed": run.seed})
                    continue
                for upper in (False, True):
                    for tname, vk, bk in type_names(rank):
                        ts = (0.0, 1.3) if "expr_t" in (vk, bk) else (0.0,)
                        for t in ts:
                            cases.append({"grid": spec, "rank": rank, "axis": axis, "upper": upper, "type": tname,
                                          "vk": vk, "bk": bk, "t": t, "seed": run.seed})
                    for b in BASES:
                        fcases.append({"grid": spec, "rank": rank, "axis": axis, "upper": upper, "type": b, "seed": run.seed})
                        if rank > 0:
                            fcases.append({"grid": spec, "rank": rank, "axis": axis, "upper": upper,
                                           "type": "normal_" + b, "seed": run.seed})
    run.explore("checks.c02:bc_case", cases, mode="I", part="identities (all inputs, 3 routes)")
    run.explore("checks.c02:format_case", fcases, mode="I", part="specification formats")
    run.assumptions += [
        "ghost cells are pre-filled with the sentinel 777.25; 'untouched' means still equal to it",
        "the compiled ghost-cell setter is exercised here through its Python source (mode I); its JIT build is covered by C03",
        "values: exact small rationals derived from face/tensor indices; expressions evaluated by an independent evaluator",
        "tolerance 1e-12 relative to the largest expected ghost value (a handful of flops per ghost cell)",
    ]
    return (
        "all (grid, rank 0-2, non-periodic axis, side, BC type incl. aliases/normal/expression variants, value kind "
        "(0, scalar, tensor, tensor x per-face array, coordinate expression, coordinate+time expression), Robin constant kind) "
        "x 3 routes (field.set_ghost_cells, BoundariesList.set_ghost_cells, source of the compiled setter) x (zero field, "
        "every unit basis vector, generic field): complete padded array compared with the model; plus all specification "
        "formats per (grid, rank, side, type) and periodic/anti-periodic axes; distinct = distinct accepted configurations"
    )
