"""C17 - splitting a grid into sub-grids changes nothing.

Every (grid, decomposition) of an explicitly enumerated bounded space is executed on the real code
(``GridMesh.from_grid`` and the serial ``extract_*``/``combine_*``/``get_neighbor`` methods):

* part "structure": the sub-grids tile the base grid (bounds, shapes, volumes, coordinates, periodic
  flags), splitting/combining field data is the identity (with and without ghost cells, all field
  classes, collections), ``get_neighbor`` agrees with the geometric adjacency of the sub-grids;
* part "operators": every registered operator (all option variants) applied per sub-grid on
  ``extract_field_data(full, node, with_ghost_cells=True)`` and combined equals the operator applied on
  the whole grid - as an identity of linear maps on the whole padded array (zero + every unit vector,
  ghost and corner cells included) and end-to-end for every boundary-condition class (zero field, every
  unit vector of the valid cells, generic fields; ``gradient_squared`` on a determining set of a
  quadratic polynomial); boundary conditions transferred to the sub-grids
  (``mesh.extract_boundary_conditions`` / ``bc.to_subgrid``) produce the ghost cells of the global
  condition on the outer faces;
* part "mpi exchange" (thorough only): the ``_MPIBC`` send/receive bookkeeping of *all* nodes of a mesh
  is executed in one process with ``pde.tools.mpi`` replaced by a mailbox, under every interleaving of
  the nodes' communication actions (explicit-state search over the vector of program counters).

See DESIGN.md, C17.
"""

from __future__ import annotations

import itertools

import numpy as np

from checks._grids import geometry, grid_name, make_grid

PROPERTY = "C17"
LEVEL = "exploration"

FN_S = "checks.c17:structure_case"
FN_O = "checks.c17:operator_case"
FN_M = "checks.c17:mpi_case"

SENT = 777.25  # sentinel for ghost cells that a boundary condition has to overwrite
TOL_OP = 1e-11  # operator equivalence, relative to 1 + max|R|
TOL_BC = 1e-12  # ghost cells of transferred BCs, relative to 1 + max|ghost|
CLASS_NAMES = {"unit": "UnitGrid", "cart": "CartesianGrid", "polar": "PolarSymGrid",
               "sph": "SphericalSymGrid", "cyl": "CylindricalSymGrid"}


# ----------------------------------------------------------------------------------------------
# building the mesh; refusals; the known family D4
# ----------------------------------------------------------------------------------------------


def tag_of(spec, geo):
    per = "".join("P" if p else "n" for p in geo["periodic"])
    return f"{CLASS_NAMES[spec[0]]}{geo['num_axes']}d[{per}]"


def features(geo, sizes):
    """outcome class of a decomposition (so that vacuous runs are visible in the evidence)"""
    f = []
    if all(len(s) == 1 for s in sizes):
        return "single node"
    if any(len(set(s)) > 1 for s in sizes):
        f.append("uneven chunks")
    if any(len(s) > 1 and min(s) == 1 for s in sizes):
        f.append("1-cell chunks")
    if any(len(s) > 1 and p for s, p in zip(sizes, geo["periodic"])):
        f.append("periodic axis split")
    if sum(len(s) > 1 for s in sizes) > 1:
        f.append("several axes split")
    return "+".join(f) if f else "even chunks"


def build(case):
    """-> (grid, geo, mesh, early): `early` is the finished result if py-pde refused or D4 struck"""
    from pde.grids._mesh import GridMesh

    spec = case["grid"]
    decomp = [int(c) for c in case["decomp"]]
    geo = geometry(spec)
    grid = make_grid(spec)
    kind = spec[0]
    hole = kind == "cyl" and geo["bounds"][0][0] > 0
    try:
        mesh = GridMesh.from_grid(grid, list(decomp))
    except NotImplementedError as e:
        if kind == "cyl" and "hollow core" in str(e) and (decomp[0] > 1 or hole):
            why = "annular cylinder split" if hole else "cylinder split radially"
            return grid, geo, None, {"nt": False, "ref": f"{why} (from_bounds: NotImplementedError)", "out": "refused"}
        raise
    except RuntimeError as e:
        if "more chunks than support points" in str(e) and any(c > n for c, n in zip(decomp, geo["shape"])):
            return grid, geo, None, {"nt": False, "ref": "more chunks than cells (RuntimeError)", "out": "refused"}
        raise
    if hole:
        r0 = geo["bounds"][0][0]
        bad = [i for i in range(len(mesh)) if float(mesh[i].axes_bounds[0][0]) != r0]
        if bad:
            how = "unsplit" if len(mesh) == 1 else "split along z"
            v = {
                "sig": f"CylindricalSymGrid|hole|mesh loses inner radius|{how}",
                "msg": f"GridMesh.from_grid({grid_name(spec)}, {decomp}): sub-grid {bad[0]} has radial bounds "
                f"{tuple(float(b) for b in mesh[bad[0]].axes_bounds[0])}, base grid {tuple(geo['bounds'][0])}",
                "detail": {"subgrid_bounds": [[list(map(float, b)) for b in mesh[i].axes_bounds] for i in bad[:3]]},
                "case": {"grid": spec, "decomp": decomp},
                "fn": FN_S,
            }
            return grid, geo, mesh, {"v": [v], "nt": True, "out": "annular cylinder lost its hole", "n": 1}
    return grid, geo, mesh, None


class Model:
    """Position of every node in the mesh, derived from the *geometry of the sub-grids* only (not from
    the index arithmetic of GridMesh): chunk p along an axis is the p-th distinct lower bound."""

    def __init__(self, mesh, geo, decomp):
        d = geo["num_axes"]
        self.d, self.n = d, len(mesh)
        self.subs = [mesh[i] for i in range(self.n)]
        lows = [sorted({float(sg.axes_bounds[ax][0]) for sg in self.subs}) for ax in range(d)]
        self.pos = [tuple(lows[ax].index(float(sg.axes_bounds[ax][0])) for ax in range(d)) for sg in self.subs]
        self.ok = (
            self.n == int(np.prod(decomp))
            and tuple(mesh.shape) == tuple(decomp)
            and [len(lo) for lo in lows] == list(decomp)
            and len(set(self.pos)) == self.n
        )
        self.decomp = list(decomp)
        self.periodic = list(geo["periodic"])
        if not self.ok:
            return
        self.id_of = {p: i for i, p in enumerate(self.pos)}
        # chunk sizes per axis (from the first sub-grid of each slab; consistency is checked in tiling)
        self.sizes = []
        for ax in range(d):
            row = []
            for p in range(decomp[ax]):
                sg = next(s for s, q in zip(self.subs, self.pos) if q[ax] == p)
                row.append(int(sg.shape[ax]))
            self.sizes.append(row)
        self.offs = [[sum(r[:p]) for p in range(len(r))] for r in self.sizes]

    def slices(self, node, ghost):
        g = 2 if ghost else 0
        return tuple(
            slice(self.offs[ax][p], self.offs[ax][p] + self.sizes[ax][p] + g) for ax, p in enumerate(self.pos[node])
        )

    def neighbor(self, node, ax, upper):
        c = self.decomp[ax]
        if c == 1:
            return None  # the sub-grid spans the axis (and keeps its periodicity itself)
        p = list(self.pos[node])
        p[ax] += 1 if upper else -1
        if not 0 <= p[ax] < c:
            if not self.periodic[ax]:
                return None
            p[ax] %= c
        return self.id_of[tuple(p)]


def _viol(viol, tag, aspect, what, msg, case, fn, detail=None, only=None):
    c = {"grid": case["grid"], "decomp": [int(x) for x in case["decomp"]], "seed": case.get("seed", 0)}
    if only:
        c["only"] = only
    viol.append({"sig": f"{tag}|{aspect}|{what}", "msg": msg, "detail": detail, "case": c, "fn": fn})


# ----------------------------------------------------------------------------------------------
# part 1: tiling, split/combine, neighbours
# ----------------------------------------------------------------------------------------------


def check_tiling(grid, geo, mesh, mod, decomp, add):
    """returns number of comparisons"""
    n = 0
    d = geo["num_axes"]
    for i, sg in enumerate(mod.subs):
        n += 1
        if not isinstance(grid, type(sg)) or sg.dim != grid.dim or sg.num_axes != d:
            add("sub-grid class or dimension differs", f"sub-grid {i} is {sg!r}")
        if sg._mesh is not mesh:
            add("sub-grid does not know its mesh", f"sub-grid {i}: _mesh is {sg._mesh!r}")
        want = [geo["periodic"][ax] and decomp[ax] == 1 for ax in range(d)]
        if [bool(p) for p in sg.periodic] != want:
            add("periodic flags of sub-grid", f"sub-grid {i} (position {mod.pos[i]}) periodic={list(sg.periodic)}, "
                f"expected {want} (an axis stays periodic iff it is periodic and not split)")
    for ax in range(d):
        b0, b1 = geo["bounds"][ax]
        N, dx = geo["shape"][ax], geo["dx"][ax]
        ulp = float(np.spacing(max(abs(b0), abs(b1))))
        chunks = []
        for p in range(decomp[ax]):
            slab = [sg for sg, q in zip(mod.subs, mod.pos) if q[ax] == p]
            ns = {int(sg.shape[ax]) for sg in slab}
            his = [float(sg.axes_bounds[ax][1]) for sg in slab]
            n += 1
            if len(ns) != 1 or max(his) - min(his) > 2 * ulp:
                add("chunk differs between slabs", f"axis {ax} chunk {p}: shapes {sorted(ns)}, upper bounds {sorted(set(his))}")
            chunks.append((slab[0].shape[ax], float(slab[0].axes_bounds[ax][0]), his[0], slab[0]))
        sizes = [c[0] for c in chunks]
        n += 1
        if min(sizes) < 1 or sum(sizes) != N:
            add("chunk sizes do not add up", f"axis {ax}: sizes {sizes}, N={N}")
            continue
        n += 3
        if abs(chunks[0][1] - b0) > 2 * ulp or abs(chunks[-1][2] - b1) > 2 * ulp:
            add("outer bounds differ from base grid", f"axis {ax}: chunks span [{chunks[0][1]!r}, {chunks[-1][2]!r}], base [{b0!r}, {b1!r}]")
        for p in range(len(chunks) - 1):
            if abs(chunks[p][2] - chunks[p + 1][1]) > 2 * ulp:
                add("gap or overlap between chunks", f"axis {ax}: chunk {p} ends at {chunks[p][2]!r}, chunk {p + 1} starts at {chunks[p + 1][1]!r}")
        off = 0
        coords = []
        for p, (m, lo, hi, sg) in enumerate(chunks):
            n += 2
            if abs(lo - (b0 + off * dx)) > 4 * ulp or abs(hi - (b0 + (off + m) * dx)) > 4 * ulp:
                add("chunk bounds are not cell edges", f"axis {ax} chunk {p}: [{lo!r}, {hi!r}], edges {b0 + off * dx!r}, {b0 + (off + m) * dx!r}")
            if abs(float(sg.discretization[ax]) * m - dx * m) > 4 * ulp:
                add("cell size of sub-grid differs", f"axis {ax} chunk {p}: dx={float(sg.discretization[ax])!r}, base {dx!r}")
            coords += [float(c) for c in sg.axes_coords[ax]]
            off += m
        n += 1
        ref = geo["centres"][ax]
        base = [float(c) for c in grid.axes_coords[ax]]
        if len(coords) != N or max(abs(a - b) for a, b in zip(coords, ref)) > 8 * ulp or max(abs(a - b) for a, b in zip(coords, base)) > 8 * ulp:
            add("cell coordinates differ", f"axis {ax}: concatenated {coords}, base {base}")
    # volumes
    n += 2
    vol = sum(float(sg.volume) for sg in mod.subs)
    if abs(vol - float(grid.volume)) > 1e-12 * abs(float(grid.volume)):
        add("volumes do not sum to the base volume", f"sum {vol!r}, base {float(grid.volume)!r}")
    cv = np.full(grid.shape, np.nan)
    for i, sg in enumerate(mod.subs):
        cv[mod.slices(i, False)] = np.broadcast_to(sg.cell_volumes, sg.shape)
    bv = np.broadcast_to(grid.cell_volumes, grid.shape)
    if not np.all(np.abs(cv - bv) <= 1e-12 * np.abs(bv)):
        add("cell volumes differ", f"max rel. deviation {float(np.nanmax(np.abs(cv - bv) / bv))!r}")
    return n


def make_fields(grid):
    from pde import FieldCollection, ScalarField, Tensor2Field, VectorField

    def fill(f, k):
        full = f._data_full
        run = np.arange(full.size, dtype=float).reshape(full.shape) + 0.5 + 1000.0 * k
        if np.iscomplexobj(full):
            full[...] = run + 1j * (run[..., ::-1] + 0.25)
        else:
            full[...] = run
        return f

    yield "ScalarField", fill(ScalarField(grid, label="s"), 0)
    yield "VectorField", fill(VectorField(grid, label="v"), 1)
    yield "Tensor2Field", fill(Tensor2Field(grid, label="t"), 2)
    yield "ScalarField[complex]", fill(ScalarField(grid, label="c", dtype=complex), 3)
    yield "VectorField[unlabelled]", fill(VectorField(grid), 4)
    yield "FieldCollection[s,v,t]", fill(
        FieldCollection([ScalarField(grid, label="a"), VectorField(grid, label="b"), Tensor2Field(grid)], label="col"), 5)
    yield "FieldCollection[complex]", fill(
        FieldCollection([ScalarField(grid, label="a", dtype=complex), ScalarField(grid, dtype=complex)]), 6)


def check_fields(grid, geo, mesh, mod, add):
    from pde import FieldCollection

    n = 0
    d = geo["num_axes"]
    nodes = range(mod.n)
    for kind, f in make_fields(grid):
        for wg in (False, True):
            src = f._data_full if wg else f.data
            parts = []
            for i in nodes:
                part = mesh.extract_field_data(src, i, with_ghost_cells=wg)
                n += 1
                exp = src[(...,) + mod.slices(i, wg)]
                if part.shape != exp.shape or part.dtype != src.dtype or part.tobytes() != exp.tobytes():
                    add(f"extract_field_data(ghost={wg}) returns the wrong block",
                        f"{kind} node {i} position {mod.pos[i]}: shape {part.shape}, expected {exp.shape}"
                        + ("" if part.shape != exp.shape else f"; first values {part.ravel()[:4]} vs {exp.ravel()[:4]}"))
                    break
                parts.append(part)
            else:
                comb = mesh.combine_field_data(parts, with_ghost_cells=wg)
                out = np.full_like(src, SENT)
                ret = mesh.combine_field_data([p.copy() for p in parts], out=out, with_ghost_cells=wg)
                n += 2
                if comb.shape != src.shape or comb.dtype != src.dtype or comb.tobytes() != np.ascontiguousarray(src).tobytes():
                    add(f"combine(extract) is not the identity (ghost={wg})", f"{kind}")
                if ret is not out or out.tobytes() != np.ascontiguousarray(src).tobytes():
                    add(f"combine(extract, out=...) is not the identity (ghost={wg})", f"{kind}")
            if not wg:
                # the other direction: arbitrary blocks -> combine -> extract gives the blocks back
                blocks = []
                for i in nodes:
                    shp = src.shape[:-d] + tuple(mod.subs[i].shape)
                    blk = (np.arange(int(np.prod(shp)), dtype=float).reshape(shp) + 0.25 + 10000.0 * (i + 1)).astype(src.dtype)
                    blocks.append(blk)
                comb = mesh.combine_field_data(blocks)
                n += 1
                for i in nodes:
                    back = mesh.extract_field_data(comb, i)
                    n += 1
                    if back.shape != blocks[i].shape or back.tobytes() != blocks[i].tobytes():
                        add("extract(combine) is not the identity", f"{kind} node {i} position {mod.pos[i]}")
                        break
        # extract_subfield
        for wg in (False, True):
            for i in nodes:
                try:
                    sf = mesh.extract_subfield(f, i, with_ghost_cells=wg)
                except (ValueError, IndexError, AssertionError, TypeError) as e:
                    add(f"extract_subfield(ghost={wg}) raises {type(e).__name__}", f"{kind} node {i}: {str(e)[:200]}")
                    break
                n += 1
                bad = []
                if type(sf) is not type(f):
                    bad.append(f"class {type(sf).__name__}")
                if sf.label != f.label:
                    bad.append(f"label {sf.label!r} != {f.label!r}")
                if sf.dtype != f.dtype or sf.data.dtype != f.data.dtype:
                    bad.append(f"dtype {sf.dtype} != {f.dtype}")
                if sf.grid is not mod.subs[i]:
                    bad.append("grid is not the sub-grid of the node")
                expv = f.data[(...,) + mod.slices(i, False)]
                if sf.data.shape != expv.shape or sf.data.tobytes() != expv.tobytes():
                    bad.append("valid data differ")
                if wg:
                    expf = f._data_full[(...,) + mod.slices(i, True)]
                    if sf._data_full.shape != expf.shape or sf._data_full.tobytes() != expf.tobytes():
                        bad.append("ghost cells are not kept")
                if isinstance(f, FieldCollection):
                    if len(sf) != len(f) or [type(a) for a in sf] != [type(a) for a in f]:
                        bad.append("member classes differ")
                    elif list(sf.labels) != list(f.labels):
                        bad.append(f"member labels {list(sf.labels)} != {list(f.labels)}")
                if bad:
                    add(f"extract_subfield(ghost={wg}) changes {bad[0].split(' ')[0]}", f"{kind} node {i}: " + "; ".join(bad))
                    break
    return n


def check_neighbors(geo, mesh, mod, add):
    import pde.tools.mpi as mpi

    n = 0
    old = mpi.rank
    try:
        for a in range(mod.n):
            for ax in range(geo["num_axes"]):
                for up in (False, True):
                    exp = mod.neighbor(a, ax, up)
                    got = mesh.get_neighbor(ax, up, node_id=a)
                    got = None if got is None else int(got)
                    mpi.rank = a
                    got2 = mesh.get_neighbor(ax, up)
                    got2 = None if got2 is None else int(got2)
                    mpi.rank = old
                    n += 2
                    side = "upper" if up else "lower"
                    if got != exp or got2 != exp:
                        at_end = mod.pos[a][ax] == (mod.decomp[ax] - 1 if up else 0)
                        if exp is None:
                            what = "neighbour reported on an outer non-periodic face" if mod.decomp[ax] > 1 else "neighbour reported along an axis that is not split"
                        elif got is None or got2 is None:
                            what = "no wrap on a split periodic axis" if at_end else "interior neighbour missing"
                        else:
                            what = "wrong neighbour across the periodic wrap" if at_end else "wrong neighbour"
                        add(f"get_neighbor|{what}", f"node {a} at {mod.pos[a]}, axis {ax} {side}: got {got} (via mpi.rank: {got2}), "
                            f"the adjacent sub-grid is {exp}" + ("" if exp is None else f" at {mod.pos[exp]}"))
                        continue
                    if got is not None:
                        back = mesh.get_neighbor(ax, not up, node_id=got)
                        n += 1
                        if back is None or int(back) != a:
                            add("get_neighbor|not symmetric", f"nb({a}, axis {ax}, {side}) = {got} but nb({got}, axis {ax}, other side) = {back}")
    finally:
        mpi.rank = old
    return n


def structure_case(case):
    grid, geo, mesh, early = build(case)
    if early is not None:
        return early
    spec, decomp = case["grid"], [int(c) for c in case["decomp"]]
    tag = tag_of(spec, geo)
    viol = []
    mod = Model(mesh, geo, decomp)
    where = f"{grid_name(spec)} decomposition {decomp}: "
    if not mod.ok:
        _viol(viol, tag, "tiling", "sub-grids do not form the requested regular mesh",
              where + f"mesh.shape={tuple(mesh.shape)}, len={len(mesh)}, distinct positions {len(set(mod.pos))}", case, FN_S)
        return {"v": viol, "n": 1, "out": "violation"}
    n = 0
    for aspect, fn in (
        ("tiling", lambda add: check_tiling(grid, geo, mesh, mod, decomp, add)),
        ("split/combine", lambda add: check_fields(grid, geo, mesh, mod, add)),
        ("neighbours", lambda add: check_neighbors(geo, mesh, mod, add)),
    ):
        seen = set()

        def add(what, msg, aspect=aspect, seen=seen):
            if what not in seen:
                seen.add(what)
                _viol(viol, tag, aspect, what, where + msg, case, FN_S)

        n += fn(add)
    # "splitting changes nothing": the grid that was split is still an ordinary whole grid - it is none of the sub-grids,
    # it can be split again (same decomposition and another one) and it still takes inhomogeneous conditions
    from pde.grids._mesh import GridMesh

    n += 1
    if any(sub is grid for sub in mesh.subgrids.flat) or getattr(grid, "_mesh", None) is not None:
        _viol(viol, tag, "tiling", "the grid that was split became a sub-grid of the mesh", where + "a sub-grid is the base grid object", case, FN_S)
    try:
        again = GridMesh.from_grid(grid, decomp)
        other = GridMesh.from_grid(grid, [1] * len(decomp))
        ok = tuple(again.shape) == tuple(mesh.shape) and [tuple(g.shape) for g in again.subgrids.flat] == [tuple(g.shape) for g in mesh.subgrids.flat]
        ok = ok and len(other) == 1
        if not ok:
            _viol(viol, tag, "tiling", "splitting the same grid again gives another mesh", where, case, FN_S)
        if not all(geo["periodic"]):
            from pde import ScalarField

            def per_axis(cond):
                return {a: ("periodic" if p else cond) for a, p in zip(geo["axes"], geo["periodic"])}

            grid.get_boundary_conditions(per_axis({"value": 1.5}))
            f = ScalarField(grid, 1.0)
            f.set_ghost_cells(per_axis({"value_expression": "1 + " + geo["axes"][0]}))
    except Exception as e:  # noqa: BLE001
        _viol(viol, tag, "tiling", "the grid that was split cannot be used as a whole grid afterwards",
              where + f"{type(e).__name__}: {str(e)[:120]}", case, FN_S)
    return {"v": viol[:6], "n": n, "out": features(geo, mod.sizes), "key": f"{grid_name(spec)}|{decomp}"}


# ----------------------------------------------------------------------------------------------
# part 2: operators and boundary conditions
# ----------------------------------------------------------------------------------------------

BC_CLASSES = ["auto", "value", "derivative", "mixed", "curvature", "sides", "antiperiodic"]
EXPR_CLASSES = ["value_expression", "derivative_expression", "mixed_expression", "virtual_point", "per-face array"]


def tensor_value(c, dim, rank):
    if rank == 0:
        return float(c)
    arr = np.empty((dim,) * rank)
    for idx in np.ndindex(*arr.shape):
        arr[idx] = c + 0.25 * sum((k + 1) * i for k, i in enumerate(idx))
    return arr


def bc_spec(geo, rank, cls):
    """boundary conditions of class `cls` with a different non-zero constant on every face (`sides`: a
    different class on every face); None if the class does not exist on this grid"""
    if cls == "auto":
        return "auto_periodic_neumann"
    if cls == "antiperiodic" and not any(geo["periodic"]):
        return None
    if cls != "antiperiodic" and all(geo["periodic"]):
        return None  # nothing but periodic conditions: coincides with "auto"
    spec = {}
    dim = geo["dim"]
    for a, (name, per) in enumerate(zip(geo["axes"], geo["periodic"])):
        if per:
            spec[name] = "anti-periodic" if cls == "antiperiodic" else "periodic"
            continue
        for up in (False, True):
            c = 0.7 + 0.9 * a + 0.4 * up
            kind = _face_kind(cls, a, up)
            if kind in ("value", "derivative", "curvature"):
                entry = {"type": kind, "value": tensor_value(c, dim, rank)}
            elif kind == "mixed":
                entry = {"type": "mixed", "value": tensor_value(c, dim, rank), "const": tensor_value(c + 0.35, dim, rank)}
            elif kind in ("value_expression", "derivative_expression", "mixed_expression", "virtual_point"):
                if rank != 0:
                    return None
                # small integer coefficients: sympy's simplify is slow on decimal fractions
                oth = [n for i, n in enumerate(geo["axes"]) if i != a]
                ci = 2 + 3 * a + int(up)
                expr = f"{ci}" + "".join(f" + {n}*{n}" if k == 0 else f" - {n}" for k, n in enumerate(oth))
                if kind == "mixed_expression":
                    entry = {"type": kind, "value": expr, "const": ci + 1}
                else:
                    entry = {"type": kind, "value": expr + " + value"}
            elif kind == "per-face array":
                bshape = tuple(n for i, n in enumerate(geo["shape"]) if i != a)
                if rank != 0 or not bshape:
                    return None
                entry = {"type": "value", "value": c + 0.1 * np.arange(int(np.prod(bshape)), dtype=float).reshape(bshape)}
            else:
                raise ValueError(kind)
            spec[name + ("+" if up else "-")] = entry
    return spec


def op_variants(nbk, grid):
    """every registered operator of the grid x the options of its factory"""
    import functools
    import inspect

    out = []
    for name in sorted(set(grid.operators) - {"poisson_solver"}):
        info = nbk.get_operator_info(grid, name)
        if isinstance(info.factory, functools.partial):
            out.append((name, {}, info.rank_in, info.rank_out))  # d_dx, d2_dx2, ...: options are bound
            continue
        params = inspect.signature(info.factory).parameters
        base = {"safe": False} if "safe" in params else {}  # the symmetry assertion rejects unit vectors
        axes = []
        if "method" in params:
            axes.append([("method", m) for m in ("central", "forward", "backward")])
        if "central" in params:
            axes.append([("central", c) for c in (True, False)])
        if "conservative" in params:
            axes.append([("conservative", c) for c in (True, False)])
        for combo in itertools.product(*axes):
            out.append((name, {**base, **dict(combo)}, info.rank_in, info.rank_out))
    return out


def vname(name, kw):
    opts = ",".join(f"{k}={v}" for k, v in sorted(kw.items()) if k != "safe")
    return f"{name}({opts})" if opts else name


def unit_vectors(shape):
    size = int(np.prod(shape))
    for k in range(size):
        e = np.zeros(size)
        e[k] = 1.0
        yield k, e.reshape(shape)


def coupled(shape_valid, tshape, periodic, j, k):
    """can the cells j, k (flat indices into tshape + shape_valid) both lie in one axis-aligned 3-point
    stencil?  (same tensor component, differ along exactly one axis by <= 2, cyclically if periodic)"""
    full = tuple(tshape) + tuple(shape_valid)
    a = np.unravel_index(j, full)
    b = np.unravel_index(k, full)
    nt = len(tshape)
    if a[:nt] != b[:nt]:
        return False
    diff = 0
    for ax, (x, y) in enumerate(zip(a[nt:], b[nt:])):
        if x != y:
            dist = abs(x - y)
            if periodic[ax]:
                dist = min(dist, shape_valid[ax] - dist)
            if dist > 2:
                return False
            diff += 1
    return diff == 1


class SplitOperator:
    """the operator of every sub-grid applied to the extracted blocks (ghost cells included), combined;
    works on a batch of padded arrays (leading axis) so that extract/combine are called once per node"""

    def __init__(self, mesh, mod, name, kw, rank_out, dim):
        self.mesh, self.mod = mesh, mod
        self.ops = [sg.make_operator_no_bc(name, backend="numba", **kw) for sg in mod.subs]
        self.tout = (dim,) * rank_out
        self.calls = 0

    def __call__(self, batch):
        parts = []
        for i, (sg, op) in enumerate(zip(self.mod.subs, self.ops)):
            sub = np.array(self.mesh.extract_field_data(batch, i, with_ghost_cells=True))  # the node's own memory
            out = np.full((len(batch),) + self.tout + tuple(sg.shape), np.nan)
            for b in range(len(batch)):
                op(sub[b], out[b])
            self.calls += len(batch)
            parts.append(out)
        return self.mesh.combine_field_data(parts)


_GLOBAL = {}


def global_side(spec, seed):
    """everything that does not depend on the decomposition, per worker process and grid"""
    key = (grid_name(spec), seed)
    if key not in _GLOBAL:
        if len(_GLOBAL) > 3:
            _GLOBAL.clear()
        from pde.backends import get_backend

        grid = make_grid(spec)
        _GLOBAL[key] = {"grid": grid, "variants": op_variants(get_backend("numba"), grid), "ops": {}, "bcs": {}, "R": {}, "fulls": {}}
    return _GLOBAL[key]


def operator_case(case):
    import pde.tools.mpi as mpi
    from pde.grids.boundaries.local import _MPIBC, BCDataError

    grid, geo, mesh, early = build(case)
    if early is not None:
        return early
    spec, decomp, seed = case["grid"], [int(c) for c in case["decomp"]], int(case.get("seed", 0))
    only = case.get("only") or {}
    tag = tag_of(spec, geo)
    mod = Model(mesh, geo, decomp)
    if not mod.ok:
        return {"nt": False, "out": "mesh malformed (reported by the structure part)"}
    pair_max = int(case.get("pair_max", 16))
    G = global_side(spec, seed)
    g0 = G["grid"]  # the operators of the *whole* grid come from an object that was never split
    d, dim = geo["num_axes"], geo["dim"]
    shape, shape_full = tuple(geo["shape"]), tuple(s + 2 for s in geo["shape"])
    valid = (...,) + (slice(1, -1),) * d
    where = f"{grid_name(spec)} decomposition {decomp}: "
    viol, refs, seen = [], [], set()
    n = 0
    if "generic" not in G:
        rng = np.random.default_rng(seed)
        G["generic"] = {r: rng.uniform(-1, 2, size=(2,) + (dim,) * r + shape_full) for r in (0, 1, 2)}
    generic = G["generic"]

    def add(aspect, what, msg, only_):
        if (aspect, what) not in seen:
            seen.add((aspect, what))
            _viol(viol, tag, aspect, what, where + msg, case, FN_O, only=only_)

    def global_bcs(cls, rank):
        """the global conditions, or None (class absent on this grid), or a string (refused by py-pde)"""
        k = (cls, rank)
        if k not in G["bcs"]:
            s = bc_spec(geo, rank, cls)
            if s is None:
                G["bcs"][k] = None
            elif any(_face_kind(cls, a, up) == "curvature" and shape[a] < 2
                     for a in range(d) for up in (False, True) if not geo["periodic"][a]):
                G["bcs"][k] = "curvature condition on a one-cell axis of the whole grid (RuntimeError: needs two support points)"
            else:
                G["bcs"][k] = g0.get_boundary_conditions(s, rank=rank)
        return G["bcs"][k]

    def with_ghosts(bcs, u, rank):
        """padded array: valid cells u, ghost cells from the global condition, corners = sentinel"""
        full = np.full((dim,) * rank + shape_full, SENT)
        full[valid] = u
        bcs.set_ghost_cells(full)
        return full

    def inputs(cls, rank, quadratic=False):
        """determining set of padded arrays for BC class cls: (labels, array[B, tensor, padded grid])"""
        k = (cls, rank, quadratic, pair_max)
        if k not in G["fulls"]:
            bcs = global_bcs(cls, rank)
            vshape = (dim,) * rank + shape
            vsize = int(np.prod(vshape))
            us = [("zero", np.zeros(vshape))] + [(f"e{j}", e) for j, e in unit_vectors(vshape)]
            us += [(f"generic{gi}", generic[rank][gi][valid]) for gi in range(2)]
            if quadratic:
                us += [(f"2e{j}", 2 * e) for j, e in unit_vectors(vshape)]
                all_pairs = vsize <= pair_max and cls in ("auto", "sides", "mixed")
                for j in range(vsize):
                    for k2 in range(j + 1, vsize):
                        if all_pairs or coupled(shape, (dim,) * rank, geo["periodic"], j, k2):
                            e = np.zeros(vsize)
                            e[j] = e[k2] = 1.0
                            us.append((f"e{j}+e{k2}", e.reshape(vshape)))
            G["fulls"][k] = ([lab for lab, _ in us], np.array([with_ghosts(bcs, u, rank) for _, u in us]))
        return G["fulls"][k]

    # ---- operators ----------------------------------------------------------------------------
    for name, kw, rin, rout in G["variants"]:
        vn = vname(name, kw)
        if only.get("part") == "transfer" or only.get("op") not in (None, vn):
            continue
        okey = (name, tuple(sorted(kw.items())))
        if okey not in G["ops"]:
            G["ops"][okey] = g0.make_operator_no_bc(name, backend="numba", **kw)
        op_g = G["ops"][okey]
        split = SplitOperator(mesh, mod, name, kw, rout, dim)
        tin = (dim,) * rin

        def compare(labels, batch, bcname):
            """whole-grid results R[B, ...] if the sub-grid route reproduces them, else None"""
            k = (okey, bcname)
            if k not in G["R"]:
                R = np.full((len(batch),) + (dim,) * rout + shape, np.nan)
                for b in range(len(batch)):
                    op_g(np.array(batch[b]), R[b])
                G["R"][k] = R
            R = G["R"][k]
            try:
                C = split(batch)
            except (ValueError, IndexError, AssertionError, TypeError) as e:
                add("operator", f"{vn}|applying the operator on the extracted blocks raises {type(e).__name__}",
                    f"operator {vn}, ghost cells from {bcname}: {str(e)[:200]}", {"part": "operator", "op": vn, "bc": bcname})
                return None
            axes = tuple(range(1, R.ndim))
            scale = 1.0 + np.max(np.abs(R), axis=axes, keepdims=True)
            if C.shape == R.shape and np.all(np.abs(C - R) <= TOL_OP * scale):
                return R
            msg = f"shapes {C.shape} vs {R.shape}"
            if C.shape == R.shape:
                dev = np.where(np.isnan(C - R), np.inf, np.abs(C - R) / scale)
                pos = tuple(int(i) for i in np.unravel_index(int(np.argmax(dev > TOL_OP)), R.shape))
                msg = f"input {labels[pos[0]]}: at output cell {pos[1:]} the sub-grids give {C[pos]!r}, the whole grid {R[pos]!r}"
            add("operator", f"{vn}|result on the sub-grids differs from the whole-grid result",
                f"operator {vn}, ghost cells from {bcname}, " + msg, {"part": "operator", "op": vn, "bc": bcname})
            return None

        quadratic = name == "gradient_squared"
        # (i) identity of linear maps on the whole padded array: zero, every unit vector, 2 generic arrays
        if not quadratic and only.get("bc") in (None, "padded basis"):
            psize = int(np.prod(tin + shape_full))
            batch = np.concatenate([np.zeros((1, psize)), np.eye(psize), generic[rin].reshape(2, psize)]).reshape((-1,) + tin + shape_full)
            labels = ["zero"] + [f"e{k}" for k in range(psize)] + ["generic0", "generic1"]
            R = compare(labels, batch, "padded basis")
            if R is not None:
                # superposition: the maps really are linear - predict generic content from the unit responses
                R0, cols, Rg = R[0], R[1:-2] - R[0], R[-2:]
                pred = R0 + np.tensordot(generic[rin].reshape(2, psize), cols, axes=(1, 0))
                if not np.all(np.abs(pred - Rg) <= 1e-10 * (1.0 + float(np.max(np.abs(Rg))) * psize**0.5)):
                    add("operator", f"{vn}|not a linear map of the padded array",
                        f"operator {vn}: result on a generic array differs from the superposition of the unit responses by "
                        f"{float(np.max(np.abs(pred - Rg)))!r}", {"part": "operator", "op": vn, "bc": "padded basis"})
        # (ii) end to end for every BC class: ghost cells written by the real global condition
        for cls in BC_CLASSES:
            if only.get("bc") not in (None, cls):
                continue
            bcs = global_bcs(cls, rin)
            if bcs is None:
                continue
            if isinstance(bcs, str):
                refs.append(bcs)
                continue
            labels, batch = inputs(cls, rin, quadratic)
            compare(labels, batch, cls)
        n += split.calls

    # ---- boundary conditions transferred to the sub-grids -----------------------------------------
    old = mpi.rank
    try:
        for rank, cls in itertools.product((0, 1, 2), BC_CLASSES + EXPR_CLASSES):
            if only.get("part") == "operator" or only.get("bc") not in (None, cls) or only.get("rank") not in (None, rank):
                continue
            bcs = global_bcs(cls, rank)
            if bcs is None or isinstance(bcs, str):
                continue
            only_ = {"part": "transfer", "bc": cls, "rank": rank}
            fulls = [(lab, f) for lab, f in zip(*inputs(cls, rank)) if lab != "generic1"]
            spec_bc = bc_spec(geo, rank, cls)
            for node in range(mod.n):
                sg = mod.subs[node]
                sub_bcs = public = refused = None
                mpi.rank = node
                try:
                    sub_bcs = mesh.extract_boundary_conditions(bcs)
                    public = sg.get_boundary_conditions(spec_bc, rank=rank) if cls in ("auto", "sides") else None
                except NotImplementedError as e:
                    if cls != "per-face array" or "complicated BC" not in str(e):
                        raise
                    refs.append("a condition with a per-face array value cannot be transferred to a sub-grid (NotImplementedError)")
                    continue
                except TypeError as e:
                    if cls not in ("value_expression", "derivative_expression") or "unexpected keyword argument 'const'" not in str(e):
                        raise
                    refs.append(f"Expression{'Value' if cls[0] == 'v' else 'Derivative'}BC.to_subgrid raises TypeError (__init__() got an "
                                "unexpected keyword argument 'const'): the condition cannot be transferred to a sub-grid")
                    continue
                except BCDataError as e:
                    # _PeriodicBC.to_subgrid does not pass the rank on: the periodic condition of an unsplit periodic axis gets
                    # rank 0 and BoundariesList refuses the mixture with the rank-r conditions of the other axes
                    mixed = any(geo["periodic"][a] and decomp[a] == 1 for a in range(d)) and any(
                        not geo["periodic"][a] or decomp[a] > 1 for a in range(d))
                    if rank == 0 or not mixed or "not defined with the same rank" not in str(e):
                        raise
                    refs.append(f"rank >= 1 conditions cannot be extracted for a sub-grid that keeps a periodic axis next to a non-periodic or "
                                "split axis (BCDataError: BoundariesList are not defined with the same rank; _PeriodicBC.to_subgrid drops the rank)")
                finally:
                    mpi.rank = old
                n += 1
                outer = []
                for ax in range(d):
                    for up in (False, True):
                        gb = bcs[ax][up]
                        b = None if sub_bcs is None else sub_bcs[ax][up]
                        nb = mod.neighbor(node, ax, up)
                        side = f"axis {ax} {'upper' if up else 'lower'}"
                        if nb is not None:
                            if b is not None and (not isinstance(b, _MPIBC) or int(b._neighbor_id) != nb or b.axis != ax
                                                  or bool(b.upper) != up or b.grid is not sg):
                                add("BC transfer", "interior face does not get the exchange condition with its neighbour",
                                    f"{cls} rank {rank}, node {node} {side}: {b!r}, adjacent sub-grid is {nb}", only_)
                            continue
                        direct = gb.to_subgrid(sg) if (b is None or cls not in EXPR_CLASSES) else None  # an expression is parsed in 10-40 ms
                        bad = [c for c in (b, direct) if c is not None and (
                            isinstance(c, _MPIBC) or type(c) is not type(gb) or c.grid is not sg or c.axis != ax or bool(c.upper) != up)]
                        if bad:
                            add("BC transfer", "outer face does not get the class/side of the global condition",
                                f"{cls} rank {rank}, node {node} {side}: {bad[0]!r} from {gb!r}", only_)
                            continue
                        if public is not None and not _same_bc(public[ax][up], b):
                            add("BC transfer", "grid.get_boundary_conditions of a sub-grid differs from extract_boundary_conditions",
                                f"{cls} rank {rank}, node {node} {side}: {public[ax][up]!r} vs {b!r}", only_)
                        outer.append((ax, up, b, direct))
                if not outer:
                    continue
                outer.sort(key=lambda o: (o[0], not o[1]))  # order of BoundariesList/BoundaryPair: per axis, upper side first
                sl = mod.slices(node, True)
                faces = []
                for ax, up, b, direct in outer:
                    idx = [slice(1, -1)] * d
                    idx[ax] = -1 if up else 0
                    faces.append((ax, up, (...,) + tuple(idx)))
                stop = False
                for lab, full in fulls:
                    exp = np.array(full[(...,) + sl])
                    for which in (0, 1):
                        if any(o[2 + which] is None for o in outer):
                            continue
                        got = exp.copy()
                        for ax, up, fidx in faces:
                            got[fidx] = SENT + 1
                        try:
                            for ax, up, b, direct in outer:
                                (b if which == 0 else direct).set_ghost_cells(got)
                                n += 1
                        except RuntimeError as e:
                            if "support points" in str(e) and any(_face_kind(cls, ax, up) == "curvature" and sg.shape[ax] < 2 for ax, up, _, _ in outer):
                                refs.append("curvature condition on a one-cell chunk (RuntimeError: needs two support points)")
                                stop = True
                                break
                            raise
                        for ax, up, fidx in faces:
                            scale = 1.0 + float(np.max(np.abs(exp[fidx])))
                            if not np.all(np.abs(got[fidx] - exp[fidx]) <= TOL_BC * scale):
                                add("BC transfer", f"{type(bcs[ax][up]).__name__}|ghost cells of the sub-grid condition differ from the global ones",
                                    f"{cls} rank {rank}, node {node} at {mod.pos[node]} axis {ax} {'upper' if up else 'lower'}, input {lab}, "
                                    f"{'extract_boundary_conditions' if which == 0 else 'to_subgrid'}: ghost cells "
                                    f"{got[fidx].ravel()[:4]} vs global {exp[fidx].ravel()[:4]}", only_)
                                stop = True
                    if stop:
                        break
    finally:
        mpi.rank = old
    return {"v": viol[:6], "n": n, "out": features(geo, mod.sizes), "key": f"{grid_name(spec)}|{decomp}",
            "ref": sorted(set(refs)), "info": {"variants": len(G["variants"])}}


def _same_bc(a, b):
    """same class and constants (py-pde's own MixedBC.__eq__ cannot compare tensor-valued constants)"""
    if type(a) is not type(b) or a.grid is not b.grid or a.axis != b.axis or a.upper != b.upper or a.rank != b.rank:
        return False
    return all(np.array_equal(getattr(a, k, None), getattr(b, k, None)) for k in ("value", "const"))


def _face_kind(cls, a, up):
    if cls == "sides":
        return ["value", "derivative", "mixed", "curvature"][(2 * a + up) % 4]
    return "derivative" if cls == "antiperiodic" else cls


# ----------------------------------------------------------------------------------------------
# part 3 (thorough): the exchange of ghost cells between all nodes, all interleavings
# ----------------------------------------------------------------------------------------------


class _WouldBlock(Exception):
    pass


class Mailbox:
    """stand-in for pde.tools.mpi: buffered sends, receives that need a matching (source, dest, tag);
    box: {(source, dest, tag): ((payload, hash), ...)} in the order of sending"""

    def __init__(self):
        self.node = None
        self.box = {}
        self.events = []

    def send(self, data, dest, tag):
        key = (self.node, int(dest), int(tag))
        payload = np.array(data)
        self.box[key] = self.box.get(key, ()) + ((payload, hash(payload.tobytes())),)

    def recv(self, data, source, tag):
        key = (int(source), self.node, int(tag))
        q = self.box.get(key, ())
        if not q:
            raise _WouldBlock(key)
        if len(q) > 1:
            self.events.append(("ambiguous", key, len(q)))
        data[...] = q[0][0]
        if len(q) == 1:
            del self.box[key]
        else:
            self.box[key] = q[1:]


def record_program(bcs, data):
    """the sequence of (condition, method) calls that the real BoundariesList.set_ghost_cells performs"""
    log = []
    patched = []
    for pair in bcs:
        for b in (pair.low, pair.high):
            for meth in ("send_ghost_cells", "set_ghost_cells"):
                if hasattr(b, meth):
                    real = getattr(b, meth)
                    b.__dict__[meth] = lambda *a, _b=b, _m=meth, _r=real, **k: log.append((_b, _m, _r))
                    patched.append((b, meth))
    try:
        bcs.set_ghost_cells(data)
    finally:
        for b, meth in patched:
            del b.__dict__[meth]
    return log


def scatter_gather(grid, mesh, mod, mb, mpi, add):
    """split_field_mpi / combine_field_data_mpi of all nodes through the mailbox: the main node sends, every
    other node receives (both orders of the nodes), then the way back"""
    n = 0

    def as_node(i):
        mpi.rank, mpi.is_main, mb.node = i, i == 0, i

    for kind, f in make_fields(grid):
        blank = f.copy()
        blank._data_full[...] = SENT
        for order in (range(mod.n), [0] + list(range(mod.n - 1, 0, -1))):
            mb.box = {}
            subs = {}
            try:
                for i in order:  # node 0 first: a receive before the send would block
                    as_node(i)
                    subs[i] = mesh.split_field_mpi(f if i == 0 else blank)
                    n += 1
            except _WouldBlock as e:
                add("split_field_mpi waits for a message that is never sent", f"{kind}: key (source, dest, tag)={e.args[0]}")
                continue
            if mb.box:
                add("split_field_mpi leaves messages behind", f"{kind}: keys {sorted(mb.box)}")
            for i in range(mod.n):
                exp = f._data_full[(...,) + mod.slices(i, True)]
                sf = subs[i]
                if (type(sf) is not type(f) or sf.grid is not mod.subs[i] or sf.label != f.label or sf.dtype != f.dtype
                        or sf._data_full.shape != exp.shape or sf._data_full.tobytes() != exp.tobytes()):
                    add("split_field_mpi does not deliver the block of the node (class, label, dtype, data with ghost cells)",
                        f"{kind} node {i} at {mod.pos[i]}")
                    break
            for wg in (False, True):
                mb.box = {}
                res = None
                try:
                    for i in list(order)[1:] + [0]:  # node 0 last: it collects
                        as_node(i)
                        part = np.array(f._data_full[(...,) + mod.slices(i, True)] if wg else f.data[(...,) + mod.slices(i, False)])
                        r = mesh.combine_field_data_mpi(part, with_ghost_cells=wg)
                        n += 1
                        if i == 0:
                            res = r
                        elif r is not None:
                            add("combine_field_data_mpi returns data on a node other than the main node", f"{kind} node {i}")
                except _WouldBlock as e:
                    add("combine_field_data_mpi waits for a message that is never sent", f"{kind}: key (source, dest, tag)={e.args[0]}")
                    continue
                src = f._data_full if wg else f.data
                if mb.box or res is None or res.shape != src.shape or res.tobytes() != np.ascontiguousarray(src).tobytes():
                    add(f"combine_field_data_mpi(ghost={wg}) does not restore the field", f"{kind}; left-over keys {sorted(mb.box)}")
    mb.box = {}
    return n


MPI_CONFIGS = [[0, "auto"], [1, "sides"], [0, "antiperiodic"], [2, "value"], [0, "sides"], [1, "antiperiodic"], [2, "auto"], [0, "virtual_point"]]


def mpi_case(case):
    """configs: [[rank, BC class, "all" | "one"], ...] - explore all interleavings or a single order"""
    import pde.tools.mpi as mpi
    from pde.grids.boundaries.local import _MPIBC, BCDataError

    grid, geo, mesh, early = build(case)
    if early is not None:
        return early
    spec, decomp, seed = case["grid"], [int(c) for c in case["decomp"]], int(case.get("seed", 0))
    cap = int(case.get("cap", 1500000))
    tag = tag_of(spec, geo)
    mod = Model(mesh, geo, decomp)
    if not mod.ok:
        return {"nt": False, "out": "mesh malformed (reported by the structure part)"}
    d, dim = geo["num_axes"], geo["dim"]
    shape_full = tuple(s + 2 for s in geo["shape"])
    where = f"{grid_name(spec)} decomposition {decomp}: "
    viol, refs, seen, outs = [], [], set(), []
    states = transitions = n = 0
    capped = None

    saved = (mpi.rank, mpi.size, mpi.mpi_send, mpi.mpi_recv, mpi.is_main)
    mb = Mailbox()
    rng = np.random.default_rng(seed)
    try:
        mpi.size = len(mesh)
        mpi.mpi_send, mpi.mpi_recv = mb.send, mb.recv
        if not case.get("configs") or case.get("scatter", True):
            n += scatter_gather(grid, mesh, mod, mb, mpi, lambda what, msg: viol.append(
                {"sig": f"{tag}|MPI split/combine|{what}", "msg": where + msg, "detail": None, "fn": FN_M,
                 "case": {"grid": spec, "decomp": decomp, "seed": seed, "configs": [], "scatter": True}}) if what not in seen and not seen.add(what) else None)
        for cfg in case.get("configs") or [c + ["all"] for c in MPI_CONFIGS]:
            rank, cls, how = int(cfg[0]), cfg[1], (cfg[2] if len(cfg) > 2 else "all")

            def add(what, msg):
                if what not in seen:
                    seen.add(what)
                    c = {"grid": spec, "decomp": decomp, "seed": seed, "configs": [[rank, cls, how]]}
                    viol.append({"sig": f"{tag}|MPI exchange|{what}", "msg": where + f"rank {rank}, conditions {cls}: " + msg,
                                 "detail": None, "case": c, "fn": FN_M})

            s = bc_spec(geo, rank, cls)
            if s is None:
                continue
            if any(_face_kind(cls, a, up) == "curvature" and min(mod.sizes[a]) < 2
                   for a in range(d) for up in (False, True) if not geo["periodic"][a]):
                refs.append("curvature condition on a one-cell chunk (RuntimeError: needs two support points)")
                continue
            # serial reference
            full = np.full((dim,) * rank + shape_full, SENT)
            full[(...,) + (slice(1, -1),) * d] = rng.uniform(-1, 2, size=(dim,) * rank + tuple(geo["shape"]))
            grid.get_boundary_conditions(s, rank=rank).set_ghost_cells(full)
            expected = [np.array(full[(...,) + mod.slices(i, True)]) for i in range(mod.n)]
            # every node: own data (ghost cells unknown), own conditions, own program
            datas, progs = [], []
            refused = False
            for node in range(mod.n):
                mpi.rank = node
                mb.node = node
                arr = expected[node].copy()
                for ax in range(d):
                    for side in (0, -1):
                        idx = [slice(None)] * d
                        idx[ax] = side
                        arr[(...,) + tuple(idx)] = SENT + 2 + node
                try:
                    bcs = mod.subs[node].get_boundary_conditions(s, rank=rank)  # the route a field on the sub-grid takes
                except BCDataError as e:
                    mixed = any(geo["periodic"][a] and decomp[a] == 1 for a in range(d))
                    if rank == 0 or not mixed or "not defined with the same rank" not in str(e):
                        raise
                    refs.append("rank >= 1 conditions cannot be extracted for a sub-grid that keeps a periodic axis next to a non-periodic or "
                                "split axis (BCDataError: BoundariesList are not defined with the same rank; _PeriodicBC.to_subgrid drops the rank)")
                    refused = True
                    break
                log = record_program(bcs, arr.copy())
                # blocks: a communication step followed by the local steps up to the next communication
                blocks, lead = [], []
                for b, meth, real in log:
                    if isinstance(b, _MPIBC):
                        blocks.append([real])
                    elif blocks:
                        blocks[-1].append(real)
                    else:
                        lead.append(real)
                for real in lead:
                    real(arr)
                datas.append(arr)
                progs.append(blocks)
            mpi.rank = saved[0]
            if refused:
                continue
            n += mod.n
            radix = [len(p) + 1 for p in progs]
            weight = [int(np.prod(radix[:i])) for i in range(mod.n)]
            final_key = sum((r - 1) * w for r, w in zip(radix, weight))

            def box_hash(box):
                return hash(tuple(sorted((k, tuple(h for _, h in v)) for k, v in box.items())))

            hs0 = tuple(hash(a.tobytes()) for a in datas)
            seen_states = {0: hash((hs0, box_hash({})))}
            stack = [(0, tuple([0] * mod.n), tuple(datas), hs0, {})]
            finals = 0
            while stack:
                key, pcs, ds, hs, box = stack.pop()
                states += 1
                enabled = 0
                pending = [i for i in range(mod.n) if pcs[i] < len(progs[i])]
                for node in pending:
                    mb.events = []
                    mb.node, mb.box = node, dict(box)
                    new_arr = ds[node].copy()
                    try:
                        for real in progs[node][pcs[node]]:
                            real(new_arr)
                    except _WouldBlock:
                        continue
                    new_box = mb.box
                    enabled += 1
                    transitions += 1
                    for ev in mb.events:
                        add("a receive finds more than one message with its (source, tag)",
                            f"node {node} step {pcs[node]}: key (source, dest, tag)={ev[1]} holds {ev[2]} messages")
                    nkey = key + weight[node]
                    nhs = hs[:node] + (hash(new_arr.tobytes()),) + hs[node + 1:]
                    h = hash((nhs, box_hash(new_box)))
                    if nkey in seen_states:
                        if seen_states[nkey] != h:
                            npcs = pcs[:node] + (pcs[node] + 1,) + pcs[node + 1:]
                            add("the state after the same steps depends on their order", f"program counters {npcs}")
                        continue
                    if len(seen_states) >= cap:
                        capped = f"mpi exchange: more than {cap} states for {grid_name(spec)} {decomp}"
                        break
                    seen_states[nkey] = h
                    stack.append((nkey, pcs[:node] + (pcs[node] + 1,) + pcs[node + 1:], ds[:node] + (new_arr,) + ds[node + 1:], nhs, new_box))
                    if how == "one":
                        break
                if capped:
                    break
                if pending and not enabled:
                    add("deadlock: every unfinished node waits for a message that was not sent",
                        f"waiting nodes and steps { {i: pcs[i] for i in pending} }, mailbox keys {sorted(box)}")
                if not pending:
                    finals += 1
                    if box:
                        add("messages are left over after all nodes have finished", f"keys {sorted(box)}")
                    for node in range(mod.n):
                        got, exp = ds[node], expected[node]
                        for ax in range(d):
                            for up in (False, True):
                                idx = [slice(1, -1)] * d
                                idx[ax] = -1 if up else 0
                                fidx = (...,) + tuple(idx)
                                exchanged = mod.neighbor(node, ax, up) is not None
                                tol = 0.0 if exchanged else TOL_BC * (1.0 + float(np.max(np.abs(exp[fidx]))))
                                if not np.all(np.abs(got[fidx] - exp[fidx]) <= tol):
                                    what = "exchanged ghost cells differ from the serial ones" if exchanged else "outer ghost cells differ from the serial ones"
                                    wrap = exchanged and mod.pos[node][ax] == (decomp[ax] - 1 if up else 0)
                                    if cls == "antiperiodic" and wrap and np.array_equal(got[fidx], -exp[fidx]):
                                        # exactly the known degeneracy: the exchange across the wrap ignores flip_sign
                                        what = "anti-periodic|" + what
                                    add(what, f"node {node} at {mod.pos[node]} axis {ax} {'upper' if up else 'lower'}: "
                                        f"{got[fidx].ravel()[:4]} vs serial {exp[fidx].ravel()[:4]}")
            if capped:
                break
            if finals != 1 and not viol:
                add("no unique final state", f"{finals} final states")
            outs.append("all orders" if how == "all" else "one order")
    finally:
        mpi.rank, mpi.size, mpi.mpi_send, mpi.mpi_recv, mpi.is_main = saved
    return {"v": viol[:6], "n": n + transitions, "states": states, "transitions": transitions, "traces": states,
            "outs": outs or ["nothing explored"], "nt": bool(outs), "key": f"{grid_name(spec)}|{decomp}",
            "ref": sorted(set(refs)), "cap": capped}


# ----------------------------------------------------------------------------------------------
# alphabets
# ----------------------------------------------------------------------------------------------


def periodic_mixes(d):
    return [list(p) for p in itertools.product([False, True], repeat=d)]


def grids_structure(tier):
    q = tier == "quick"
    out = []
    for per in (False, True):
        for N in range(1, (5 if q else 7) + 1):
            out.append(["unit", [N], [per]])
        out.append(["cart", [[-1, 2]], [5 if q else 7], [per]])
    out.append(["cart", [[1e-3, 3e-3]], [4 if q else 6], [False]])
    # long single axes with EVERY chunk count: the chunk edges are computed in floating point (num/chunks), the first
    # (cells, chunks) pairs at which such arithmetic can round the wrong way lie well above the small shapes (e.g. 15/11)
    for N in range(8, (40 if q else 80) + 1):
        out.append(["unit", [N], [False]])
        out.append(["unit", [N], [True]])
    shapes2 = [[4, 3], [1, 4], [3, 3]] if q else [[7, 5], [1, 7], [6, 6], [4, 7]]
    for k, shp in enumerate(shapes2):
        for per in periodic_mixes(2):
            if k == 0:
                out.append(["cart", [[0, 1], [-1, 3]], shp, per])
            else:
                out.append(["unit", shp, per])
    shapes3 = [[3, 2, 3]] if q else [[7, 6, 5], [3, 7, 2]]
    for k, shp in enumerate(shapes3):
        for per in periodic_mixes(3):
            if k == 0:
                out.append(["cart", [[0, 1], [0, 2], [-3, 3]], shp, per])
            elif not q:
                out.append(["unit", shp, per])
    if q:
        out.append(["unit", [2, 3, 2], [True, False, True]])
    out += curvilinear(tier)
    return out


def curvilinear(tier):
    N = 5 if tier == "quick" else 7
    out = []
    for kind in ("polar", "sph"):
        for n in sorted({1, 2, 3, N}):
            out.append([kind, 2, n])
        out.append([kind, [1, 2], N - 1])
        out.append([kind, [0.5, 3], N])
    nz = 4 if tier == "quick" else 7
    for pz in (False, True):
        out.append(["cyl", 2, [-1, 1], [3, nz], pz])
        out.append(["cyl", [1, 2], [0, 1], [2, 3], pz])  # annular: refused when split
    out.append(["cyl", 1.5, [0, 3], [1, nz - 1], False])
    return out


def grids_operators(tier):
    q = tier == "quick"
    out = []
    for per in (False, True):
        for N in (1, 2, 3, 5) if q else range(1, 8):
            out.append(["unit", [N], [per]])
        out.append(["cart", [[-1, 2]], [4 if q else 7], [per]])
    out.append(["cart", [[1e-3, 3e-3]], [3 if q else 5], [False]])
    if q:
        shapes2 = [([4, 3], periodic_mixes(2)), ([1, 3], [[False, False], [True, True]]), ([3, 3], [[False, True]])]
    else:
        shapes2 = [([a, b], periodic_mixes(2)) for a in (1, 2, 3, 5, 7) for b in (1, 2, 4, 7) if a * b <= 35]
    for k, (shp, pers) in enumerate(shapes2):
        for per in pers:
            out.append(["cart", [[0, 1], [-1, 3]], shp, per] if k % 2 == 0 else ["unit", shp, per])
    if q:
        shapes3 = [([3, 2, 2], [[False, False, False], [True, False, True]]), ([2, 2, 3], [[False, True, False]])]
    else:
        shapes3 = [([3, 3, 3], [[False, False, False], [True, False, True]]),
                   ([7, 2, 2], [[True, False, False]]),
                   ([2, 7, 2], [[False, False, True]]),
                   ([2, 2, 7], [[False, False, True]]),
                   ([4, 3, 2], [[False, False, False], [False, True, False], [True, True, True]])]
    for k, (shp, pers) in enumerate(shapes3):
        for per in pers:
            out.append(["cart", [[0, 1], [0, 2], [-3, 3]], shp, per] if k % 2 == 0 else ["unit", shp, per])
    out += curvilinear(tier)
    return out


def grids_mpi(tier):
    if tier == "quick":
        return [["unit", [3], [False]], ["unit", [3], [True]], ["cart", [[0, 1], [-1, 3]], [2, 3], [False, True]],
                ["unit", [2, 2], [True, True]], ["sph", [1, 2], 3], ["cyl", 2, [-1, 1], [2, 3], True]]
    out = []
    for per in (False, True):
        for N in (2, 3, 5, 6, 7):
            out.append(["unit", [N], [per]])
    for per in periodic_mixes(2):
        out.append(["cart", [[0, 1], [-1, 3]], [3, 4], per])
    for per in ([False, False, False], [True, False, True], [False, True, False]):
        out.append(["unit", [2, 3, 2], per])
    out += [["polar", 2, 4], ["sph", [1, 2], 3], ["cyl", 2, [-1, 1], [2, 4], False], ["cyl", 2, [-1, 1], [2, 4], True]]
    return out


def mpi_configs(spec, dec, tier):
    """which (rank, BC class) are explored under all interleavings: decided by an upper bound of the
    number of states, prod over nodes of (communication steps + 1)"""
    geo = geometry(spec)
    bound = 1
    for pos in itertools.product(*[range(c) for c in dec]):
        steps = 0
        for ax, c in enumerate(dec):
            if c > 1:
                steps += 2 * (2 if geo["periodic"][ax] else (pos[ax] > 0) + (pos[ax] < c - 1))
        bound *= steps + 1
    if tier == "quick":
        if int(np.prod(dec)) > 4:
            return None
        return [c + ["all"] for c in MPI_CONFIGS]
    cfgs = []
    for i, c in enumerate(MPI_CONFIGS):
        if bound <= 1e5 or (i == 0 and bound <= 1.5e7):
            cfgs.append(c + ["all"])
        elif i < 4:
            cfgs.append(c + ["one"])
    return cfgs


def decompositions(spec, extra=True):
    shape = geometry(spec)["shape"]
    for dec in itertools.product(*[range(1, n + 1) for n in shape]):
        yield list(dec)
    if extra:  # one chunk too many along each axis: must be refused
        for ax in range(len(shape)):
            dec = [1] * len(shape)
            dec[ax] = shape[ax] + 1
            yield dec


def main(run):
    only = getattr(run, "only", None)
    tier = run.tier
    s_cases = [{"grid": g, "decomp": dec} for g in grids_structure(tier) for dec in decompositions(g)]
    pair_max = 16 if tier == "quick" else 25
    o_cases = [{"grid": g, "decomp": dec, "seed": run.seed, "pair_max": pair_max}
               for g in grids_operators(tier) for dec in decompositions(g, extra=False)]
    if not only or "structure" in only:
        run.explore(FN_S, s_cases, mode="I", part="structure (tiling, split/combine, neighbours)")
    if not only or "operators" in only:
        # small grids first in their natural order (the first counterexample of a family is a small one), then the
        # expensive cases, largest first, so that the pool drains evenly
        cells = lambda c: int(np.prod(geometry(c["grid"])["shape"])) * (3 ** len(c["decomp"]))  # noqa: E731
        small = [c for c in o_cases if cells(c) <= 40]
        big = sorted((c for c in o_cases if cells(c) > 40), key=lambda c: (-cells(c), int(np.prod(c["decomp"]))))
        for group in (small, big):
            run.explore(FN_O, group, mode="I", part="operators and transferred BCs", chunksize=1, limit=900)
    if not only or "mpi" in only:
        m_cases = []
        for g in grids_mpi(tier):
            for dec in decompositions(g, extra=False):
                cfgs = mpi_configs(g, dec, tier) if int(np.prod(dec)) > 1 else None
                if cfgs:
                    m_cases.append({"grid": g, "decomp": dec, "seed": run.seed, "configs": cfgs, "cap": 3000000})
        m_cases.sort(key=lambda c: -sum(1000 if x[2] == "all" else 1 for x in c["configs"]) * int(np.prod(c["decomp"])) ** 3)
        run.explore(FN_M, m_cases, mode="I", part="mpi exchange (mailbox, interleavings)", chunksize=1, limit=3000)
    run.notes["bounds"] = {
        "structure_grids": len(grids_structure(tier)), "operator_grids": len(grids_operators(tier)),
        "cells_per_axis_max": 5 if tier == "quick" else 7,
        "decompositions": "every (c_1..c_d) with 1 <= c_k <= N_k, plus N_k+1 along each axis (must be refused)",
    }
    run.notes["mpi_exchange"] = {
        "grids": len(grids_mpi(tier)),
        "rule": "quick: every decomposition with <= 4 nodes x 8 (rank, BC class) configurations, all interleavings; thorough: every "
                "decomposition of the listed grids; all interleavings for every configuration if prod_nodes(communication steps + 1) "
                "<= 1e5, for the first configuration only if <= 1.5e7, one order otherwise (outcome 'one order'); cap 3e6 states",
        "configurations": MPI_CONFIGS,
        "also": "split_field_mpi / combine_field_data_mpi of all nodes through the same mailbox (7 field kinds, two node orders)",
    }
    run.notes["doubtful_not_in_alphabet"] = (
        "the 9-point Laplacian (config operators.cartesian.laplacian_2d_corner_weight != 0, not the default) sets the corner ghost cells "
        "of each sub-grid by interpolation, so it differs between sub-grids and whole grid at chunk corners (UnitGrid([4,4]), "
        "decomposition [2,2], corner_weight=1/3: deviation 0.06 on a uniform-random field)"
    )
    run.notes["tolerances"] = (
        "bounds: contiguity/outer bounds 2 ulp, against independently computed cell edges 4 ulp, cell centres 8 ulp (ulp of the "
        "largest |bound| of the axis; Cuboid stores pos+size, linspace edges); volumes 1e-12 relative; split/combine and exchanged "
        "ghost cells bitwise; operators 1e-11*(1+max|R|) (coefficients of sub-grid and whole grid differ by a few ulp of dx, "
        "curvilinear factors by eps*r/dr); transferred BCs 1e-12*(1+max|ghost|)"
    )
    run.assumptions += [
        "operators are exercised through their Python source (mode I, backend numba); the JIT build of the same source is covered by C03",
        "node positions are derived from the sub-grids' bounds (p-th distinct lower bound), not from GridMesh's index arithmetic",
        "all field contents: operators are linear in the padded array (checked: superposition on generic arrays), so zero + every "
        "unit vector of the padded array (ghost/corner cells included) decides the identity for every ghost-cell content; per BC class "
        "additionally zero + every valid unit vector + 2 generic fields with ghost cells from the real global condition; "
        "gradient_squared (quadratic): 0, e_j, 2e_j and e_j+e_k for all pairs when the grid has <= pair_max cells (BC classes "
        "auto, sides, mixed), else for all pairs of cells that can share a 3-point stencil, + generic fields",
        "spherical operators are built with safe=False (the symmetry assertion rejects unit tensors); spectral operators and the "
        "non-default 9-point Laplacian (corner_weight != 0) are not part of the alphabet",
        "mpi exchange: buffered sends, blocking receives keyed by (source, dest, tag); a node's program is the recorded sequence of "
        "send_ghost_cells/set_ghost_cells calls of the real BoundariesList.set_ghost_cells; local conditions are merged with the "
        "preceding communication step of the same node (they touch only that node's array); the numba_mpi backend (second "
        "implementation of the exchange) cannot be imported here (numba_mpi missing) and is not explored",
    ]
    return (
        "one case = one (grid, decomposition): all decompositions (c_1..c_d), 1 <= c_k <= N_k (+ N_k+1: must be refused) of every grid "
        "of the alphabet (1-3 axes, all periodic mixes, polar/spherical with and without hole, cylinders incl. periodic z and annular); "
        "structure part: every node x 7 field kinds x with/without ghost cells; operator part: every registered operator x option "
        "variants x (padded basis + 7 BC classes x valid basis) and 12 BC classes x ranks 0-2 x every node x every outer face for the "
        "transferred conditions; mpi part: every decomposition (quick: <= 4 nodes) of a smaller grid list x up to 8 (rank, BC class) x "
        "all interleavings of the nodes' communication steps (memoised on the vector of program counters); "
        "distinct = (part, grid, decomposition) accepted by from_grid"
    )
