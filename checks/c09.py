"""C09 - interrupt schedules are strictly increasing and stay on their lattice.

Breadth-first search over *all* non-decreasing query histories (relative query alphabet, see
``MOVES``) of real ``ConstantInterrupts``, ``FixedInterrupts``, ``GeometricInterrupts`` and
``LogarithmicInterrupts`` objects up to a depth bound, with an oracle evaluated on every
transition.  States ``(all attributes of the real object, last query, last answer[, step])`` that
are equal are merged; the merge and the snapshot/restore used for expansion are validated at run
time by re-executing histories from scratch on fresh objects.  See DESIGN.md, C09.

What is demanded (property statement, nothing more):

* answer >= query - round-off,
* answer > previous answer (``inf`` after ``inf`` is the only exception: exhausted schedules),
* lattice membership: constant ``base + k*dt`` (``base`` = time the schedule becomes active =
  ``max(t_init, t_start)``), fixed = reference model "first not-yet-passed element >= query, then
  inf forever", geometric ``scale*factor**k``, logarithmic "i-th gap is a positive integer
  multiple of ``dt0*factor**i`` and equals it when the query did not pass the previous answer by
  more than that gap".

*Not* demanded: that the answer is the earliest admissible lattice point (the classes document that
interrupts may be skipped); whether it is, is recorded as an outcome class only.

Bounds: DESIGN.md asks for depth 5 (quick) / 7 (thorough) with an 11-move alphabet; because merged
state spaces are small (10^3..10^5 states per parameter set) the check runs 14 moves to depth
7 / 8 for the ~60 hand-picked parameter sets and to depth 4 / 6 for a product lattice of 310 more.
"""

from __future__ import annotations

import math

from mc.core import CaseTimeout  # (mc.core does not import pde/numba at module level)

PROPERTY = "C09"
LEVEL = "model_checking"

CaseTimeoutTypes = (CaseTimeout, KeyboardInterrupt)
EPS = 2.0**-52
INF = math.inf
MAX_STEPS = 9  # initialize + at most 8 calls of next(); enters the derived tolerances below
STATE_CAP = 1_500_000  # per case; the run is reported as not exhaustive if it is ever hit

# relative query alphabet (simplest first); `r` = last answer (last query once exhausted),
# `p` = period = distance from the last answer to the next scheduled time
MOVES = [
    "on",  # r
    "-ulp",  # one float below r
    "+ulp",  # one float above r
    "-eps",  # r - 1e-9 p   (what the controller does: t > t_next - atol)
    "+eps",  # r + 1e-9 p
    "-half",  # r - p/2
    "+half",  # r + p/2
    "+1",  # r + p       (exactly on the next scheduled time)
    "+2.5",  # r + 2.5 p   (skips two)
    "+far",  # r + 101.3 p
    "repeat",  # the last query once more
    # ---- beyond the alphabet of DESIGN.md (cheap because of state merging) ----
    "+1-ulp",  # one float below r + p
    "+1+ulp",  # one float above r + p
    "+3",  # r + 3 p     (constant: exactly on a scheduled time several periods ahead)
]
N_DESIGN_MOVES = 11


def query(move: int, r: float, p: float, last_q: float) -> float:
    """the query of a move, clipped so that the query sequence is non-decreasing"""
    if move == 0:
        q = r
    elif move == 1:
        q = math.nextafter(r, -INF)
    elif move == 2:
        q = math.nextafter(r, INF)
    elif move == 3:
        q = r - 1e-9 * p
    elif move == 4:
        q = r + 1e-9 * p
    elif move == 5:
        q = r - 0.5 * p
    elif move == 6:
        q = r + 0.5 * p
    elif move == 7:
        q = r + p
    elif move == 8:
        q = r + 2.5 * p
    elif move == 9:
        q = r + 101.3 * p
    elif move == 10:
        q = last_q
    elif move == 11:
        q = math.nextafter(r + p, -INF)
    elif move == 12:
        q = math.nextafter(r + p, INF)
    elif move == 13:
        q = r + 3.0 * p
    else:
        raise ValueError(move)
    return q if q >= last_q else last_q


# ----------------------------------------------------------------------------------------------
# parameter sets
# ----------------------------------------------------------------------------------------------


def _c(label, dt, t_start, t_init, via="ctor", data=None):
    return {"cls": "ConstantInterrupts", "label": label, "via": via, "data": data,
            "args": {"dt": dt, "t_start": t_start}, "t_init": t_init}


def _f(label, lst, t_init, via="ctor"):
    return {"cls": "FixedInterrupts", "label": label, "via": via, "data": None,
            "args": {"interrupts": lst}, "t_init": t_init}


def _g(label, scale, factor, t_init, via="ctor", data=None):
    return {"cls": "GeometricInterrupts", "label": label, "via": via, "data": data,
            "args": {"scale": scale, "factor": factor}, "t_init": t_init}


def _l(label, dt0, factor, t_start, t_init, via="ctor"):
    return {"cls": "LogarithmicInterrupts", "label": label, "via": via, "data": None,
            "args": {"dt_initial": dt0, "factor": factor, "t_start": t_start}, "t_init": t_init}


def parameter_sets(seed: int):
    third = 1.0 / 3.0
    P = [
        # ---- ConstantInterrupts(dt, t_start), first query t_init ----
        _c("dt=1", 1.0, None, 0.0),
        _c("dt=0.1", 0.1, None, 0.0),
        _c("dt=0.1,t_init=0.3", 0.1, None, 0.3),
        _c("dt=1/3", third, None, 0.0),
        _c("dt=1/3,t_start=-2,t_init=-5", third, -2.0, -5.0),
        _c("dt=1/3,t_start=-2,t_init=0", third, -2.0, 0.0),
        _c("dt=0.7,t_start=2,t_init=1.5", 0.7, 2.0, 1.5),
        _c("dt=0.1,t_start=3*0.1", 0.1, 0.1 * 3, 0.0),
        _c("dt=0.7,t_start=2,t_init=2.5", 0.7, 2.0, 2.5),  # starts after t_start: lattice anchored at t_init
        # t_start = 0 is a value, not "no t_start" (falsy values of optional parameters)
        _c("dt=0.5,t_start=0.0,t_init=-0.25", 0.5, 0.0, -0.25),
        _c("dt=0.5,t_start=0 (int),t_init=-1", 0.5, 0, -1.0),
        _c("dt=1/3,t_start=-0.0,t_init=-5", third, -0.0, -5.0),
        _c("dt=0.1,t_start=0.0,t_init=0.3", 0.1, 0.0, 0.3),
        _c("dt=1e-3,t_init=1000", 1e-3, None, 1000.0),
        _c("dt=2.5,t_init=-7.5", 2.5, None, -7.5),
        _c("dt=1e6", 1e6, None, 0.0),
        _c("parse(0.1)", 0.1, None, 0.0, via="parse", data=0.1),
        _c("parse(2),t_init=1", 2.0, None, 1.0, via="parse", data=2),
        _c("parse(ConstantInterrupts(0.5,1))", 0.5, 1.0, 0.0, via="parse_obj"),
        _c("ConstantInterrupts(0.1).copy()", 0.1, None, 0.0, via="copy"),
        _c("tracker(interrupts=1/3),t_init=-1", third, None, -1.0, via="tracker", data=third),
        # ---- FixedInterrupts(list) ----
        _f("[0.5,1,1.5,4]", [0.5, 1.0, 1.5, 4.0], 0.0),
        _f("[0,0.1,0.2,3*0.1,1]", [0.0, 0.1, 0.2, 0.1 * 3, 1.0], 0.0),
        _f("[2]", [2.0], 0.0),
        _f("[2],t_init=2", [2.0], 2.0),
        _f("[2],t_init=3", [2.0], 3.0),
        _f("[1,1.0000000001,3]", [1.0, 1.0000000001, 3.0], 0.0),
        _f("[1,1+ulp,3],t_init=0.5", [1.0, math.nextafter(1.0, INF), 3.0], 0.5),
        _f("[-3,-1.5,0,2],t_init=-4", [-3.0, -1.5, 0.0, 2.0], -4.0),
        _f("[-3,-1.5,0,2],t_init=-1.5", [-3.0, -1.5, 0.0, 2.0], -1.5),
        _f("[]", [], 0.0),
        _f("parse([1,2,3,5,8]) ints", [1, 2, 3, 5, 8], 0.0, via="parse"),
        _f("parse((0.25,0.5,0.75)) tuple", [0.25, 0.5, 0.75], 0.0, via="parse_tuple"),
        _f("parse(ndarray 0..0.9)", [0.1 * i for i in range(10)], 0.05, via="parse_ndarray"),
        _f("FixedInterrupts([0.5,1,1.5,4]).copy()", [0.5, 1.0, 1.5, 4.0], 0.75, via="copy"),
        _f("tracker(interrupts=[1,1.5,10])", [1.0, 1.5, 10.0], 0.0, via="tracker"),
        # long lists, so that "+far" and deep histories do not simply exhaust the schedule
        _f("parse(ndarray 0.1*k, k<150)", [0.1 * k for k in range(150)], 0.0, via="parse_ndarray"),
        _f("[0.1*k+0.01*k*k, k<40],t_init=-1", [0.1 * k + 0.01 * k * k for k in range(40)], -1.0),
        # ---- GeometricInterrupts(scale, factor > 1) ----
        _g("scale=1,factor=2", 1.0, 2.0, 0.0),
        _g("scale=0.1,factor=10", 0.1, 10.0, 0.0),
        _g("scale=3,factor=1.5,t_init=1", 3.0, 1.5, 1.0),
        _g("scale=1,factor=2,t_init=8", 1.0, 2.0, 8.0),
        _g("scale=1,factor=2,t_init=-1", 1.0, 2.0, -1.0),
        _g("scale=0.1,factor=10,t_init=0.1*10**3", 0.1, 10.0, 0.1 * 10**3),
        _g("scale=1/3,factor=1.1", third, 1.1, 0.0),
        _g("scale=1e-3,factor=3,t_init=5", 1e-3, 3.0, 5.0),
        _g("parse('geometric(1, 2)')", 1.0, 2.0, 0.0, via="parse", data="geometric(1, 2)"),
        _g("parse('geometric(1e-1,1.5e0)'),t_init=0.05", 0.1, 1.5, 0.05, via="parse",
           data="geometric(1e-1,1.5e0)"),
        _g("parse('geometric( 2.5 , 3 )')", 2.5, 3.0, 0.0, via="parse", data="geometric( 2.5 , 3 )"),
        _g("GeometricInterrupts(1,2).copy()", 1.0, 2.0, 0.0, via="copy"),
        _g("tracker(interrupts='geometric(0.5, 4)')", 0.5, 4.0, 0.0, via="tracker",
           data="geometric(0.5, 4)"),
        # ---- LogarithmicInterrupts(dt_initial, factor >= 1, t_start) ----
        _l("dt0=1,factor=2", 1.0, 2.0, None, 0.0),
        _l("dt0=0.1,factor=1", 0.1, 1.0, None, 0.0),
        _l("dt0=0.5,factor=1.5,t_init=1", 0.5, 1.5, None, 1.0),
        _l("dt0=0.1,factor=2,t_start=3*0.1", 0.1, 2.0, 0.1 * 3, 0.0),
        _l("dt0=1/3,factor=1,t_start=-2,t_init=-5", third, 1.0, -2.0, -5.0),
        _l("dt0=1/3,factor=3,t_start=-2,t_init=0", third, 3.0, -2.0, 0.0),
        _l("dt0=0.5,factor=2,t_start=0.0,t_init=-1", 0.5, 2.0, 0.0, -1.0),
        _l("dt0=0.25,factor=1,t_start=0 (int),t_init=-0.3", 0.25, 1.0, 0, -0.3),
        _l("defaults", 1.0, 1.0, None, 0.0, via="default"),
        _l("dt0=0.1,factor=10", 0.1, 10.0, None, 0.0),
        _l("dt0=1,factor=1.01", 1.0, 1.01, None, 0.0),
        _l("dt0=1e-3,factor=2,t_init=1000", 1e-3, 2.0, None, 1000.0),
        _l("LogarithmicInterrupts(0.1,2).copy()", 0.1, 2.0, None, 0.0, via="copy"),
    ]
    # generic contents selected by VERIF_SEED (one per class; the enumerated space is the same)
    import random

    rnd = random.Random(1000003 * seed + 9)
    u = lambda lo, hi: round(rnd.uniform(lo, hi), 4)  # noqa: E731
    P.append(_c("generic(seed)", u(0.05, 2.0), u(-3.0, 3.0), u(-3.0, 3.0)))
    lst = sorted({u(-2.0, 6.0) for _ in range(6)})
    P.append(_f("generic(seed)", lst, u(-3.0, 1.0)))
    P.append(_g("generic(seed)", u(0.05, 2.0), u(1.2, 4.0), u(0.0, 3.0)))
    P.append(_l("generic(seed)", u(0.05, 2.0), u(1.0, 3.0), u(-3.0, 3.0), u(-3.0, 3.0)))
    return P


def lattice_sets():
    """systematic product of parameter values (explored to a smaller depth than `parameter_sets`);
    `family` (the leading parameters) is what enters a violation signature"""
    third, seventh = 1.0 / 3.0, 1.0 / 7.0
    out = []
    starts = [(None, 0.0), (None, 0.3), (None, -2.1), (None, 1000.0), (0.5, 0.0), (-2.0, -5.0), (0.0, -0.25), (0.0, -5.0)]
    for dt in [0.1, 0.2, 0.3, 0.6, 0.7, third, seventh, 1e-3, 1e-5, 3.0, 1e3]:
        for ts, ti in starts:
            P = _c(f"dt={dt:g},t_start={ts},t_init={ti:g}", dt, ts, ti)
            P["family"] = f"dt={dt:g}"
            out.append(P)
    for dt0 in [0.1, third, 1.0, 1e-3]:
        for f in [1.0, 1.1, 2.0, 10.0]:
            for ts, ti in [(None, 0.0), (None, 0.3), (-2.0, -5.0), (None, 1000.0)]:
                P = _l(f"dt0={dt0:g},factor={f:g},t_start={ts},t_init={ti:g}", dt0, f, ts, ti)
                P["family"] = f"dt0={dt0:g},factor={f:g}"
                out.append(P)
    for scale in [0.1, third, 1.0, 7.0, 1e-3]:
        for f in [1.1, 1.5, 2.0, 3.0, 10.0]:
            for name, ti in [("0", 0.0), ("scale", scale), ("scale*factor**3", scale * f**3), ("0.3", 0.3),
                             ("1000", 1000.0)]:
                P = _g(f"scale={scale:g},factor={f:g},t_init={name}", scale, f, ti)
                P["family"] = f"scale={scale:g},factor={f:g}"
                out.append(P)
    lists = {}
    for d, dn in [(0.1, "0.1"), (third, "1/3"), (1.0, "1")]:
        for n in [1, 2, 5]:
            lists[f"[k*{dn} for k<{n}]"] = [k * d for k in range(n)]
    acc, cum = 0.0, []
    for _ in range(5):
        acc += 0.1
        cum.append(acc)
    lists["cumsum(5 x 0.1)"] = cum
    lists["[-1+k/4 for k<5]"] = [-1.0 + 0.25 * k for k in range(5)]
    for name, lst in lists.items():
        mid = lst[len(lst) // 2]
        for tn, ti in [("before", lst[0] - 1.0), ("first", lst[0]), ("mid", mid),
                       ("mid+ulp", math.nextafter(mid, INF)), ("after", lst[-1] + 1.0)]:
            P = _f(f"{name},t_init={tn}", lst, ti)
            P["family"] = name
            out.append(P)
    return out


# ----------------------------------------------------------------------------------------------
# real system
# ----------------------------------------------------------------------------------------------


def build(P):
    """construct the real object of a parameter set through the requested route"""
    import numpy as np
    from pde.trackers import interrupts as I

    cls, via, a = P["cls"], P["via"], P["args"]
    if cls == "ConstantInterrupts":
        ctor = lambda: I.ConstantInterrupts(a["dt"], a["t_start"])  # noqa: E731
    elif cls == "FixedInterrupts":
        ctor = lambda: I.FixedInterrupts(list(a["interrupts"]))  # noqa: E731
    elif cls == "GeometricInterrupts":
        ctor = lambda: I.GeometricInterrupts(a["scale"], a["factor"])  # noqa: E731
    elif cls == "LogarithmicInterrupts":
        ctor = lambda: I.LogarithmicInterrupts(a["dt_initial"], a["factor"], a["t_start"])  # noqa: E731
    else:
        raise ValueError(cls)

    if cls == "FixedInterrupts":
        data = {"parse": list(a["interrupts"]), "tracker": list(a["interrupts"]),
                "parse_tuple": tuple(a["interrupts"]),
                "parse_ndarray": np.array(a["interrupts"], dtype=float)}.get(via)
    else:
        data = P.get("data")

    if via == "ctor":
        return ctor()
    if via == "default":
        return I.LogarithmicInterrupts()
    if via == "copy":  # what TrackerCollection.from_data does with a shared interrupt
        return ctor().copy()
    if via == "parse_obj":
        return I.parse_interrupt(ctor())
    if via in ("parse", "parse_tuple", "parse_ndarray"):
        return I.parse_interrupt(data)
    if via == "tracker":
        from pde.trackers.trackers import CallbackTracker

        return CallbackTracker(lambda state, t: None, interrupts=data).interrupt
    raise ValueError(via)


def canon(obj):
    """all attributes of the real object (nothing hand-picked), hashable"""
    out = []
    for k, v in obj.__dict__.items():
        if hasattr(v, "tobytes"):  # numpy array or scalar
            if getattr(v, "ndim", 0) == 0:
                v = v.item()
            else:
                v = ("nd", v.dtype.str, v.shape, v.tobytes())
        out.append((k, v))
    out.sort()
    return tuple(out)


def restore(obj, snap):
    d = obj.__dict__
    d.clear()
    d.update(snap)


# ----------------------------------------------------------------------------------------------
# oracle (knows the parameters and the observed queries/answers, nothing of the real cursor)
# ----------------------------------------------------------------------------------------------


def period(P, step: int, a: float) -> float:
    """distance from the last answer `a` (returned by call number `step`) to the next scheduled
    time, according to the schedule's definition"""
    cls, g = P["cls"], P["args"]
    if cls == "ConstantInterrupts":
        return g["dt"]
    if cls == "LogarithmicInterrupts":
        return g["dt_initial"] * g["factor"] ** step
    if cls == "GeometricInterrupts":
        return a * (g["factor"] - 1.0)
    lst = g["interrupts"]
    if math.isfinite(a):
        j = _index(lst, a)
        if j is not None:
            if j + 1 < len(lst):
                return float(lst[j + 1] - lst[j])
            if j >= 1:
                return float(lst[j] - lst[j - 1])
    return 1.0


def _index(lst, a):
    for j, x in enumerate(lst):
        if x == a:
            return j
    return None


def check_step(P, step, q, a, prev_q, prev_a):
    """oracle for one call: `step` = 0 for initialize(q), i >= 1 for the i-th next(q).

    Returns (list of (kind, message), outcome class)."""
    cls, g = P["cls"], P["args"]
    bad = []
    if isinstance(a, Raised):
        return [(f"raises {a.name}", f"call {step}: query {q!r} -> {a.text}")], "bad"
    if not isinstance(a, float) or a != a or a == -INF:
        return [("answer is not a time", f"call {step}: query {q!r} -> {a!r}")], "bad"

    # ---- generic: not earlier than the query (up to round-off) ----
    if cls == "GeometricInterrupts":
        # answer = scale*factor**ceil(log(q/scale)/log(factor)); an error of the quotient of
        # (3|log(q/scale)|/log f + 1/log f) eps moves the answer by that times log f, relatively
        tol_q = (4.0 * abs(math.log(q / g["scale"])) + 8.0) * EPS * abs(q) if q > 0 else 0.0
    else:
        # at most four rounded operations per call whose operands and results are bounded by
        # max(|q|, |a|, |previous answer|): the round-off scale near t = 0 is set by the operands
        # (previous answer, dt), not by the tiny result
        mag = max(abs(q), abs(a) if math.isfinite(a) else 0.0,
                  abs(prev_a) if step > 0 and math.isfinite(prev_a) else 0.0)
        tol_q = 4.0 * EPS * mag
    if not a >= q - tol_q:
        bad.append(("answer earlier than query", f"call {step}: query {q!r} -> answer {a!r} (tolerance {tol_q:.3g})"))

    # ---- generic: strictly later than the previous answer ----
    if step > 0:
        if prev_a == INF:
            if a != INF:
                bad.append(("finite answer after exhaustion", f"call {step}: query {q!r} -> {a!r} after inf"))
        elif not a > prev_a:
            bad.append(("not strictly increasing", f"call {step}: query {q!r} -> answer {a!r}, previous answer {prev_a!r}"))
    if a == INF and cls != "FixedInterrupts":
        bad.append(("infinite answer of an unbounded schedule", f"call {step}: query {q!r} -> inf"))
    if bad and a == INF and cls != "FixedInterrupts":
        return bad, "bad"

    # ---- lattice membership ----
    out = "?"
    if cls == "ConstantInterrupts":
        dt = g["dt"]
        t_init = float(P["t_init"])  # the schedule becomes active at max(t_init, t_start)
        base = t_init if g["t_start"] is None else max(t_init, g["t_start"])
        k = round((a - base) / dt)
        maxabs = max(abs(a), abs(base), abs(q))
        # every call adds at most 4 rounded terms of magnitude <= maxabs: 2 eps maxabs per call
        tol = 4.0 * MAX_STEPS * EPS * maxabs
        if k < 0 or abs(a - (base + k * dt)) > tol:
            bad.append(("off lattice", f"call {step}: answer {a!r} is not base + k*dt (base={base!r}, dt={dt!r}, "
                        f"(a-base)/dt={(a - base) / dt!r}, tolerance {tol:.3g})"))
        if step == 0:
            out = "init"
        else:
            out = _advance_class(a, q, prev_a, tol_q, dt, round((a - prev_a) / dt))
    elif cls == "LogarithmicInterrupts":
        if step == 0:
            out = "init"  # t_0: any time not earlier than the query
        else:
            unit = g["dt_initial"] * g["factor"] ** (step - 1)
            gap = a - prev_a
            m = round(gap / unit)
            maxabs = max(abs(a), abs(prev_a), abs(q))
            # real code: dt = ((dt0/f)*f)*f...  -> (step+1) roundings; sums as for constant
            tol = 4.0 * MAX_STEPS * EPS * maxabs + 12.0 * EPS * abs(gap)
            if m < 1 or abs(gap - m * unit) > tol:
                bad.append(("gap is not a positive multiple of dt0*factor**i",
                            f"call {step}: gap {gap!r} after {prev_a!r}, unit dt0*f**{step - 1}={unit!r}, "
                            f"gap/unit={gap / unit!r} (tolerance {tol:.3g})"))
            elif m != 1 and q <= prev_a + unit - tol:
                bad.append(("gap differs from dt0*factor**i although nothing was skipped",
                            f"call {step}: query {q!r} <= previous answer {prev_a!r} + {unit!r} but gap is {m} units"))
            elif m > 2 and q <= prev_a + unit + tol:
                bad.append(("gap differs from dt0*factor**i although nothing was skipped",
                            f"call {step}: query {q!r} ~ previous answer {prev_a!r} + {unit!r} but gap is {m} units"))
            out = _advance_class(a, q, prev_a, tol_q, unit, m)
    elif cls == "GeometricInterrupts":
        s, f = g["scale"], g["factor"]
        k = round(math.log(a / s) / math.log(f)) if a > 0 else None
        # one pow and one product: a few ulp
        if k is None or abs(a - s * f**k) > 8.0 * EPS * a:
            bad.append(("off lattice", f"call {step}: answer {a!r} is not scale*factor**k "
                        f"(log(a/scale)/log(factor)={math.log(a / s) / math.log(f) if a > 0 else None!r})"))
        elif step == 0:
            out = "init"
        else:
            kp = round(math.log(prev_a / s) / math.log(f))
            below = s * f ** (k - 1)
            if a == q:
                out = "exact-hit"
            elif k - kp == 1:
                out = "advance1"
            elif below >= q + tol_q and below > prev_a:
                out = "catch-up-not-earliest"
            else:
                out = "catch-up"
    else:  # FixedInterrupts: reference model
        lst = g["interrupts"]
        if step == 0:
            jp = -1
        elif prev_a == INF:
            jp = len(lst)
        else:
            jp = _index(lst, prev_a)
        j = jp + 1
        while j < len(lst) and lst[j] < q:
            j += 1
        exp = float(lst[j]) if j < len(lst) else INF
        if a != exp:
            bad.append(("differs from reference model", f"call {step}: query {q!r} -> answer {a!r}, first not-yet-passed "
                        f"element >= query is {exp!r} (previous answer {prev_a!r})"))
        if exp == INF:
            out = "exhausted" if jp < len(lst) else "exhausted-again"
        elif a == q:
            out = "exact-hit"
        elif j == jp + 1:
            out = "next-element"
        else:
            out = "skipped-elements"
    return bad, ("bad" if bad else out)


def _advance_class(a, q, prev_a, tol_q, unit, m):
    if a == q:
        return "exact-hit"
    if m == 1:
        return "advance1"
    if a - unit >= q + tol_q and a - unit > prev_a:
        return "catch-up-not-earliest"
    return "catch-up"


# ----------------------------------------------------------------------------------------------
# single history (replay) and BFS
# ----------------------------------------------------------------------------------------------


class Raised:
    """stands for the answer of a call that raised (never a documented refusal for these classes)"""

    def __init__(self, exc):
        self.name = type(exc).__name__
        self.text = f"{self.name}: {str(exc)[:200]}"

    def __eq__(self, other):
        return isinstance(other, Raised) and other.text == self.text

    def __hash__(self):
        return hash(self.text)

    def __repr__(self):
        return f"<raised {self.text}>"


def _ask(method, q):
    """call initialize/next of the real object; the answer as a Python float"""
    try:
        a = method(q)
    except CaseTimeoutTypes:
        raise
    except Exception as exc:  # noqa: BLE001
        return Raised(exc)
    try:
        return float(a)
    except Exception:  # noqa: BLE001
        return a


def _viol(P, kind, msg, hist, trace=None):
    return {
        "sig": f"{P['cls']}|{P.get('family') or P['label']}|{kind}",
        "msg": f"{kind}: {msg}; {P['label']}; history {[MOVES[m] for m in hist]}",
        "detail": {"params": _public(P), "moves": [MOVES[m] for m in hist], "trace": trace},
        "case": {"params": _public(P), "history": list(hist)},
        "fn": "checks.c09:run_history",
    }


def _public(P):
    return {k: v for k, v in P.items() if not k.startswith("_")}


def _run(P, hist):
    """execute one history on a fresh real object; returns (violations, object, q, a, trace)"""
    P = dict(P)
    obj = build(P)
    q = float(P["t_init"])
    a = _ask(obj.initialize, q)
    trace = [(q, a)]
    bad, _ = check_step(P, 0, q, a, None, None)
    viol = [_viol(P, k, m, [], trace) for k, m in bad]
    for i, mv in enumerate(hist):
        if viol:
            break
        r = a if math.isfinite(a) else q
        q2 = query(mv, r, period(P, i, a), q)
        a2 = _ask(obj.next, q2)
        trace.append((q2, a2))
        bad, _ = check_step(P, i + 1, q2, a2, q, a)
        viol += [_viol(P, k, m, hist[: i + 1], trace) for k, m in bad]
        q, a = q2, a2
    return viol, obj, q, a, trace


def run_history(case):
    """replay: re-execute a single history (list of move indices) from scratch and re-check it"""
    viol, *_ = _run(case["params"], list(case["history"]))
    return {"v": viol}


def bfs(case):
    """BFS over all histories of one parameter set up to the depth bound, with state merging.

    Level d of the search holds the states whose shortest history has d calls of ``next``; a state
    reached again (at the same or a deeper level) is not expanded again - the history through it
    has at most as many calls left as the first one had."""
    import collections

    P = dict(case["params"])
    depth, nmoves = case["depth"], case["nmoves"]
    keyed_step = P["cls"] == "LogarithmicInterrupts"  # its oracle depends on the call number
    counts = collections.Counter()
    viols, seen_kinds = [], set()
    executed = 0

    obj = build(P)
    q0 = float(P["t_init"])
    a0 = _ask(obj.initialize, q0)
    executed += 1
    bad, out = check_step(P, 0, q0, a0, None, None)
    counts[out] += 1
    if bad:
        viols = [_viol(P, k, m, [], [(q0, a0)]) for k, m in bad]
        return {"v": viols, "n": 1, "states": 1, "transitions": 0, "outs": [f"{P['cls']}:bad"]}

    root = (canon(obj), q0, a0, 0)
    states = {root: None}  # state -> (parent state, move) of its first (shortest) history
    second = {}  # state -> (parent state, move) of one other history merged into it
    level = {root: 0}
    frontier = [(root, dict(obj.__dict__))]  # snapshots are kept for the current level only
    transitions = 0
    cap = None

    def path(k):
        h = []
        while states[k] is not None:
            k, mv = states[k]
            h.append(mv)
        return h[::-1]

    for d in range(depth):
        nxt = []
        for k, snap in frontier:
            q, a = k[1], k[2]
            r = a if math.isfinite(a) else q
            p = period(P, d, a)
            for mv in range(nmoves):
                q2 = query(mv, r, p, q)
                restore(obj, snap)
                a2 = _ask(obj.next, q2)
                executed += 1
                transitions += 1
                bad, out = check_step(P, d + 1, q2, a2, q, a)
                counts[out] += 1
                if bad:
                    for kind, msg in bad:
                        if kind not in seen_kinds:
                            seen_kinds.add(kind)
                            viols.append(_confirm(P, kind, msg, path(k) + [mv]))
                    continue  # a violating transition is not expanded further
                k2 = (canon(obj), q2, a2, d + 1 if keyed_step else 0)
                if k2 not in states:
                    states[k2] = (k, mv)
                    level[k2] = d + 1
                    nxt.append((k2, dict(obj.__dict__)))
                elif k2 not in second and states[k2] != (k, mv):
                    second[k2] = (k, mv)
            if len(states) > STATE_CAP:
                cap = f"{P['cls']}|{P['label']}: more than {STATE_CAP} states at depth {d + 1}"
                break
        if cap:
            break
        frontier = nxt
    del frontier

    # ---- validation of snapshot/restore and of the merge: histories re-executed from scratch ----
    def futures(o, q, a, n_calls):
        snap = dict(o.__dict__)
        r = a if math.isfinite(a) else q
        p = period(P, n_calls, a)
        res = []
        for mv in range(nmoves):
            q2 = query(mv, r, p, q)
            restore(o, snap)
            a2 = _ask(o.next, q2)
            res.append((q2, a2, canon(o)))
        return res

    replays = merged = 0
    if not viols:
        for k, first in states.items():
            if first is None:
                continue
            h1 = path(k)
            v, o1, q, a, _ = _run(P, h1)
            executed += len(h1) + 1
            replays += 1
            k_fresh = None if v else (canon(o1), q, a, len(h1) if keyed_step else 0)
            if k_fresh != k:
                viols.append(_viol(P, "explorer: history replayed from scratch reaches another state",
                                   f"{k_fresh} != {k}", h1))
                break
            if k not in second:
                continue
            h2 = path(second[k][0]) + [second[k][1]]
            v, o2, q, a, _ = _run(P, h2)
            executed += len(h2) + 1
            replays += 1
            merged += 1
            k_fresh = None if v else (canon(o2), q, a, len(h2) if keyed_step else 0)
            if k_fresh != k:
                viols.append(_viol(P, "explorer: history replayed from scratch reaches another state",
                                   f"{k_fresh} != {k}", h2))
                break
            if level[k] < depth:  # merged histories must have the same future
                f1, f2 = futures(o1, q, a, len(h1)), futures(o2, q, a, len(h2))
                executed += 2 * nmoves
                if f1 != f2:
                    mv = [x != y for x, y in zip(f1, f2)].index(True)
                    viols.append(_viol(P, "explorer: merged states have different futures",
                                       f"after {[MOVES[m] for m in h1]}: {f1[mv]}, after this history: {f2[mv]}",
                                       h2 + [mv]))
                    break

    cls = P["cls"]
    return {
        "v": viols,
        "n": executed,
        "states": len(states),
        "transitions": transitions,
        "traces": replays + 1,
        "keys": [f"{cls}|{P['label']}|{P['via']}|{i}" for i in range(len(states))],
        "outs": sorted(f"{cls}:{o}" for o in counts),
        "cap": cap,
        "info": {
            "cls": cls,
            "label": P["label"],
            "counts": dict(counts),
            "states": len(states),
            "transitions": transitions,
            "merged_states_checked": merged,
            "fresh_replays": replays,
            "max_depth": max(level.values()),
        },
    }


def _confirm(P, kind, msg, hist):
    """a failure is re-run once from scratch and must reproduce before it is reported"""
    again, *_ = _run(P, hist)
    sig = f"{P['cls']}|{P.get('family') or P['label']}|{kind}"
    for v in again:
        if v["sig"] == sig:
            return v
    return _viol(P, f"{kind} (seen with snapshot/restore, not reproduced from scratch)", msg, hist)


# ----------------------------------------------------------------------------------------------


def main(run):
    import collections

    # DESIGN.md asks for depth 5 / 7; state merging makes more affordable: 7 (= the designed thorough bound) / 8
    depth, depth_lattice = (7, 4) if run.tier == "quick" else (8, 6)
    nmoves = len(MOVES)
    psets = parameter_sets(run.seed)
    lsets = lattice_sets()
    order = {"LogarithmicInterrupts": 0, "FixedInterrupts": 1, "ConstantInterrupts": 2, "GeometricInterrupts": 3}

    def cases_of(sets, d):
        cases = [{"params": P, "depth": d, "nmoves": nmoves} for P in sets]
        # largest state spaces first (logarithmic schedules merge least)
        cases.sort(key=lambda c: (order[c["params"]["cls"]], -c["params"]["args"].get("factor", 0)))
        return cases

    res = run.explore("checks.c09:bfs", cases_of(psets, depth), mode="I", part="bfs", chunksize=1, limit=3000,
                      collect=True)
    res += run.explore("checks.c09:bfs", cases_of(lsets, depth_lattice), mode="I", part="lattice", chunksize=1,
                       limit=3000, collect=True)

    per_cls = collections.defaultdict(collections.Counter)
    outcome_counts = collections.defaultdict(collections.Counter)
    for _, r in res:
        info = r.get("info")
        if not info:
            continue
        c = per_cls[info["cls"]]
        c["parameter_sets"] += 1
        for f in ("states", "transitions", "merged_states_checked", "fresh_replays"):
            c[f] += info[f]
        c["max_depth"] = max(c["max_depth"], info["max_depth"])
        outcome_counts[info["cls"]].update(info["counts"])
    seqs = sum(nmoves**d for d in range(depth + 1))
    seqs_l = sum(nmoves**d for d in range(depth_lattice + 1))
    run.notes["depth_bound"] = {"bfs": depth, "lattice": depth_lattice, "DESIGN.md": 5 if run.tier == "quick" else 7}
    run.notes["query_alphabet"] = MOVES
    run.notes["query_alphabet_beyond_design"] = MOVES[N_DESIGN_MOVES:]
    run.notes["parameter_sets"] = {"bfs": len(psets), "lattice": len(lsets)}
    run.notes["query_sequences_represented"] = {
        "per_parameter_set": {"bfs": seqs, "lattice": seqs_l},
        "total": seqs * len(psets) + seqs_l * len(lsets),
        "how": "every state expands all moves, so the merged graph contains every move sequence up to the depth "
        "bound as a path; executed transitions are reported as `transitions`",
    }
    run.notes["per_class"] = {k: dict(v) for k, v in per_cls.items()}
    run.notes["transition_outcomes"] = {k: dict(v) for k, v in outcome_counts.items()}
    run.assumptions += [
        "NUMBA_DISABLE_JIT=1 (the interrupt classes contain no compiled code)",
        "state merging on (every entry of the real object's __dict__, last query, last answer, and the call "
        "number for LogarithmicInterrupts); expansion restores __dict__ snapshots; both are validated at run "
        "time: the shortest and one merged history of every state are re-executed from scratch on a fresh object "
        "and must reach the same state and the same successors",
        "lattice base of ConstantInterrupts is the time the schedule becomes active, max(t_init, t_start) "
        "(t_init if t_start is None), as documented for t_start; earliest-possible answers are not demanded "
        "(recorded as outcome classes catch-up / catch-up-not-earliest only)",
        f"tolerances: answer >= query - 4 eps max(|q|,|a|,|previous a|) (geometric: (4|ln(q/scale)|+8) eps q); constant lattice "
        f"{4 * MAX_STEPS} eps max|t|; logarithmic gap {4 * MAX_STEPS} eps max|t| + 12 eps gap; geometric 8 eps "
        "relative; fixed exact",
        "RealtimeInterrupts is excluded (wall clock, not deterministic); factor <= 1 for geometric, unsorted "
        "or repeated entries for fixed, dt below the float spacing of t, and re-initialisation of a used "
        "object (not a non-decreasing query sequence) are outside the property",
    ]
    return (
        f"BFS over all non-decreasing query histories built from the {nmoves}-move relative alphabet up to depth "
        f"{depth} ({seqs} query sequences per parameter set, represented by merged states) for {len(psets)} parameter "
        "sets of ConstantInterrupts/FixedInterrupts/GeometricInterrupts/LogarithmicInterrupts constructed directly, "
        "via parse_interrupt (number, list, tuple, ndarray, 'geometric(..)' string, instance), via copy() and via "
        f"a tracker, and up to depth {depth_lattice} for a product lattice of {len(lsets)} further parameter sets; "
        "every transition of the real object is checked (answer >= query, strictly increasing, lattice membership / "
        "reference model); distinct = distinct merged states (object attributes, last query, last answer)"
    )
