"""C07 - observation does not perturb a simulation; exact step and time accounting.

Exhaustive enumeration of (solver, backend, dt, t_start, equation) x time ranges x sets of read-only
recording trackers; every run is compared with the tracker-free run and with `steps`
applications of the solver's own one-step map.  See DESIGN.md, C07.
"""

from __future__ import annotations

import itertools
import math

PROPERTY = "C07"
LEVEL = "exploration"

SOLVERS = ["euler", "runge-kutta", "implicit", "crank-nicolson", "adams-bashforth"]
BACKENDS = ["numpy", "numba"]
DTS = [1.0, 0.5, 0.25, 0.1, 0.2, 0.3, 0.7, 1 / 3, 1e-3, 0.01]
T0S = [0.0, 0.1, 1.5, -2.0, 1e3]

PI2 = math.pi / 2
SINGLES = (
    [["const", m] for m in (1 / 3, 0.5, 0.999, 1, 1.001, 1.5, 2, 2.5, 3, 7 / 3, PI2, 10)]
    + [["constnum", 1.25], ["const_abs", 1, 0.0], ["const_abs", 1.5, -1.0]]
    + [
        ["fixed", [1, 3]],
        ["fixed", [0.4, 2.7]],
        ["fixed", [1, 1.0000001, 2]],
        ["fixed", [2, "end+5"]],
        ["fixed", [0, 0.5, 0.5000001, "end+0"]],
    ]
    + [["log", 1, 1], ["log", 1, 1.5], ["log", 0.5, 2]]
    + [["geo", 1, 2], ["geo", 0.3, 1.7]]
)
PAIR_POOL = [
    ["const", 1],
    ["const", 1.5],
    ["const", PI2],
    ["const", 1 / 3],
    ["fixed", [0.4, 2.7]],
    ["fixed", [1, 1.0000001, 2]],
    ["log", 1, 1.5],
    ["geo", 1, 2],
]
TRIPLE_POOL = [["const", 7 / 3], ["const", 0.999], ["fixed", [1, 3]], ["log", 0.5, 2], ["geo", 0.3, 1.7]]


def tracker_sets(tier):
    sets = [[]] + [[s] for s in SINGLES]
    sets += [list(p) for p in itertools.combinations(PAIR_POOL, 2)]
    sets += [[p, p] for p in PAIR_POOL[:3]]  # two trackers with equal schedules
    sets += [list(p) for p in itertools.combinations(TRIPLE_POOL, 3)]
    if tier == "thorough":
        sets += [list(p) for p in itertools.combinations(SINGLES, 2) if list(p) not in sets]
    return sets


def ranges(tier):
    """time ranges in units of dt: (multiple, is_whole_number_of_steps)"""
    whole = list(range(1, 14)) + [20, 40]
    if tier == "thorough":
        whole += [64, 100]
    out = [(float(n), True) for n in whole]
    for n in (0, 2, 5) if tier == "quick" else (0, 1, 2, 5, 12):
        for f in (0.25, 0.5, 0.75, 1e-7, 1 - 1e-7):
            if n + f > 1e-6:
                out.append((n + f, False))
    return out


def ulp(x):
    return math.ulp(max(abs(x), 1e-300))


def group(case):
    """all ranges x tracker sets for one (solver, backend, dt, t0, time-dependent?) group"""
    from checks import _sim

    L = _sim.lib()
    np = L["np"]
    solver, backend, dt, t0, td = case["solver"], case["backend"], case["dt"], case["t0"], case["td"]
    only = case.get("only")  # replay of a single (range, tracker set)
    hook = bool(case.get("hook"))
    skind = case.get("state", "scalar")  # scalar | complex (complex rate: real state is converted) | collection
    rate = (-0.5 + 0.3j) if skind == "complex" else -0.5
    eq = L["Lin"](rate, poly=(0.3, -0.2, 0.1) if td else None, hook=hook)
    grid = L["UnitGrid"]([2])

    def make_state():
        if skind == "collection":
            return L["FieldCollection"]([L["ScalarField"](grid, [1.0, 2.0]), L["ScalarField"](grid, [-0.5, 0.25])])
        return L["ScalarField"](grid, [1.0, 2.0])  # real even for the complex rate: the controller must convert a copy

    s0 = make_state()
    s0_bytes = s0._data_full.tobytes()
    from pde.solvers.base import SolverBase

    viol, n, keys, outs = [], 0, [], set()
    tier = case.get("tier", "quick")

    def bad(clause, mult, tset, **detail):
        c = dict(case)
        c["only"] = [mult, tset]
        viol.append(
            {
                "sig": f"{solver}|{backend}|{'time-dependent' if td else 'autonomous'}{'+post-step hook' if hook else ''}"
                f"{'' if skind == 'scalar' else '+' + skind + ' state'}|{clause}",
                "msg": f"{clause}: dt={dt} t0={t0} range={mult}*dt trackers={tset} {detail}",
                "detail": detail,
                "case": c,
                "fn": "checks.c07:group",
            }
        )

    for mult, whole in ranges(tier):
        if only and mult != only[0]:
            continue
        t1 = t0 + mult * dt
        ref = None
        traj = None
        for tset in tracker_sets(tier):
            if only and tset != only[1]:
                if tset:  # the tracker-free reference run is always needed
                    continue
            trackers = [
                L["Rec"](L["make_interrupt"](spec, dt, t0, t1)) for spec in tset
            ]
            res, info = eq.solve(
                s0, (t0, t1), dt=dt, solver=solver, backend=backend, tracker=trackers or None, ret_info=True
            )
            n += 1
            steps = info["solver"]["steps"]
            tf = info["controller"]["t_final"]
            calls = 1 + sum(len(t.ts) for t in trackers)
            if hook and info["solver"].get("post_step_data") != float(steps):
                bad("post-step hook data is not carried through the run", mult, tset,
                    post_step_data=info["solver"].get("post_step_data"), steps=steps)
            ttol = 1e-9 * dt + 4 * (calls + 1) * ulp(max(abs(t0), abs(t1)))
            # caller's state untouched, result not aliased
            if s0._data_full.tobytes() != s0_bytes:
                bad("initial state modified", mult, tset)
                s0 = make_state()
            if res is s0 or np.shares_memory(res._data_full, s0._data_full):
                bad("result aliases the initial state", mult, tset)
            # accounting valid for every range
            if abs(tf - (t0 + steps * dt)) > ttol:
                bad("t_final != t_start + steps*dt", mult, tset, t_final=tf, steps=steps)
            if not abs(tf - t1) < dt * (1 + 1e-9):
                bad("|t_final - t_end| >= dt", mult, tset, t_final=tf, t_end=t1)
            if whole:
                if steps != int(mult):
                    bad("wrong number of steps for an N-step range", mult, tset, steps=steps)
                if abs(tf - t1) > ttol:
                    bad("t_final != t_end for an N-step range", mult, tset, t_final=tf, t_end=t1)
            # reference trajectory: `steps` applications of the solver's own one-step map
            if traj is None or len(traj) <= steps:
                sol = SolverBase.from_name(solver, pde=eq, backend=backend)
                st = s0.copy(dtype=complex) if skind == "complex" else s0.copy()
                stepper = sol.make_stepper(state=st, dt=dt)
                traj = [st.data.copy()]
                t = t0
                for _ in range(max(steps, int(mult) + 2)):
                    t = stepper(st, t, t + dt)
                    traj.append(st.data.copy())
            exp = traj[steps]
            if td:
                ok = np.allclose(res.data, exp, rtol=1e-12, atol=1e-13)
            else:
                ok = res.data.tobytes() == exp.tobytes()
            if not ok:
                bad("final state != steps applications of the one-step map", mult, tset,
                    got=res.data.tolist(), exp=exp.tolist(), steps=steps)
            # independence from observation
            if not tset:
                ref = (res.data.copy(), steps, tf)
            elif whole and ref is not None:
                if td:
                    same = np.allclose(res.data, ref[0], rtol=1e-12, atol=1e-13)
                else:
                    same = res.data.tobytes() == ref[0].tobytes()
                if not same:
                    bad("final state depends on the trackers", mult, tset,
                        got=res.data.tolist(), ref=ref[0].tolist())
                if steps != ref[1]:
                    bad("step count depends on the trackers", mult, tset, steps=steps, ref=ref[1])
            # every tracker initialised and finalised exactly once; observes genuine states
            for k, tr in enumerate(trackers):
                if tr.init != 1 or tr.fin != 1:
                    bad("tracker not initialised/finalised exactly once", mult, tset, k=k, init=tr.init, fin=tr.fin)
                for tt, val in zip(tr.ts, tr.vals):
                    m = (tt - t0) / dt
                    if abs(m - round(m)) > 1e-6 * max(1, abs(m)) or not 0 <= round(m) < len(traj):
                        bad("tracker called at a time that is no simulation time", mult, tset, t=tt)
                        break
                    e = traj[round(m)]
                    same = (
                        np.allclose(val, e, rtol=1e-12, atol=1e-13) if td else val.tobytes() == e.tobytes()
                    )
                    if not same:
                        bad("tracker saw a state that is not the state after n steps", mult, tset, t=tt)
                        break
            outs.add(f"steps-N={steps - int(mult)}")
            # non-trivial: the tracker-free reference runs and runs in which a tracker interrupted the
            # simulation at least once after the start
            if not tset or any(len(tr.ts) >= 2 for tr in trackers):
                keys.append(f"{solver}|{backend}|{dt}|{t0}|{td}|{hook}|{skind}|{mult}|{tset}")
            if len(viol) > 20:
                break
        if len(viol) > 20:
            break
    return {"v": viol[:20], "n": n, "keys": keys, "outs": sorted(outs)}


def main(run):
    tier = run.tier
    cases = []
    for solver in SOLVERS:
        for backend in BACKENDS:
            for dt in DTS:
                for t0 in T0S:
                    for td in (False, True):
                        if td and tier == "quick" and not (dt in (0.1, 1 / 3, 0.7) and t0 in (0.0, -2.0)):
                            continue
                        cases.append(
                            {"solver": solver, "backend": backend, "dt": dt, "t0": t0, "td": td, "tier": tier}
                        )
                        # other kinds of state: a real state under a complex rate (converted copy), a collection
                        if not td and (tier == "thorough" or (dt in (0.1, 0.3) and t0 in (0.0, 1.5))):
                            for sk in ("complex", "collection"):
                                cases.append({"solver": solver, "backend": backend, "dt": dt, "t0": t0, "td": False,
                                              "state": sk, "tier": tier})
                        # an equation with a stateful post-step hook (scalar hook data fed back into the state)
                        if not td and (tier == "thorough" or (dt in (0.1, 1 / 3, 0.5) and t0 in (0.0, -2.0))):
                            cases.append(
                                {"solver": solver, "backend": backend, "dt": dt, "t0": t0, "td": False, "hook": True, "tier": tier}
                            )
    run.explore("checks.c07:group", cases, mode="I", part="controller-runs", chunksize=1, limit=1200)
    # mode J: the compiled steppers (one compile per group) through a reduced range/tracker alphabet
    jcases = []
    jdts = [0.1, 1 / 3] if tier == "quick" else [1.0, 0.1, 1 / 3, 0.7]
    for solver in SOLVERS:
        for dt in jdts:
            for td in (False, True):
                if tier == "quick" and td and dt != 0.1:
                    continue
                jcases.append(
                    {"solver": solver, "backend": "numba", "dt": dt, "t0": -2.0 if td else 0.0, "td": td, "tier": "J"}
                )
        jcases.append({"solver": solver, "backend": "numba", "dt": 0.1, "t0": 0.0, "td": False, "hook": True, "tier": "J"})
    run.explore("checks.c07:group_jit", jcases, mode="J", part="controller-runs-jit", chunksize=1, limit=2400)
    run.notes["tracker_sets"] = len(tracker_sets(tier))
    run.notes["ranges"] = len(ranges(tier))
    run.assumptions += [
        "mode I (NUMBA_DISABLE_JIT=1) executes the same stepper/controller source as the compiled run; "
        "mode J re-runs a reduced alphabet with really compiled steppers",
        "t_final tolerances: 1e-9*dt + 4*(calls+1)*ulp(max|t|) (one rounding per stepper call)",
        "dt, t_start, ranges and interrupt parameters come from fixed lattices (incl. 0.1*3, x.5 rounding, 1e3 offset)",
    ]
    return (
        "all (solver, backend, dt, t_start, autonomous/time-dependent) groups x all time ranges (whole "
        "numbers of steps and fractional) x all tracker sets (none, 23 single schedules, all pairs/triples "
        "from reduced pools); each run compared with the tracker-free run (bit-identical for autonomous) and "
        "with `steps` applications of the solver's one-step map; distinct = distinct (group, range, tracker set) in which the simulation was actually interrupted by a tracker after the start (plus the tracker-free reference runs)"
    )


def group_jit(case):
    """same oracle with really compiled steppers; each solve() compiles, so the alphabet is reduced"""
    case = dict(case)
    case["tier"] = "J"
    return _group_reduced(case)


def _group_reduced(case):
    import checks.c07 as me

    saved = (me.ranges, me.tracker_sets)
    try:
        me.ranges = lambda tier: [(1.0, True), (3.0, True), (7.0, True), (2.5, False), (5 + 1e-7, False)]
        me.tracker_sets = lambda tier: [
            [],
            [["const", 1]],
            [["const", PI2]],
            [["const", 1 / 3], ["fixed", [0.4, 2.7]]],
            [["log", 1, 1.5], ["geo", 1, 2], ["const", 7 / 3]],
        ]
        return group(case)
    finally:
        me.ranges, me.tracker_sets = saved
