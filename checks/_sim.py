"""Shared simulation driver for C06/C07/C08: a linear test equation, recording (and optionally
raising) trackers, interrupt construction from JSON specs and exact one-step reference maps."""

from __future__ import annotations

import math

_CACHE: dict = {}


def lib():
    """import py-pde lazily (inside workers) and build the harness classes once"""
    if _CACHE:
        return _CACHE
    import numpy as np
    from pde import FieldCollection, MemoryStorage, ScalarField, UnitGrid
    from pde.pdes.base import PDEBase
    from pde.trackers.base import FinishedSimulation, TrackerBase
    from pde.trackers.interrupts import (
        ConstantInterrupts,
        FixedInterrupts,
        GeometricInterrupts,
        LogarithmicInterrupts,
    )

    class Lin(PDEBase):
        """du/dt = a*u + g(t) with optional logging of the times the rate is evaluated at"""

        def __init__(self, a=-0.5, poly=None, log=None, hook=False):
            super().__init__()
            self.hook = hook
            self.a = a
            self.poly = tuple(poly) if poly else None  # g(t) = sum_k poly[k] t**k
            self.log = log
            self.complex_valued = isinstance(a, complex)

        def make_post_step_hook(self, state, backend="numpy"):
            """stateful hook: counts the steps (scalar data) and feeds the count back into the state"""
            if not self.hook:
                raise NotImplementedError

            def post_step_hook(state_data, t, post_step_data):
                state_data *= 1 + 1e-3 * post_step_data
                post_step_data += 1.0
                return state_data, post_step_data

            return post_step_hook, 0.0

        def g(self, t):
            if self.poly is None:
                return 0.0
            return sum(c * t**k for k, c in enumerate(self.poly))

        def evolution_rate(self, state, t=0):
            if self.log is not None:
                self.log.append(t)
            return self.a * state + self.g(t)

        def make_evolution_rate(self, state, backend):
            a, poly, log = self.a, self.poly, self.log
            if poly is None:
                if log is None:

                    def rhs(x, t):
                        return a * x

                else:

                    def rhs(x, t):
                        log.append(t)
                        return a * x

            else:
                c0, c1, c2, c3 = (tuple(poly) + (0.0,) * 4)[:4]
                if log is None:

                    def rhs(x, t):
                        return a * x + (c0 + c1 * t + c2 * t**2 + c3 * t**3)

                else:

                    def rhs(x, t):
                        log.append(t)
                        return a * x + (c0 + c1 * t + c2 * t**2 + c3 * t**3)

            return rhs

    class Rec(TrackerBase):
        """read-only tracker recording (t, state bytes); raises at its k-th call if armed"""

        def __init__(self, interrupts, raise_at=None, exc=None, msg=None, log=None, ident=0):
            super().__init__(interrupts)
            self.ts, self.vals, self.fin, self.init = [], [], 0, 0
            self.raise_at, self.exc, self.msg = raise_at, exc, msg
            self.log, self.ident = log, ident

        def initialize(self, field, info=None):
            self.init += 1
            return super().initialize(field, info)

        def handle(self, field, t):
            self.ts.append(float(t))
            self.vals.append(field.data.copy())
            if self.log is not None:
                self.log.append((self.ident, float(t)))
            if self.raise_at is not None and len(self.ts) - 1 == self.raise_at:
                if self.exc == "FinishedSimulation":
                    raise FinishedSimulation(self.msg) if self.msg else FinishedSimulation()
                raise StopIteration(self.msg) if self.msg else StopIteration()

        def finalize(self, info=None):
            self.fin += 1

    def make_interrupt(spec, dt, t0, t1):
        """spec is a JSON-able description relative to dt / t_start"""
        kind = spec[0]
        if kind == "const":  # D = m*dt
            return ConstantInterrupts(spec[1] * dt)
        if kind == "const_abs":  # D = m*dt, active from the ABSOLUTE time spec[2] on (e.g. exactly 0.0, a falsy value)
            return ConstantInterrupts(spec[1] * dt, t_start=spec[2])
        if kind == "constnum":  # plain number -> parse_interrupt
            return spec[1] * dt
        if kind == "fixed":  # list of offsets in units of dt from t_start; "end+k" allowed
            ts = []
            for m in spec[1]:
                if isinstance(m, str):
                    ts.append(t1 + float(m[3:]) * dt)
                else:
                    ts.append(t0 + m * dt)
            return FixedInterrupts(ts)
        if kind == "log":
            return LogarithmicInterrupts(spec[1] * dt, spec[2])
        if kind == "geo":
            return GeometricInterrupts(spec[1] * dt, spec[2])
        raise ValueError(kind)

    _CACHE.update(locals())
    _CACHE["np"] = np
    return _CACHE


def stable_factor(solver: str, z):
    """exact amplification factor of one step of the scheme on du/dt = a u, z = a dt"""
    if solver == "euler":
        return 1 + z
    if solver == "runge-kutta":
        return 1 + z + z**2 / 2 + z**3 / 6 + z**4 / 24
    if solver == "implicit":
        return 1 / (1 - z)
    if solver == "crank-nicolson":
        return (1 + z / 2) / (1 - z / 2)
    raise ValueError(solver)


def ab2_sequence(z, u0, n):
    """Adams-Bashforth 2 on du/dt = a u with the package's start u_{-1} = (1 - z) u_0"""
    prev, cur = (1 - z) * u0, u0
    out = [u0]
    for _ in range(n):
        prev, cur = cur, cur + z * (1.5 * cur - 0.5 * prev)
        out.append(cur)
    return out


def is_int_multiple(x, tol=1e-6):
    return abs(x - round(x)) <= tol * max(1.0, abs(x))


def fmt(x):
    if isinstance(x, float) and x == math.floor(x) and abs(x) < 1e6:
        return str(int(x))
    return repr(x)
