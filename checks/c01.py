"""C01 - differential operators are second-order consistent discretisations.

(a) *The operator is the documented stencil*: for every (grid, operator, option, backend) the raw
    operator ``grid.make_operator_no_bc`` is applied to every unit input of the padded array (all
    admissible components, ghost and corner cells included; all pairs for the quadratic
    ``gradient_squared``) and compared with a reference stencil that is derived mechanically: the
    continuum operator of the coordinate system (sympy, via Cartesian embedding - no hand-written
    curvilinear formula) with derivatives replaced by central / forward / backward differences on
    cell centres; for the conservative spherical variants the finite-volume (flux) form.
(b) *The stencil is consistent at the stated order*: refinement study on smooth fields sampled
    analytically including the ghost cells, against the exact continuum value.

See DESIGN.md, C01.
"""

from __future__ import annotations

import itertools
import math

from checks._grids import geometry, grid_name, make_grid

PROPERTY = "C01"
LEVEL = "exploration"

SENT = 12345.678


def system_of(geo):
    k = geo["kind"]
    if k in ("unit", "cart"):
        return f"cart{geo['num_axes']}"
    return k


# admissible input elements on spherically symmetric grids (combinations that the operators accept)
def elements_for(system, op, rank_in, dim):
    if rank_in == 0:
        return [None]
    if system != "sph":
        if rank_in == 1:
            return [(((i,), 1),) for i in range(dim)]
        return [(((i, j), 1),) for i in range(dim) for j in range(dim)]
    if rank_in == 1:
        return [(((0,), 1),), (((2,), 1),)] if op == "divergence" else [(((0,), 1),)]
    # tensors on spherical grids
    els = [(((0, 0), 1),), (((1, 1), 1), ((2, 2), 1))]
    if op == "tensor_divergence":
        els += [(((1, 0), 1),), (((2, 0), 1),), (((0, 2), 1),), (((1, 2), 1), ((2, 1), -1))]
    else:
        els += [(((0, 1), 1), ((1, 0), -1))]
    return els


def el_name(el):
    return "scalar" if el is None else "+".join(f"{w:+d}*{''.join(map(str, idx))}" for idx, w in el)


def parse_op(name, geo):
    """returns (kind, axis, method) for the single-axis derivative operators"""
    for a, ax in enumerate(geo["axes"]):
        if name == f"d_d{ax}":
            return ("d1", a, "central")
        if name == f"d_d{ax}_forward":
            return ("d1", a, "forward")
        if name == f"d_d{ax}_backward":
            return ("d1", a, "backward")
        if name == f"d2_d{ax}2":
            return ("d2", a, "central")
    return None


# ----------------------------------------------------------------------------------------------
# reference difference operators on padded arrays (numpy slicing, independent of py-pde's loops)
# ----------------------------------------------------------------------------------------------


def _sl(n, axis, lo, hi):
    idx = [slice(1, -1)] * n
    idx[axis] = slice(lo, hi if hi != 0 else None)
    return tuple(idx)


def D1(U, axis, dx, method):
    n = U.ndim
    p, c, m = U[_sl(n, axis, 2, None)], U[_sl(n, axis, 1, -1)], U[_sl(n, axis, 0, -2)]
    if method == "central":
        return (p - m) / (2 * dx)
    if method == "forward":
        return (p - c) / dx
    return (c - m) / dx


def D2(U, axis, dx):
    n = U.ndim
    p, c, m = U[_sl(n, axis, 2, None)], U[_sl(n, axis, 1, -1)], U[_sl(n, axis, 0, -2)]
    return (p - 2 * c + m) / dx**2


def valid(U):
    return U[(slice(1, -1),) * U.ndim]


def conservative_reference(np, op, method, geo, comp_arrays):
    """finite-volume forms on spherical shells; comp_arrays: dict name -> padded 1d array"""
    r = np.array(geo["centres"][0])
    dr = geo["dx"][0]
    rl, rh = r - dr / 2, r + dr / 2
    V = (rh**3 - rl**3) / 3

    def face_avg(f):
        return (f[1:-1] + f[2:]) / 2, (f[:-2] + f[1:-1]) / 2

    def face_diff(f):
        return (f[2:] - f[1:-1]) / dr, (f[1:-1] - f[:-2]) / dr

    if op == "laplace":
        gh, gl = face_diff(comp_arrays["f"])
        return [(rh**2 * gh - rl**2 * gl) / V]
    if op == "divergence":
        v = comp_arrays["r"]
        if method == "central":
            vh, vl = face_avg(v)
        elif method == "forward":
            vh, vl = v[2:], v[1:-1]
        else:
            vh, vl = v[1:-1], v[:-2]
        return [(rh**2 * vh - rl**2 * vl) / V]
    if op == "tensor_divergence":
        th, tl = face_avg(comp_arrays["rr"])
        out_r = (rh**2 * th - rl**2 * tl) / V - (rh**2 - rl**2) / V * comp_arrays["pp"][1:-1]
        return [out_r, 0 * out_r, 0 * out_r]
    if op == "tensor_double_divergence":
        # (1/r^2) d_r ( r^2 T_rr' + 2 r T_rr - 2 r T_pp ) in flux form
        ah, al = face_avg(comp_arrays["rr"])
        dh, dl = face_diff(comp_arrays["rr"])
        ph, pl = face_avg(comp_arrays["pp"])
        Fh = rh**2 * dh + 2 * rh * ah - 2 * rh * ph
        Fl = rl**2 * dl + 2 * rl * al - 2 * rl * pl
        return [(Fh - Fl) / V]
    raise ValueError(op)


# ----------------------------------------------------------------------------------------------
# part (a)
# ----------------------------------------------------------------------------------------------


def stencil_case(case):
    import numpy as np

    from checks import _continuum as C

    spec, op, opts, backend = case["grid"], case["op"], dict(case.get("opts") or {}), case.get("backend", "numba")
    geo = geometry(spec)
    grid = make_grid(spec)
    system = system_of(geo)
    n, dim = geo["num_axes"], geo["dim"]
    dxs = geo["dx"]
    sig0 = f"{system}|{op}|{_optname(opts)}|{backend}"
    special = parse_op(op, geo)
    base_op = op if special is None else None
    if special is not None:
        rank_in, rank_out = 0, 0
    else:
        rank_in, rank_out = C.RANKS[op]
    method = opts.get("method", "central") if special is None else special[2]
    conservative = system == "sph" and opts.get("conservative", None if op != "tensor_divergence" else False)
    if system == "sph" and op in ("laplace", "divergence", "tensor_double_divergence") and "conservative" not in opts:
        conservative = True  # package default (config operators.conservative_stencil)
    try:
        impl = grid.make_operator_no_bc(op, backend=backend, **opts)
    except NotImplementedError as e:
        return {"nt": False, "ref": f"NotImplementedError: {op} {backend} {str(e)[:60]}", "out": "refused"}
    except RuntimeError as e:
        if backend == "scipy" and "not uniform" in str(e):
            return {"nt": False, "ref": f"scipy {op}: anisotropic grid refused (RuntimeError: discretization is not uniform)",
                    "out": "refused"}
        raise

    padded = tuple(s + 2 for s in geo["shape"])
    in_shape = (dim,) * rank_in + padded
    out_shape = (dim,) * rank_out + tuple(geo["shape"])
    centres = [np.array(c) for c in geo["centres"]]
    mesh = np.meshgrid(*centres, indexing="ij") if n > 1 else [centres[0]]
    viol, nexec, keys = [], 0, []
    refused = []

    def run_impl(arr, fill=SENT):
        nonlocal nexec
        out = np.full(out_shape, fill, dtype=arr.dtype)
        impl(arr, out)
        nexec += 1
        return out

    def bad(clause, **detail):
        viol.append({"sig": f"{sig0}|{clause}", "msg": f"{grid_name(spec)} {op} {opts} {backend}: {clause} {detail}",
                     "detail": detail})

    # ---------------- gradient_squared: quadratic form ----------------
    if op == "gradient_squared":
        central = opts.get("central", True)

        def ref_q(U):
            tot = 0
            for a in range(n):
                if central:
                    tot = tot + D1(U, a, dxs[a], "central") ** 2
                else:
                    tot = tot + 0.5 * (D1(U, a, dxs[a], "forward") ** 2 + D1(U, a, dxs[a], "backward") ** 2)
            return tot

        positions = list(np.ndindex(*padded))
        scale = 1.0 / min(dxs) ** 2
        rng = np.random.default_rng(case.get("seed", 0))
        tests = [("zero", np.zeros(padded))]
        for p in positions:
            for amp in (1.0, -2.0):
                U = np.zeros(padded)
                U[p] = amp
                tests.append((f"{amp}*e{p}", U))
        for p, q in itertools.combinations(positions, 2):
            U = np.zeros(padded)
            U[p] = 1.0
            U[q] = 1.0
            tests.append((f"e{p}+e{q}", U))
        tests.append(("generic", rng.uniform(-1, 1, size=padded)))
        for label, U in tests:
            got = run_impl(U)
            exp = ref_q(U)
            if not np.all(np.abs(got - exp) <= 1e-11 * scale * max(1.0, float(np.max(np.abs(U))) ** 2)):
                bad("differs from the documented squared-difference stencil", input=label,
                    err=float(np.max(np.abs(got - exp))))
                break
        keys.append(f"{grid_name(spec)}|{op}|{_optname(opts)}|{backend}")
        return {"v": viol[:3], "n": nexec, "keys": keys, "out": "quadratic"}

    # ---------------- linear operators ----------------
    elements = elements_for(system, op, rank_in, dim) if special is None else [None]
    positions = list(np.ndindex(*padded))
    max_entry = 0.0
    for el in elements:
        # reference coefficients
        if special is not None:
            coefs = None
        elif conservative:
            coefs = None
        else:
            c0 = C.coefficients(system, op, el, mesh, angles=(C.PHI0, C.THETA0))
            c1 = C.coefficients(system, op, el, mesh, angles=(C.PHI1, C.THETA1))
            if not all(np.allclose(c0[k], c1[k], rtol=1e-9, atol=1e-9) for k in c0):
                refused.append(f"{system} {op}: input element {el_name(el)} is not expressible on the symmetric grid")
                continue
            coefs = c0
            for k, v in coefs.items():
                if len(k) == 2 and k[0] != k[1] and np.max(np.abs(v)) > 1e-12:
                    raise RuntimeError("mixed derivative in a continuum operator: not supported by the reference")

        def reference(U):
            """reference action on the coefficient function U (padded array) of this element"""
            if special is not None:
                kind, a, meth = special
                return [D1(U, a, dxs[a], meth) if kind == "d1" else D2(U, a, dxs[a])]
            if conservative:
                names = {None: "f", (((0,), 1),): "r", (((2,), 1),): "p_vec", (((0, 0), 1),): "rr",
                         (((1, 1), 1), ((2, 2), 1)): "pp"}
                zero = np.zeros_like(U)
                arrays = {"f": zero, "r": zero, "rr": zero, "pp": zero}
                nm = names.get(el)
                if nm in arrays:
                    arrays[nm] = U
                elif nm is None and el is not None:
                    pass  # antisymmetric / ignored elements contribute nothing
                return conservative_reference(np, op, method, geo, arrays)
            outs = []
            nout = coefs[()].shape[0]
            for o in range(nout):
                tot = coefs[()][o] * valid(U)
                for a in range(n):
                    tot = tot + coefs[(a,)][o] * D1(U, a, dxs[a], method)
                    tot = tot + coefs[(a, a)][o] * D2(U, a, dxs[a])
                outs.append(tot)
            return outs

        if conservative and op == "tensor_divergence" and el not in ((((0, 0), 1),), (((1, 1), 1), ((2, 2), 1)), (((1, 2), 1), ((2, 1), -1))):
            refused.append("sph conservative tensor_divergence: element not admissible (asserted zero)")
            continue

        def make_input(U, factor=1.0):
            arr = np.zeros(in_shape, dtype=np.result_type(U.dtype, type(factor)))
            if el is None:
                arr[...] = U * factor
            else:
                for idx, w in el:
                    arr[idx] = w * U * factor
            return arr

        first = True
        for p in positions:
            U = np.zeros(padded)
            U[p] = 1.0
            try:
                got = run_impl(make_input(U))
            except AssertionError:
                refused.append(f"{system} {op}: AssertionError (symmetry check) for element {el_name(el)}")
                break
            exp = np.array(reference(U)).reshape(out_shape)
            max_entry = max(max_entry, float(np.max(np.abs(exp))))
            tol = 1e-11 * max(1.0, float(np.max(np.abs(exp))), 1.0 / min(dxs) ** (2 if rank_out == rank_in or op.endswith("laplace") else 1))
            if np.any(got == SENT):
                bad("output entries not written", element=el_name(el), pos=p)
                break
            if not np.all(np.abs(got - exp) <= tol):
                k = tuple(int(i) for i in np.unravel_index(int(np.argmax(np.abs(got - exp))), got.shape))
                corner = sum(1 for q, s in zip(p, padded) if q in (0, s - 1)) >= 2
                bad("stencil entry differs from the documented stencil" if not corner else "operator reads a corner cell",
                    element=el_name(el), input_pos=p, out_index=k, got=float(got[k]), expected=float(exp[k]))
                break
            if first:
                first = False
                # independence of the previous content of `out`, complex input = real + i real
                got2 = run_impl(make_input(U), fill=0.0)
                if not np.array_equal(got, got2):
                    bad("result depends on the previous content of out", element=el_name(el))
                if backend == "numba":
                    gotc = run_impl(make_input(U.astype(complex), factor=(1 + 2j)))
                    if not np.all(np.abs(gotc - (1 + 2j) * exp) <= 3 * tol):
                        bad("complex input is not treated as real + i*real", element=el_name(el))
        else:
            # superposition: the map is really linear (generic combination of all unit inputs)
            rng = np.random.default_rng(case.get("seed", 0) + 17)
            U = rng.uniform(-1, 1, size=padded)
            try:
                got = run_impl(make_input(U))
                exp = np.array(reference(U)).reshape(out_shape)
                if not np.all(np.abs(got - exp) <= 1e-10 * max(1.0, float(np.max(np.abs(exp))))):
                    bad("operator is not linear (superposition of unit inputs fails)", element=el_name(el),
                        err=float(np.max(np.abs(got - exp))))
            except AssertionError:
                pass
            keys.append(f"{grid_name(spec)}|{op}|{_optname(opts)}|{backend}|{el_name(el)}")
        if viol:
            break
    return {"v": viol[:3], "n": nexec, "keys": keys, "ref": refused, "nt": bool(keys),
            "out": "conservative" if conservative else ("derivative" if special else "mechanical")}


def _optname(opts):
    return ",".join(f"{k}={v}" for k, v in sorted(opts.items())) or "default"


# ----------------------------------------------------------------------------------------------
# part (b): refinement orders
# ----------------------------------------------------------------------------------------------


def smooth_components(system, op):
    """smooth test fields with the parity a smooth Cartesian field induces near r = 0"""
    import sympy as sp

    from checks import _continuum as C

    rank_in, _ = C.RANKS[op]

    def build(coords):
        if system.startswith("cart"):
            q = list(coords) + [0, 0]
            x, y, z = q[0], q[1], q[2]
            f = sp.exp(-(x**2)) * sp.cos(0.7 * y + 0.2) * (1 + 0.5 * z) + 0.3 * x**3 * (1 + y) - 0.2 * x * z
            if rank_in == 0:
                return f
            d = len(coords)
            v = [sp.sin(x + 0.3) * (1 + 0.4 * y) + z**2, sp.exp(-0.5 * x) * sp.cos(y) + 0.3 * z * x, sp.cos(x) * y + sp.sin(z + 0.1)][:d]
            if rank_in == 1:
                return v
            return [[v[i] * (1 + 0.1 * j) + 0.2 * (i + 1) * sp.cos(q[j] + 0.1 * i) * f for j in range(d)] for i in range(d)]
        if system == "polar":
            r = coords[0]
            if rank_in == 0:
                return sp.exp(-(r**2)) + r**4 / 7
            if rank_in == 1:
                return [r * sp.exp(-(r**2)), r * (1 + r**2) / 3]
            return [[sp.exp(-(r**2)), r**2 * sp.cos(r**2)], [r**2 * (1 + r**2) / 4, sp.exp(-(r**2)) + r**2]]
        if system == "cyl":
            r, z = coords
            if rank_in == 0:
                return sp.exp(-(r**2)) * sp.cos(z) + r**2 * z
            if rank_in == 1:
                return [r * sp.exp(-(r**2)) * (1 + z), sp.cos(r**2) * sp.sin(z), r * (1 + r**2) * sp.cos(z) / 3]
            return [
                [sp.exp(-(r**2)) * (1 + z), r * sp.cos(z), r * z],
                [r * sp.sin(z), sp.cos(r**2) * z, r * (1 + z**2) / 2],
                [r * (2 + z) / 3, r * sp.exp(-(z**2)), sp.exp(-(r**2)) * (1 + z) + r**2 * sp.cos(z)],
            ]
        r = coords[0]
        if rank_in == 0:
            return sp.exp(-(r**2)) + r**4 / 7
        if rank_in == 1:
            return [r * sp.exp(-(r**2)), 0, 0]
        a, b = sp.exp(-(r**2)), sp.exp(-(r**2)) + r**2 * sp.cos(r**2)
        return [[a, 0, 0], [0, b, 0], [0, 0, b]]

    return build


def order_case(case):
    import numpy as np

    from checks import _continuum as C

    system, hole, op, opts = case["system"], case["hole"], case["op"], dict(case.get("opts") or {})
    Ns = case.get("Ns", [16, 32, 64])
    rank_in, rank_out = C.RANKS[op]
    f_in, f_out = C.smooth_case(system, op, smooth_components(system, op))
    method = opts.get("method", "central")
    one_sided = method in ("forward", "backward")
    sig0 = f"{system}|{'hole' if hole else 'nohole'}|{op}|{_optname(opts)}"
    errs_all, errs_far, errs_first = [], [], []
    r_far = 0.75
    for N in Ns:
        if system.startswith("cart"):
            d = int(system[4])
            bounds = [[-0.4, 1.0], [0.1, 1.3], [-0.5, 0.3]][:d]
            shape = [N, N + N // 4][:d] if d < 3 else [N, N // 2, N // 2]
            spec = ["cart", bounds, shape, [False] * d]
        elif system == "polar":
            spec = ["polar", [0.5, 2.0] if hole else 2.0, N]
        elif system == "sph":
            spec = ["sph", [0.5, 2.0] if hole else 2.0, N]
        else:
            spec = ["cyl", [0.5, 2.0] if hole else 2.0, [-1.0, 1.5], [N, N + N // 2], False]
        geo = geometry(spec)
        grid = make_grid(spec)
        n = geo["num_axes"]
        full_axes = [np.r_[c[0] - dx, c, c[-1] + dx] for c, dx in zip((np.array(c) for c in geo["centres"]), geo["dx"])]
        full = np.meshgrid(*full_axes, indexing="ij")
        val = np.meshgrid(*[np.array(c) for c in geo["centres"]], indexing="ij")
        with np.errstate(all="ignore"):
            data = np.array([np.broadcast_to(np.asarray(v, float), full[0].shape) for v in f_in(*full)])
            exact = np.array([np.broadcast_to(np.asarray(v, float), val[0].shape) for v in f_out(*val)])
        dim = geo["dim"]
        data = data.reshape((dim,) * rank_in + full[0].shape)
        exact = exact.reshape((dim,) * rank_out + val[0].shape)
        data = np.nan_to_num(data)  # ghost cells at r<0 of odd extensions are sampled analytically (finite)
        impl = grid.make_operator_no_bc(op, backend="numba", **opts)
        out = np.empty((dim,) * rank_out + tuple(geo["shape"]))
        impl(data, out)
        err = np.abs(out - exact).reshape(-1, *geo["shape"]).max(axis=0)
        errs_all.append(float(err.max()))
        if not system.startswith("cart"):
            r = val[0]
            errs_far.append(float(err[r >= r_far].max()))
            errs_first.append(float(err[0].max() if n > 1 else err[0]))
    viol = []

    def order(e):
        return [math.log2(e[i] / e[i + 1]) if e[i + 1] > 0 and e[i] > 0 else float("inf") for i in range(len(e) - 1)]

    # the asymptotic order is read off the finest refinement pair (coarser pairs are pre-asymptotic);
    # thresholds sit between the integer orders: a first-order scheme shows ~1.0, a second-order one -> 2
    need = 0.85 if one_sided else 1.7
    o_all = order(errs_all)
    detail = {"errors_all_cells": errs_all, "orders_all_cells": o_all, "errors_r>=0.75": errs_far,
              "errors_first_radial_cell": errs_first}
    noise = 1e-9  # errors this small are round-off dominated; no order is demanded below
    if errs_far:
        o_far = order(errs_far)
        detail["orders_r>=0.75"] = o_far
        if errs_far[-1] > noise and o_far[-1] < need:
            viol.append({"sig": f"{sig0}|order below {need} at fixed distance from r=0",
                         "msg": f"{sig0}: errors {errs_far} orders {o_far}", "detail": detail})
    exempt_first = system == "cyl" and op == "vector_laplace" and not hole
    if not one_sided or system.startswith("cart"):
        need_all = 0.85 if (exempt_first or one_sided) else 1.7
        if errs_all[-1] > noise and o_all[-1] < need_all:
            viol.append({"sig": f"{sig0}|order below {need_all} uniformly over all cells",
                         "msg": f"{sig0}: errors {errs_all} orders {o_all} (first radial cell: {errs_first})",
                         "detail": detail})
    return {"v": viol, "n": len(Ns), "key": sig0, "out": f"order~{min(4, max(0, round(min(o_all))))}",
            "info": detail}


# ----------------------------------------------------------------------------------------------
# mode J: every compiled kernel factory once (generic input against the same reference)
# ----------------------------------------------------------------------------------------------


def jit_case(case):
    return stencil_case({**case, "jit": True})


# ----------------------------------------------------------------------------------------------


def operator_variants(geo):
    """(name, opts) for every operator of the grid with its documented options"""
    system = system_of(geo)
    out = []
    methods = [{"method": m} for m in ("central", "forward", "backward")]
    ops = ["laplace", "gradient", "gradient_squared", "divergence", "vector_gradient", "tensor_divergence"]
    if system.startswith("cart") or system == "cyl":
        ops.append("vector_laplace")
    if system == "sph":
        ops.append("tensor_double_divergence")
    for op in ops:
        if op == "gradient_squared":
            out += [(op, {"central": True}), (op, {"central": False}), (op, {})]
        elif system == "sph" and op in ("laplace", "tensor_double_divergence"):
            out += [(op, {"conservative": True}), (op, {"conservative": False}), (op, {})]
        elif system == "sph" and op == "divergence":
            out += [(op, {"conservative": c, **m}) for c in (True, False) for m in methods] + [(op, {})]
        elif system == "sph" and op == "tensor_divergence":
            out += [(op, {"conservative": True}), (op, {"conservative": False}), (op, {})]
        elif (
            (system == "sph" and op in ("gradient", "vector_gradient"))
            or (system == "polar" and op == "gradient")
            or (system.startswith("cart") and op in ("gradient", "divergence", "vector_gradient", "tensor_divergence"))
        ):
            out += [(op, m) for m in methods] + [(op, {})]
        else:
            out.append((op, {}))
    for ax in geo["axes"]:
        out += [(f"d_d{ax}", {}), (f"d_d{ax}_forward", {}), (f"d_d{ax}_backward", {}), (f"d2_d{ax}2", {})]
    return out


STENCIL_GRIDS_QUICK = [
    ["unit", [1], [False]], ["unit", [2], [False]], ["cart", [[-1, 2]], [4], [False]], ["cart", [[1e-3, 3e-3]], [3], [True]],
    ["cart", [[0, 1], [-1, 3]], [2, 3], [False, False]], ["cart", [[0, 3], [0, 1]], [3, 1], [True, False]],
    ["cart", [[0, 1], [0, 2], [-3, 3]], [2, 3, 2], [False, True, False]],
    ["polar", [1, 2], 3], ["polar", 2, 4], ["polar", 1e3, 2],
    ["sph", 2, 3], ["sph", [0.5, 2], 4],
    ["cyl", [1, 2], [0, 1], [2, 3], False], ["cyl", 2, [-1, 1], [3, 2], True],
]
STENCIL_GRIDS_MORE = [
    ["unit", [6], [False]], ["cart", [[0, 1e3]], [5], [False]], ["cart", [[-5, -2]], [3], [False]],
    ["cart", [[0, 1], [0, 1]], [4, 4], [False, False]], ["cart", [[-2, -1], [5, 8]], [3, 4], [True, True]],
    ["cart", [[0, 1], [0, 2], [0, 3]], [3, 3, 3], [False, False, False]], ["cart", [[0, 3], [0, 2], [0, 1]], [4, 1, 2], [True, False, True]],
    ["polar", [0.5, 3], 6], ["polar", 1, 1], ["sph", 1, 6], ["sph", [1, 1.5], 2], ["sph", 1e-3, 3],
    ["cyl", [0.5, 1.5], [-2, 2], [4, 4], True], ["cyl", 1, [0, 3], [2, 5], False], ["cyl", 3, [0, 1], [5, 1], False],
]


def main(run):
    grids = STENCIL_GRIDS_QUICK + (STENCIL_GRIDS_MORE if run.tier == "thorough" else [])
    cases = []
    for spec in grids:
        geo = geometry(spec)
        for op, opts in operator_variants(geo):
            cases.append({"grid": spec, "op": op, "opts": opts, "backend": "numba", "seed": run.seed})
        if geo["kind"] in ("unit", "cart"):
            iso = len({round(d, 12) for d in geo["dx"]}) == 1
            for op in ("laplace", "gradient", "divergence", "vector_gradient", "vector_laplace", "tensor_divergence"):
                cases.append({"grid": spec, "op": op, "opts": {}, "backend": "scipy", "seed": run.seed})
                if op in ("gradient", "divergence", "vector_gradient", "tensor_divergence"):
                    for m in ("forward", "backward"):
                        cases.append({"grid": spec, "op": op, "opts": {"method": m}, "backend": "scipy", "seed": run.seed})
    run.explore("checks.c01:stencil_case", cases, mode="I", part="(a) stencil = mechanical discretisation", limit=900)
    # (b) orders
    ocases = []
    Ns = [16, 32, 64] if run.tier == "quick" else [16, 32, 64, 128]
    for system in ("cart1", "cart2", "cart3", "polar", "sph", "cyl"):
        fake = {"kind": {"cart1": "cart", "cart2": "cart", "cart3": "cart"}.get(system, system),
                "num_axes": {"cart1": 1, "cart2": 2, "cart3": 3, "polar": 1, "sph": 1, "cyl": 2}[system],
                "axes": []}
        for hole in ((False,) if system.startswith("cart") else (False, True)):
            for op, opts in operator_variants(fake):
                if op == "gradient_squared" and not opts:
                    continue
                n_here = Ns if system != "cart3" else [8, 16, 32]
                ocases.append({"system": system, "hole": hole, "op": op, "opts": opts, "Ns": n_here})
    run.explore("checks.c01:order_case", ocases, mode="I", part="(b) refinement orders", chunksize=1, limit=900)
    # mode J: one case per kernel factory and option on one small grid per family
    jgrids = [["cart", [[-1, 2]], [4], [False]], ["cart", [[0, 1], [-1, 3]], [2, 3], [False, False]],
              ["cart", [[0, 1], [0, 2], [-3, 3]], [2, 3, 2], [False, True, False]], ["polar", [1, 2], 3], ["sph", 2, 3],
              ["cyl", 2, [-1, 1], [3, 2], True]]
    jcases = []
    for spec in jgrids:
        geo = geometry(spec)
        for op, opts in operator_variants(geo):
            if run.tier == "quick" and (not opts and op in ("gradient", "divergence", "vector_gradient", "tensor_divergence", "gradient_squared")):
                continue  # the default equals method=central / central=True, compiled separately
            if run.tier == "quick" and op.startswith("d") and op[1] in "_2" and geo["num_axes"] > 1 and not op.endswith(geo["axes"][-1]) and not op.endswith(geo["axes"][-1] + "2"):
                continue
            jcases.append({"grid": spec, "op": op, "opts": opts, "backend": "numba", "seed": run.seed})
    run.explore("checks.c01:stencil_case", jcases, mode="J", part="(a) compiled kernels", chunksize=1, limit=1800)
    run.assumptions += [
        "reference stencil = sympy continuum operator (Cartesian embedding, evaluated at two generic angle pairs that must agree) "
        "with d -> central/forward/backward difference, d^2 -> three-point formula, coefficients at the cell centre; "
        "conservative spherical operators: finite-volume form with exact shell volumes",
        "on spherical grids only the input combinations the operators admit (symmetry check) are compared",
        "refinement study: N = 16/32/64 (8/16/32 in 3-d); observed order of the finest pair >= 1.7 (0.85 one-sided / exempted cells); errors below 1e-9 count as converged",
        "spectral operators, jax/torch backends are absent and not explored; the 9-point Laplacian is not the default and not explored",
    ]
    return (
        "(a) every (grid, operator incl. single-axis derivatives, documented option, backend numba/scipy): the raw operator on "
        "every unit input of the padded array (all admissible components, ghost and corner cells; all pairs for gradient_squared) "
        "vs the mechanically derived stencil; (b) every (coordinate system, hole, operator, option): observed order on smooth "
        "fields; distinct = distinct (grid, operator, option, backend, input element)"
    )
