"""C14 - saving and restoring grids and fields loses nothing.

Bounded-exhaustive exploration of the real code (DESIGN.md, C14).  Five parts, every one a complete
product of explicit alphabets (nothing is sampled):

``grid``        grid class x constructor parameters (incl. extreme scales: holes of 5e-324..1e-8, tiny / huge /
                nearly equal bounds, compared bit for bit) x python/numpy parameter types; every case runs all
                restore routes (``from_state(state)``, ``GridBase.from_state(dict)``, JSON
                ``state_serialized``, ``copy()``, ``copy.copy``, ``copy.deepcopy``, pickle)
``field``       grid x field class x dtype x label; routes ``attributes_serialized`` ->
                ``unserialize_attributes`` -> ``from_state(attrs, data)``, the same with the data assigned
                afterwards (the way a storage does it), plain ``attributes``, ``copy()``, deepcopy, pickle
``collection``  grid x member classes (mixed ranks) x dtype x collection label x member labels; same routes
``from_data``   ``FieldCollection.from_data(classes, grid, flat array)`` with / without ghost cells
``storage``     ``MemoryStorage.info["field_attributes"]``: write, rebuild a storage from (times, data, info)
                only, read the fields back

Oracle: the restored object has the same class, bounds (inner radius separately), shape, periodicity, axes,
and - when these agree - bitwise identical cell volumes / coordinates, equal state and ``==``; fields: class,
grid, label(s), dtype, data bitwise; ``from_data``: every component of every member is the corresponding
slice of the flat array.

Not a violation (recorded under refusals as an observation): an explicitly float32 ``FieldCollection`` comes
back as float64 with unchanged values from ``FieldCollection.copy()`` and from a storage read (which copies its
template), because ``copy(dtype=None)`` documents "determined from data automatically" = double.  The dtype is
still compared for single fields on all routes, for collections through attributes -> ``from_state``, deepcopy
and pickle, and for float64/complex128/mixed collections everywhere.

Signatures name the failing family, e.g. ``CylindricalSymGrid|hole|state loses inner radius|copy()``.  A
grid that is damaged on its way through a field/collection/storage keeps the *grid* prefix
(``<GridClass>|<hole?>|<what>|...``) so that cascades of a grid defect are matched with that defect.
Every violation carries a shrunk single-route replay case.
"""

from __future__ import annotations

import itertools
import json

PROPERTY = "C14"
LEVEL = "exploration"

RADIAL = ("PolarSymGrid", "SphericalSymGrid", "CylindricalSymGrid")
FIELD_CLASSES = ["ScalarField", "VectorField", "Tensor2Field"]
RANK = {"ScalarField": 0, "VectorField": 1, "Tensor2Field": 2}
DTYPES = ["float64", "float32", "complex128"]
# dtypes wider than a double: a restore that silently goes through double/cdouble (``number_array`` without
# dtype) keeps the dtype but rounds such values.  int64 entries lie beyond 2**53, longdouble entries need
# more than 53 mantissa bits.  Explored on a reduced (still complete) sub-product in quick, see main().
WIDE_DTYPES = ["int64", "longdouble"]
LABELS = [None, "phi", 'q"uo\\te ü\n']  # None, plain, one that needs JSON escaping

GRID_ROUTES = [
    "from_state(state)",
    "GridBase.from_state(dict)",
    "JSON state_serialized",
    "copy()",
    "copy.copy",
    "copy.deepcopy",
    "pickle",
]
FIELD_ROUTES = [
    "attributes_serialized",
    "attributes_serialized+assign data",
    "attributes",
    "copy()",
    "copy.deepcopy",
    "pickle",
]
STORAGE_ROUTES = ["info copied", "info through JSON"]


# ----------------------------------------------------------------------------------------------
# worker side: building things from JSON-able specs
# ----------------------------------------------------------------------------------------------


def _tup(x):
    """lists of a (replayed) JSON case are tuples for py-pde"""
    return tuple(_tup(v) for v in x) if isinstance(x, (list, tuple)) else x


def _npify(x):
    """the same parameter value, but as numpy scalar types"""
    import numpy as np

    if isinstance(x, (list, tuple)):
        return tuple(_npify(v) for v in x)
    if isinstance(x, bool):
        return np.bool_(x)
    if isinstance(x, int):
        return np.int64(x)
    if isinstance(x, float):
        return np.float64(x)
    return x


def make_grid(spec):
    import numpy as np
    from pde import CartesianGrid, CylindricalSymGrid, PolarSymGrid, SphericalSymGrid, UnitGrid

    cls = spec["cls"]
    as_np = bool(spec.get("np"))
    conv = _npify if as_np else (lambda v: v)

    def seq(v):  # shapes / flags: tuple (python) or ndarray (numpy variant)
        if isinstance(v, (list, tuple)):
            return np.array(v) if as_np else _tup(v)
        return conv(v)

    if cls == "UnitGrid":
        shape = spec["shape"]
        if as_np and not isinstance(shape, (list, tuple)):
            shape = [shape]  # UnitGrid accepts a bare python int only
        return UnitGrid(seq(shape), periodic=seq(spec["periodic"]))
    if cls == "CartesianGrid":
        bounds = np.array(spec["bounds"]) if as_np else spec["bounds"]
        return CartesianGrid(bounds, seq(spec["shape"]), periodic=seq(spec["periodic"]))
    if cls in ("PolarSymGrid", "SphericalSymGrid"):
        c = PolarSymGrid if cls == "PolarSymGrid" else SphericalSymGrid
        return c(conv(_tup(spec["radius"])), seq(spec["shape"]))
    if cls == "CylindricalSymGrid":
        return CylindricalSymGrid(
            conv(_tup(spec["radius"])),
            conv(_tup(spec["bounds_z"])),
            seq(spec["shape"]),
            periodic_z=conv(spec["periodic_z"]),
        )
    raise ValueError(cls)


def _tag(g):
    """feature class of a grid used in signatures"""
    if type(g).__name__ in RADIAL:
        return "hole" if float(g.axes_bounds[0][0]) > 0 else "no hole"
    return f"{g.dim}d"


def _gstr(g):
    """description of a grid that does not go through ``state`` (py-pde's repr does)"""
    bounds = ", ".join(f"({float(lo):g}, {float(hi):g})" for lo, hi in g.axes_bounds)
    return f"{type(g).__name__}[bounds=({bounds}), shape={tuple(g.shape)}, periodic={[bool(p) for p in g.periodic]}]"


def _fstr(f):
    extra = f"[{', '.join(type(m).__name__ for m in f)}], " if hasattr(f, "fields") else ""
    return f"{type(f).__name__}({extra}{_gstr(f.grid)}, dtype={f.dtype}, label={f.label!r})"


def _bits(a):
    import numpy as np

    a = np.asarray(a)
    return (str(a.dtype), tuple(a.shape), a.tobytes())


def _canon(x):
    """numeric canonical form of a grid state (tuple/list and int/float/numpy differences removed)"""
    import numpy as np

    if isinstance(x, dict):
        return {str(k): _canon(v) for k, v in sorted(x.items())}
    if isinstance(x, (list, tuple, np.ndarray)):
        return [_canon(v) for v in x]
    if isinstance(x, (bool, np.bool_)):
        return bool(x)
    if isinstance(x, (int, float, np.integer, np.floating)):
        return float(x)
    return x


def _unhex(x):
    """hex floats of an observation back to readable numbers (for messages only)"""
    if isinstance(x, list):
        return [_unhex(v) for v in x]
    if isinstance(x, str) and ("0x" in x or x in ("inf", "-inf", "nan")):
        try:
            return float.fromhex(x)
        except ValueError:
            return x
    return x


def _gprimary(g):
    radial = type(g).__name__ in RADIAL
    # float.hex: bounds have to survive bit for bit (python's repr/JSON round-trips floats exactly)
    b = [[float(lo).hex(), float(hi).hex()] for lo, hi in g.axes_bounds]
    inner = b[0][0] if radial else None
    if radial:
        b[0][0] = None  # the inner radius is compared on its own
    return {
        "class": type(g).__name__,
        "inner radius": inner,
        "axes_bounds": b,
        "shape": [int(s) for s in g.shape],
        "periodicity": [bool(p) for p in g.periodic],
        "axes": [list(g.axes), list(g.axes_symmetric), int(g.dim), int(g.num_axes)],
    }


def _gderived(g):
    import numpy as np

    return {
        "cell volumes": tuple(_bits(np.asarray(v, dtype=float)) for v in g.cell_volume_data)
        + (_bits(g.cell_volumes),),
        "cell coordinates": tuple(_bits(c) for c in g.axes_coords),
        "discretization": _bits(np.asarray(g.discretization, dtype=float)),
        "volume": float(g.volume),
        "state": _canon(g.state),
    }


def grid_diff(g, h, mech):
    """list of (what, detail) in which the restored grid `h` differs from the original `g`

    Primary observables are reported independently of each other; derived ones (cell volumes,
    coordinates, state, ``==``) only when all primary ones agree, because otherwise they repeat the
    primary difference.
    """
    p, q = _gprimary(g), _gprimary(h)
    out = []
    for key in ("class", "inner radius", "axes_bounds", "shape", "periodicity", "axes"):
        if p[key] != q[key]:
            if key == "inner radius" and q[key] and float.fromhex(p[key]) > 0 and float.fromhex(q[key]) == 0:
                what = f"{mech} loses inner radius"
            elif key == "class":
                what = "class differs"
            else:
                what = f"{key} differ" + ("s" if key in ("inner radius", "shape", "periodicity") else "")
            out.append((what, {"original": _unhex(p[key]), "restored": _unhex(q[key])}))
    if out:
        return out
    if g.axes_bounds != h.axes_bounds:
        out.append(("axes_bounds compare unequal", {"original": repr(g.axes_bounds), "restored": repr(h.axes_bounds)}))
    d, e = _gderived(g), _gderived(h)
    for key in ("cell volumes", "cell coordinates", "discretization", "volume", "state"):
        if d[key] != e[key]:
            out.append((f"{key} differ", {"original": repr(d[key])[:300], "restored": repr(e[key])[:300]}))
    if (g == h) is not True or (h == g) is not True or (g != h) is not False:
        out.append(("== is False", None))
    if not (g.compatible_with(h) and h.compatible_with(g)):
        out.append(("compatible_with is False", None))
    return out


def _restore_grid(g, route):
    import copy
    import pickle

    from pde.grids.base import GridBase

    if route == "from_state(state)":
        return type(g).from_state(g.state)
    if route == "GridBase.from_state(dict)":
        return GridBase.from_state({**g.state, "class": type(g).__name__})
    if route == "JSON state_serialized":
        return GridBase.from_state(g.state_serialized)
    if route == "copy()":
        return g.copy()
    if route == "copy.copy":
        return copy.copy(g)
    if route == "copy.deepcopy":
        return copy.deepcopy(g)
    if route == "pickle":
        return pickle.loads(pickle.dumps(g))
    raise ValueError(route)


def _is_json_refusal(exc, spec):
    """numpy-typed constructor arguments make ``json.dumps`` refuse loudly (recorded, not a loss)"""
    return bool(spec.get("np")) and isinstance(exc, TypeError) and "JSON serializable" in str(exc)


# ----------------------------------------------------------------------------------------------
# shrinking: every violation carries a single-route case reduced to the simplest parameters that
# still produce the same signature (each worker process shrinks a signature once)
# ----------------------------------------------------------------------------------------------

_SHRUNK: set = set()


def _simpler_grid(spec):
    cls = spec["cls"]
    if spec.get("np"):
        yield {**spec, "np": False}
    if cls in ("UnitGrid", "CartesianGrid"):
        shape = spec["shape"]
        if cls == "CartesianGrid":
            dim = len(spec["bounds"])
        else:
            dim = len(shape) if isinstance(shape, list) else 1
        if dim > 1:  # keep the first axis only
            s = {**spec, "shape": [shape[0]] if isinstance(shape, list) else shape}
            per = spec["periodic"]
            s["periodic"] = [per[0]] if isinstance(per, list) else per
            if cls == "CartesianGrid":
                s["bounds"] = [spec["bounds"][0] if len(spec["bounds"][0]) == 2 else [0, spec["bounds"][0][0]]]
            yield s
        if shape != [2] * dim:
            yield {**spec, "shape": [2] * dim}
        if spec["periodic"] is not False:
            yield {**spec, "periodic": False}
        if cls == "CartesianGrid" and spec["bounds"] != [[0, 1]] * dim:
            yield {**spec, "bounds": [[0, 1]] * dim}
    else:
        r = spec["radius"]
        hole = isinstance(r, list) and r[0] > 0
        simplest = [1, 2] if hole else 1
        if r != simplest:
            yield {**spec, "radius": simplest}
        if spec["shape"] != 2:
            yield {**spec, "shape": 2}
        if cls == "CylindricalSymGrid":
            if spec["bounds_z"] != [0, 1]:
                yield {**spec, "bounds_z": [0, 1]}
            if spec["periodic_z"] is not False:
                yield {**spec, "periodic_z": False}


def _simpler(case):
    for g in _simpler_grid(case["grid"]):
        yield {**case, "grid": g}
    if case.get("fcls", "ScalarField") != "ScalarField":
        yield {**case, "fcls": "ScalarField"}
    if "members" in case:
        m = case["members"]
        ml = case.get("mlabels")
        for i in range(len(m)):
            if len(m) > 1:
                c = {**case, "members": m[:i] + m[i + 1 :]}
                if ml is not None:
                    c["mlabels"] = ml[:i] + ml[i + 1 :]
                yield c
        for i in range(len(m)):
            if m[i] != "ScalarField":
                yield {**case, "members": m[:i] + ["ScalarField"] + m[i + 1 :]}
        if ml is not None and any(x is not None for x in ml):
            yield {**case, "mlabels": None}
    if case.get("dtype", "float64") != "float64":
        yield {**case, "dtype": "float64"}
    if case.get("dtype_arg"):
        yield {**case, "dtype_arg": False}
    if case.get("label") is not None:
        yield {**case, "label": None}


def _finish(case, fn_name, runner, viols, extra=None):
    """attach a shrunk single-route replay to every violation and build the worker result"""
    for v in viols:
        route = v.pop("route", None)
        small = {k: w for k, w in case.items() if k != "routes"}
        if route is not None:
            small["routes"] = [route]
        if (fn_name, v["sig"]) not in _SHRUNK:
            _SHRUNK.add((fn_name, v["sig"]))
            for _ in range(40):
                for cand in _simpler(small):
                    try:
                        hit = any(w["sig"] == v["sig"] for w in runner(cand)[0])
                    except Exception:  # noqa: BLE001 - a candidate may be an invalid configuration
                        hit = False
                    if hit:
                        small = cand
                        break
                else:
                    break
            if small != case:  # message and detail shall describe the replay case
                for w in runner(small)[0]:
                    if w["sig"] == v["sig"]:
                        v["msg"], v["detail"] = w["msg"], w.get("detail")
                        break
        v["case"] = small
        v["fn"] = f"checks.c14:{fn_name}"
    res = {"v": viols, "nt": True, "key": json.dumps({k: w for k, w in case.items() if k != "seed"}, sort_keys=True)}
    res.update(extra or {})
    return res


# ----------------------------------------------------------------------------------------------
# part "grid"
# ----------------------------------------------------------------------------------------------


def _run_grid(case):
    spec = case["grid"]
    try:
        g = make_grid(spec)
        before = (_gprimary(g), _gderived(g))
    except Exception as exc:  # noqa: BLE001
        if not spec.get("extreme"):
            raise
        # extreme-scale parameters may be rejected when the grid is built (nothing to restore then)
        return [], [f"{spec['cls']}: extreme-scale parameters rejected at construction: {type(exc).__name__}"], 0
    cls, tag = type(g).__name__, _tag(g)
    viols, refs, n = [], [], 0
    for route in case.get("routes") or GRID_ROUTES:
        n += 1
        mech = "pickle" if route == "pickle" else "state"
        try:
            h = _restore_grid(g, route)
        except Exception as exc:  # noqa: BLE001
            if route == "JSON state_serialized" and _is_json_refusal(exc, spec):
                refs.append(f"{cls}: state_serialized of a grid built from numpy scalars: TypeError (not JSON serializable)")
                continue
            viols.append(
                {
                    "sig": f"{cls}|{tag}|raises {type(exc).__name__}|{route}",
                    "msg": f"{route} of {_gstr(g)} raises {type(exc).__name__}: {str(exc)[:200]}",
                    "detail": {"grid": spec},
                    "route": route,
                }
            )
            continue
        if h is g:
            viols.append({"sig": f"{cls}|{tag}|returns the same object|{route}", "msg": f"{route} returned the original grid object", "detail": None, "route": route})
            continue
        for what, detail in grid_diff(g, h, mech):
            viols.append(
                {
                    "sig": f"{cls}|{tag}|{what}|{route}",
                    "msg": f"{route} of {_gstr(g)} gives {_gstr(h)}: {what}",
                    "detail": {"grid": spec, "difference": detail},
                    "route": route,
                }
            )
    if (_gprimary(g), _gderived(g)) != before:
        viols.append({"sig": f"{cls}|{tag}|restoring modified the original grid", "msg": f"{_gstr(g)} changed while it was copied", "detail": None})
    return viols, refs, n


def grid_case(case):
    viols, refs, n = _run_grid(case)
    out = "violation" if viols else ("refused JSON" if refs else "ok")
    return _finish(case, "grid_case", _run_grid, viols, {"n": n, "ref": refs or None, "out": f"{case['grid']['cls']}:{out}"})


# ----------------------------------------------------------------------------------------------
# fields and collections
# ----------------------------------------------------------------------------------------------


def _data(shape, dtype, seed, k):
    """generic contents in the requested dtype (VERIF_SEED selects them); one signed zero"""
    import numpy as np

    rng = np.random.default_rng([int(seed), int(k)])
    if dtype == "int64":  # every entry beyond 2**53 and odd => not representable in a double
        a = (rng.integers(2**58, 2**62, size=shape, dtype=np.int64) | 1) * rng.choice(np.array([-1, 1]), size=shape)
        a.flat[0] = 2**60 + 37
        a.flat[-1] = -(2**61) - 5
        return a.astype(np.int64)
    if dtype == "longdouble":  # every entry carries bits below the 53rd mantissa bit (where longdouble is wider)
        a = rng.uniform(-2, 2, size=shape).astype(np.longdouble)
        a = a + (2 * rng.integers(1, 1000, size=shape) + 1) * np.longdouble(2) ** -62
        a.flat[0] = 1 + np.longdouble(2) ** -60
        return a
    a = rng.uniform(-2, 2, size=shape)
    if dtype == "complex128":
        a = a + 1j * rng.uniform(-2, 2, size=shape)
    a = a.astype(dtype)
    a.flat[0] = -0.0
    return a


def _same_values(x, y):
    """exact equality of the values of two arrays of possibly different dtype

    (``np.array_equal`` would first cast an int64 to double and call 2**60+37 equal to 2**60)
    """
    import numpy as np

    if x.shape != y.shape:
        return False
    if np.finfo(np.longdouble).nmant >= 63:  # x86 extended precision holds every int64/uint64/double exactly
        return bool(np.array_equal(x.astype(np.clongdouble), y.astype(np.clongdouble)))
    return x.ravel().tolist() == y.ravel().tolist()  # python compares int with float exactly


def _field_cls(name):
    import pde

    return getattr(pde, name)


def make_field(grid, fcls, dtype, label, seed, k=0):
    c = _field_cls(fcls)
    shape = (grid.dim,) * RANK[fcls] + tuple(grid.shape)
    # ghost cells are zeroed: py-pde would leave them uninitialised (np.empty), and casting such garbage
    # between dtypes trips the workers' np.seterr(invalid="raise") - unrelated to the property
    f = c(grid, data="zeros", label=label, dtype=dtype)
    data = _data(shape, dtype, seed, k)
    f.data = data
    if _bits(f.data) != _bits(data):
        raise AssertionError(f"harness: a {dtype} field does not hold the data it was given")
    return f


def make_collection(grid, case):
    import numpy as np
    from pde import FieldCollection

    members = case["members"]
    mlabels = case.get("mlabels") or [None] * len(members)
    dts = ["float32", "complex128", "float64"] if case["dtype"] == "mixed" else [case["dtype"]] * 3
    fields = [
        make_field(grid, m, dts[i % 3], mlabels[i], case["seed"], i + 1) for i, m in enumerate(members)
    ]
    # without an explicit dtype a collection is double / complex double whatever its members are
    want = None if case["dtype"] == "mixed" else case["dtype"]
    fc = FieldCollection(fields, label=case.get("label"), dtype=want)
    if want is not None and (fc.dtype != np.dtype(want) or any(m.dtype != np.dtype(want) for m in fc)):
        raise AssertionError(f"harness: could not build a {want} collection (got {fc.dtype})")
    return fc


def _describe(f):
    """everything the property requires to survive, as plain python values"""
    from pde import FieldCollection

    d = {"class": type(f).__name__, "label": f.label, "dtype": str(f.dtype), "data": _bits(f.data)}
    if isinstance(f, FieldCollection):
        d["labels"] = list(f.labels)
        d["member classes"] = [type(m).__name__ for m in f]
        d["member data"] = [_bits(m.data) for m in f]
        d["member dtypes"] = [str(m.dtype) for m in f]
    return d


def _restore_field(f, route):
    import copy
    import pickle

    from pde.fields.base import FieldBase

    if route.startswith("attributes_serialized"):
        ser = f.attributes_serialized
        if not all(isinstance(k, str) and isinstance(v, str) for k, v in ser.items()):
            raise AssertionError("attributes_serialized is not a dict of strings")
        ser = json.loads(json.dumps(ser))  # what a file/storage does with it
        attrs = FieldBase.unserialize_attributes(ser)
        if route == "attributes_serialized":
            return FieldBase.from_state(attrs, data=f.data)
        new = FieldBase.from_state(attrs)
        new.data = f.data
        return new
    if route == "attributes":
        return FieldBase.from_state(f.attributes, data=f.data)
    if route == "copy()":
        return f.copy()
    if route == "copy.deepcopy":
        return copy.deepcopy(f)
    if route == "pickle":
        return pickle.loads(pickle.dumps(f))
    raise ValueError(route)


OBS_F32 = (
    "observation: float32 FieldCollection.copy()/storage read-back yields float64 "
    "(documented automatic dtype), values unchanged"
)


def field_diff(f, ref, new, mech, prefix, where, obs=None):
    """violations (without route) for a restored field/collection `new` of `f` (described by `ref`)

    `obs` is a list if the route goes through ``FieldCollection.copy(dtype=None)`` (``copy()`` itself and
    every storage read, which copies its template): there the dtype is documented to be "determined from
    data automatically", i.e. double, so that an explicitly float32 *collection* coming back as float64
    with unchanged values is recorded as an observation and not as a violation.  Nothing else is excused.
    """
    import numpy as np
    from pde import FieldCollection

    viols = []
    g = f.grid
    gdiffs = grid_diff(g, new.grid, mech) if new.grid is not g else []
    for what, detail in gdiffs:
        viols.append(
            {
                "sig": f"{type(g).__name__}|{_tag(g)}|{what}|{where}",
                "msg": f"{where}: grid {_gstr(g)} came back as {_gstr(new.grid)}: {what}",
                "detail": detail,
            }
        )
    got = _describe(new)
    keys = ["class", "label", "dtype", "data"]
    if "labels" in ref:
        keys += ["labels", "member classes", "member dtypes", "member data"]
    bad = False
    dtype_changed = got["dtype"] != ref["dtype"]
    widened = (
        obs is not None
        and "labels" in ref
        and isinstance(new, FieldCollection)
        and ref["dtype"] == "float32"
        and got["dtype"] == "float64"
        and all(d == "float32" for d in ref["member dtypes"])
        and all(d == "float64" for d in got["member dtypes"])
    )
    for key in keys:
        if got.get(key) == ref[key]:
            continue
        if widened and key == "dtype":
            if OBS_F32 not in obs:
                obs.append(OBS_F32)
            continue  # values are still compared below
        if dtype_changed and key == "member dtypes":
            continue  # follows from the dtype of the collection, reported once
        if dtype_changed and key in ("data", "member data"):
            # the dtype difference is reported on its own; here only ask whether the *values* survived
            a = [f.data] if key == "data" else [m.data for m in f]
            b = [new.data] if key == "data" else [m.data for m in new]
            if len(a) == len(b) and all(_same_values(x, y) for x, y in zip(a, b)):
                continue
        if key == "member data" and any(v["sig"].startswith(f"{prefix}|data differ|") for v in viols):
            continue  # the members are views of the collection data that was just reported
        bad = True
        show = (lambda x: repr(x)[:200]) if "data" in key else (lambda x: x)
        viols.append(
            {
                "sig": f"{prefix}|{key} differ{'s' if key in ('class', 'label', 'dtype') else ''}|{where}",
                "msg": f"{where}: {key} of {_fstr(f)}: original {show(ref[key])}, restored {show(got.get(key))}",
                "detail": {"original": show(ref[key]), "restored": show(got.get(key))},
            }
        )
    if isinstance(new, FieldCollection) and not bad:
        for i, m in enumerate(new):
            if m.grid is not new.grid and grid_diff(new.grid, m.grid, mech):
                viols.append({"sig": f"{prefix}|member grid differs from collection grid|{where}", "msg": f"{where}: member {i}", "detail": None})
    if not bad and not gdiffs:
        if (new == f) is not True or (f == new) is not True or (new != f) is not False:
            viols.append({"sig": f"{prefix}|== is False|{where}", "msg": f"{where}: restored {_fstr(new)} does not compare equal to {_fstr(f)}", "detail": None})
    return viols


def _run_fieldlike(case, build, prefix_of):
    grid = make_grid(case["grid"])
    f = build(grid, case)
    ref = _describe(f)
    prefix = prefix_of(f)
    viols, refs, n = [], [], 0
    for route in case.get("routes") or FIELD_ROUTES:
        n += 1
        mech = "pickle" if route == "pickle" else "state"
        where = f"field {route}" if "labels" not in ref else f"collection {route}"
        try:
            new = _restore_field(f, route)
        except Exception as exc:  # noqa: BLE001
            viols.append(
                {
                    "sig": f"{prefix}|raises {type(exc).__name__}|{where}",
                    "msg": f"{where} of {_fstr(f)} raises {type(exc).__name__}: {str(exc)[:200]}",
                    "detail": None,
                    "route": route,
                }
            )
            continue
        for v in field_diff(f, ref, new, mech, prefix, where, obs=refs if route == "copy()" else None):
            v["route"] = route
            viols.append(v)
    if _describe(f) != ref:
        viols.append({"sig": f"{prefix}|restoring modified the original", "msg": f"{_fstr(f)} changed while it was restored", "detail": None})
    return viols, refs, n


def _run_field(case):
    return _run_fieldlike(
        case,
        lambda g, c: make_field(g, c["fcls"], c["dtype"], c["label"], c["seed"]),
        lambda f: f"{type(f).__name__}|{f.dtype}",
    )


def field_case(case):
    viols, _, n = _run_field(case)
    return _finish(case, "field_case", _run_field, viols, {"n": n, "out": f"{case['fcls']}:{case['dtype']}:{'violation' if viols else 'ok'}"})


def _run_collection(case):
    return _run_fieldlike(case, make_collection, lambda f: f"FieldCollection|{case['dtype']}")


def collection_case(case):
    viols, refs, n = _run_collection(case)
    ranks = "".join(str(RANK[m]) for m in case["members"])
    out = "violation" if viols else ("ok, float32 widened by copy()" if refs else "ok")
    return _finish(case, "collection_case", _run_collection, viols, {"n": n, "ref": refs or None, "out": f"ranks{ranks}:{out}"})


# ----------------------------------------------------------------------------------------------
# part "from_data"
# ----------------------------------------------------------------------------------------------


def _run_from_data(case):
    import numpy as np
    from pde import FieldCollection

    grid = make_grid(case["grid"])
    members, ghost, dtype = case["members"], bool(case["ghost"]), case["dtype"]
    gname = type(grid).__name__
    dim = int(grid.dim)
    feature = "num_axes!=dim" if grid.num_axes != grid.dim else "num_axes==dim"
    prefix = f"FieldCollection.from_data|{feature}|{gname}|{'with' if ghost else 'without'} ghost cells"
    ncomp = sum(dim ** RANK[m] for m in members)
    spatial = tuple(int(s) + (2 if ghost else 0) for s in grid.shape)
    size = ncomp * int(np.prod(spatial))
    vals = np.arange(size, dtype=float) + 1 + int(case["seed"]) % 97  # all distinct, exact in float32
    if dtype == "int64":  # distinct, beyond 2**53, both signs
        ivals = np.arange(size, dtype=np.int64) + (2**60 + 37 + int(case["seed"]) % 97)
        flat = np.where(np.arange(size) % 2 == 1, -ivals, ivals).reshape((ncomp, *spatial))
    elif dtype == "longdouble":  # distinct, not representable in a double
        flat = (vals.astype(np.longdouble) + np.longdouble(2) ** -60).reshape((ncomp, *spatial))
    else:
        flat = (vals + 1j * (vals + 0.5) if dtype == "complex128" else vals).astype(dtype).reshape((ncomp, *spatial))
    flat_before = flat.copy()
    valid = (slice(None),) + tuple(slice(1, -1) for _ in spatial) if ghost else (slice(None),)
    classes = [_field_cls(m) for m in members]
    mlabels = case.get("mlabels")

    ghost_txt = f"{'with' if ghost else 'without'} ghost cells"
    dtype_arg = dtype if case.get("dtype_arg") else None
    # documented rule (number_array): without an explicit dtype the result is double, or complex double if
    # the data are complex; the *values* have to be those of the array in every case
    exp_dtype = dtype_arg or ("complex128" if dtype == "complex128" else "float64")

    def viol(what, msg, detail=None, pre=prefix):
        call = f"from_data({members}, {_gstr(grid)}, {dtype} array{flat.shape}, with_ghost_cells={ghost}, dtype={dtype_arg})"
        return {"sig": f"{pre}|{what}", "msg": f"{call}: {msg}", "detail": detail}

    same = _same_values

    try:
        fc = FieldCollection.from_data(
            classes, grid, flat, with_ghost_cells=ghost, label=case.get("label"), labels=mlabels, dtype=dtype_arg
        )
    except Exception as exc:  # noqa: BLE001
        return [viol(f"raises {type(exc).__name__}", f"raises {type(exc).__name__}: {str(exc)[:200]}")], [], 1
    viols = []
    if type(fc) is not FieldCollection or len(fc) != len(members) or [type(m).__name__ for m in fc] != members:
        viols.append(viol("member classes differ", f"members {[type(m).__name__ for m in fc]}"))
        return viols, [], 1
    start = 0
    for k, (m, name) in enumerate(zip(fc, members)):
        end = start + dim ** RANK[name]
        comp_shape = (dim,) * RANK[name]
        exp_full = flat_before[start:end].reshape(comp_shape + spatial)
        exp = flat_before[start:end][valid].reshape(comp_shape + tuple(grid.shape))
        if not same(m.data, exp):
            if dtype == "complex128" and same(m.data, exp.real):
                # every component sits at the right place but only its real part arrived
                viols.append(
                    viol(
                        "imaginary part dropped",
                        f"member {k} ({name}) holds only the real part of rows {start}:{end}",
                        {"member": k, "got": repr(m.data.ravel()[:4]), "expected": repr(exp.ravel()[:4])},
                        pre=f"FieldCollection.from_data|complex data|{ghost_txt}",
                    )
                )
            else:
                bad = [list(i) for i in itertools.product(*[range(dim)] * RANK[name]) if m.data.shape != exp.shape or not same(m.data[i], exp[i])]
                viols.append(viol("member data differs", f"member {k} ({name}) components {bad} are not rows {start}:{end} of the array", {"member": k, "components": bad, "got_shape": list(m.data.shape)}))
        elif ghost and not same(m._data_full, exp_full):
            viols.append(viol("member ghost cells differ", f"member {k} ({name}): ghost cells of rows {start}:{end} were not taken over"))
        start = end
    if not viols:
        if not same(fc.data, flat_before[valid]):
            viols.append(viol("collection data differs", "collection data is not the valid part of the array"))
        if fc.dtype != np.dtype(exp_dtype) or any(m.dtype != np.dtype(exp_dtype) for m in fc):
            viols.append(viol("dtype differs", f"dtype {fc.dtype} (members {[str(m.dtype) for m in fc]}) instead of {exp_dtype}"))
        if list(fc.labels) != (mlabels or [None] * len(members)) or fc.label != case.get("label"):
            viols.append(viol("labels differ", f"label {fc.label!r}, labels {list(fc.labels)}"))
        if any(m.grid is not grid for m in fc) or fc.grid is not grid:
            viols.append(viol("grid differs", "members do not use the supplied grid"))
    if _bits(flat) != _bits(flat_before):
        viols.append(viol("input array modified", "from_data changed the supplied array"))
    return viols, [], 1


def from_data_case(case):
    viols, _, n = _run_from_data(case)
    ranks = "".join(str(RANK[m]) for m in case["members"])
    out = viols[0]["sig"].split("|")[-1] if viols else "ok"
    return _finish(case, "from_data_case", _run_from_data, viols, {"n": n, "out": f"{case['grid']['cls']}:ranks{ranks}:{out}"})


# ----------------------------------------------------------------------------------------------
# part "storage"
# ----------------------------------------------------------------------------------------------


def _run_storage(case):
    import copy

    from pde import FieldCollection, MemoryStorage

    grid = make_grid(case["grid"])
    if "members" in case:
        a = make_collection(grid, case)
        b = make_collection(grid, {**case, "seed": case["seed"] + 1000})
        prefix = f"MemoryStorage|FieldCollection|{case['dtype']}"
    else:
        a = make_field(grid, case["fcls"], case["dtype"], case["label"], case["seed"])
        b = make_field(grid, case["fcls"], case["dtype"], case["label"], case["seed"] + 1000)
        prefix = f"MemoryStorage|{case['fcls']}|{case['dtype']}"
    refs = [_describe(a), _describe(b)]
    st = MemoryStorage()
    st.start_writing(a)
    st.append(a, 0.0)
    st.append(b, 1.5)
    st.end_writing()
    viols, obs, n = [], [], 0
    for route in case.get("routes") or STORAGE_ROUTES:
        n += 1
        where = f"storage {route}"
        try:
            if route == "info copied":
                info = copy.deepcopy(dict(st.info))
            else:
                info = json.loads(json.dumps(dict(st.info)))
            st2 = MemoryStorage(list(st.times), [d.copy() for d in st.data], info=info)
            read = [st2[0], st2[1]] + [f for _, f in st2.items()]
            sgrid, has_coll = st2.grid, st2.has_collection
        except Exception as exc:  # noqa: BLE001
            viols.append({"sig": f"{prefix}|raises {type(exc).__name__}|{where}", "msg": f"{where}: reading {_fstr(a)} back raises {type(exc).__name__}: {str(exc)[:200]}", "detail": None, "route": route})
            continue
        new = []
        for what, detail in grid_diff(grid, sgrid, "state"):
            new.append({"sig": f"{type(grid).__name__}|{_tag(grid)}|{what}|{where} .grid", "msg": f"{where}: storage.grid is {_gstr(sgrid)} instead of {_gstr(grid)}", "detail": detail})
        if has_coll is not isinstance(a, FieldCollection):
            new.append({"sig": f"{prefix}|has_collection wrong|{where}", "msg": f"{where}: has_collection={has_coll}", "detail": None})
        for i, f2 in enumerate(read):
            src = (a, b)[i % 2]
            new += field_diff(src, refs[i % 2], f2, "state", prefix, where, obs=obs)
        seen = set()
        for v in new:  # the four reads repeat each other
            if v["sig"] not in seen:
                seen.add(v["sig"])
                v["route"] = route
                viols.append(v)
    return viols, obs, n


def storage_case(case):
    viols, refs, n = _run_storage(case)
    kind = "ranks" + "".join(str(RANK[m]) for m in case["members"]) if "members" in case else case["fcls"]
    out = "violation" if viols else ("ok, float32 widened on read" if refs else "ok")
    return _finish(case, "storage_case", _run_storage, viols, {"n": n, "ref": refs or None, "out": f"{kind}:{case['dtype']}:{out}"})


# ----------------------------------------------------------------------------------------------
# alphabets (parent side; no pde import)
# ----------------------------------------------------------------------------------------------


def _flags(dim):
    """every combination of per-axis flags, plus the two scalar forms"""
    return [list(c) for c in itertools.product([False, True], repeat=dim)] + [False, True]


def grid_specs(tier):
    """the complete parameter alphabet of the grid part, simplest first"""
    thorough = tier == "thorough"
    specs = []
    # --- UnitGrid
    shapes = [[2], 3, [1], [2, 3], [1, 1], [3, 1, 2]]
    if thorough:
        shapes += [[7], [4, 4], [1, 5], [2, 2, 2], [1, 1, 1], [5, 1, 1]]
    for shape in shapes:
        dim = len(shape) if isinstance(shape, list) else 1
        for per in _flags(dim):
            specs.append({"cls": "UnitGrid", "shape": shape, "periodic": per})
    # --- CartesianGrid: origin, negative, non-zero origin, not exactly representable, upper bounds only
    b1 = [[[0, 1]], [[-1.5, 2]], [[-3, -1]], [[2, 5]], [[0.1, 0.7]], [[-0.3, 0.4]], [[1 / 3, 2 / 3]], [2.5]]
    b2 = [[[0, 1], [-1, 3]], [[-2, -1], [0.1, 0.7]], [[2], [3]]]
    b3 = [[[0, 1], [0, 2], [-3, 3]], [[-1, 1], [2, 5], [-0.3, 0.4]]]
    s1, s2, s3 = [[2], 3, 1], [[2, 3], [1, 1], [3, 1], 3], [[2, 3, 2], [1, 1, 1], [1, 2, 1]]
    if thorough:
        awkward = [0.1, 0.2, 0.3, 0.7, 1.1, -0.1, -0.3, -0.7, 1 / 3, 2 / 3, -1 / 3, 1e-3, 123.456, -2.7, 1e6 + 0.1]
        b1 += [[[a, b]] for a, b in itertools.product(awkward, awkward) if a < b and [[a, b]] not in b1]
        b2 += [[[0.1, 0.3], [-1 / 3, 1.1]], [[-2.7, 123.456], [1e-3, 0.2]]]
        b3 += [[[0.1, 0.3], [-1 / 3, 1.1], [2 / 3, 0.7]]]
        s1 += [[7], 16]
        s2 += [[5, 4], [1, 6]]
        s3 += [[3, 2, 4], [4, 1, 1]]
    for dim, bounds_list, shapes in ((1, b1, s1), (2, b2, s2), (3, b3, s3)):
        for bounds, shape, per in itertools.product(bounds_list, shapes, _flags(dim)):
            specs.append({"cls": "CartesianGrid", "bounds": bounds, "shape": shape, "periodic": per})
    # --- PolarSymGrid / SphericalSymGrid: float / int / (inner, outer) / (0, outer)
    radii = [2, 2.5, [1, 3], [0.7, 2], [0, 2], [0.0, 1.5], [1 / 3, 2 / 3]]
    rshapes = [2, 1, [4], 3]
    if thorough:
        radii += [1e-3, [1e3, 1e3 + 0.1], [0.1, 0.3], 7, [2, 2.5]]
        rshapes += [7, [16]]
    for cls in ("PolarSymGrid", "SphericalSymGrid"):
        for radius, shape in itertools.product(radii, rshapes):
            specs.append({"cls": cls, "radius": radius, "shape": shape})
    # --- CylindricalSymGrid
    cradii = [2, 2.5, [1, 3], [0.7, 2.5], [0, 2]]
    zs = [[0, 2], [-1, 1], [-2, -1], [1.5, 4], [-0.3, 0.4]]
    cshapes = [2, [4, 3], [1, 1], [1, 3], [2, 1]]
    if thorough:
        cradii += [[1 / 3, 2 / 3], [0.0, 1.5], 1e-3]
        zs += [[0.1, 0.7], [-1 / 3, 1.1]]
        cshapes += [[7, 2], [3, 5], 4]
    for radius, bounds_z, shape, pz in itertools.product(cradii, zs, cshapes, [False, True]):
        specs.append({"cls": "CylindricalSymGrid", "radius": radius, "bounds_z": bounds_z, "shape": shape, "periodic_z": pz})
    # --- extreme scales (both tiers): tiny / huge / nearly equal values, where an `isclose` or a rounding
    # shortcut in the state handling would bite; same oracle (bounds bit for bit)
    x_r = [[2e-9, 5e-8], [1e-12, 1.0], [1e-8, 1.0], [1e-9, 1e-8], [1e-300, 1e-299], [1e15, 1e15 + 8],
           [1.0, 1.0000000000000004], [5e-324, 1.0], 1e-12, 1e15, 1e-300]
    x_b = [[1e-12, 3e-12], [1e15, 1e15 + 8], [-1e-300, 1e-300], [1.0, 1.0000000000000004], [0.1, 0.30000000000000004],
           [-1e-9, 2e-9], [1e-300, 1e-299], [-1e15 - 8, -1e15], [-0.0, 1e-8], [0.7, 0.7000000000000002]]
    extreme = []
    for bounds, shape, per in itertools.product([[b] for b in x_b], [[2], 1, 3], _flags(1)):
        extreme.append({"cls": "CartesianGrid", "bounds": bounds, "shape": shape, "periodic": per})
    for bounds in ([x_b[0], x_b[1]], [x_b[3], x_b[2]], [x_b[4], x_b[7]]):
        for shape, per in itertools.product([[2, 3], [1, 1]], _flags(2)):
            extreme.append({"cls": "CartesianGrid", "bounds": bounds, "shape": shape, "periodic": per})
    for per in _flags(3):
        extreme.append({"cls": "CartesianGrid", "bounds": [x_b[5], x_b[1], x_b[9]], "shape": [2, 1, 2], "periodic": per})
    for cls in ("PolarSymGrid", "SphericalSymGrid"):
        for radius, shape in itertools.product(x_r, [2, 1, [3]]):
            extreme.append({"cls": cls, "radius": radius, "shape": shape})
    for radius, bounds_z, shape, pz in itertools.product(x_r[:6] + x_r[8:10], x_b[:5], [2, [1, 3]], [False, True]):
        extreme.append({"cls": "CylindricalSymGrid", "radius": radius, "bounds_z": bounds_z, "shape": shape, "periodic_z": pz})
    for radius, bounds_z in itertools.product([2, [1, 3]], x_b[5:]):
        extreme.append({"cls": "CylindricalSymGrid", "radius": radius, "bounds_z": bounds_z, "shape": 2, "periodic_z": True})
    specs += [dict(s, extreme=True) for s in extreme]
    # every parameter set also with numpy scalar / array types instead of python numbers
    return [dict(s, np=False) for s in specs] + [dict(s, np=True) for s in specs]


def field_grid_specs(tier):
    """grids carrying fields: every class, with/without hole, periodic flags, one-cell axes, all dims"""
    specs = [
        {"cls": "UnitGrid", "shape": [3], "periodic": [True]},
        {"cls": "UnitGrid", "shape": [2, 3], "periodic": [True, False]},
        {"cls": "UnitGrid", "shape": [1], "periodic": [False]},
        {"cls": "CartesianGrid", "bounds": [[-1.5, 2]], "shape": [4], "periodic": [False]},
        {"cls": "CartesianGrid", "bounds": [[0, 1], [-1, 3]], "shape": [2, 3], "periodic": [False, True]},
        {"cls": "CartesianGrid", "bounds": [[0, 1], [0, 2], [-3, 3]], "shape": [2, 1, 2], "periodic": [False, True, False]},
    ]
    for cls in ("PolarSymGrid", "SphericalSymGrid"):
        specs += [
            {"cls": cls, "radius": 2, "shape": 3},
            {"cls": cls, "radius": [0.7, 2], "shape": 3},
            {"cls": cls, "radius": [1, 3], "shape": 1},
        ]
    specs += [
        {"cls": "CylindricalSymGrid", "radius": 2, "bounds_z": [0, 1], "shape": [3, 2], "periodic_z": False},
        {"cls": "CylindricalSymGrid", "radius": [1, 3], "bounds_z": [0, 2], "shape": [4, 3], "periodic_z": False},
        {"cls": "CylindricalSymGrid", "radius": [1, 2.5], "bounds_z": [-1, 1], "shape": [2, 3], "periodic_z": True},
        {"cls": "CylindricalSymGrid", "radius": 3, "bounds_z": [-2, -1], "shape": [1, 1], "periodic_z": True},
    ]
    # extreme scale: a hole far below any `isclose` tolerance
    specs.append({"cls": "PolarSymGrid", "radius": [2e-9, 5e-8], "shape": 2})
    if tier == "thorough":
        specs += [
            {"cls": "SphericalSymGrid", "radius": [1e-12, 1.0], "shape": 2},
            {"cls": "CylindricalSymGrid", "radius": [1e-8, 1.0], "bounds_z": [1e15, 1e15 + 8], "shape": [2, 1], "periodic_z": True},
            {"cls": "CartesianGrid", "bounds": [[1e-12, 3e-12], [0.1, 0.30000000000000004]], "shape": [2, 2], "periodic": [True, False]},
            {"cls": "UnitGrid", "shape": [2, 1, 3], "periodic": [False, True, True]},
            {"cls": "CartesianGrid", "bounds": [[0.1, 0.7], [-0.3, 0.4]], "shape": [1, 4], "periodic": [True, True]},
            {"cls": "CartesianGrid", "bounds": [[-3, -1], [2, 5], [1 / 3, 2 / 3]], "shape": [3, 2, 2], "periodic": [True, False, True]},
            {"cls": "PolarSymGrid", "radius": 2.5, "shape": 5},
            {"cls": "SphericalSymGrid", "radius": [1 / 3, 2 / 3], "shape": 4},
            {"cls": "CylindricalSymGrid", "radius": [0.7, 2.5], "bounds_z": [1.5, 4], "shape": [3, 1], "periodic_z": False},
            {"cls": "CylindricalSymGrid", "radius": 2.5, "bounds_z": [-0.3, 0.4], "shape": [1, 4], "periodic_z": True},
        ]
    return [dict(s, np=False) for s in specs]


def member_seqs(max_len, extra_perm=True):
    """all sequences of field classes up to a length (+ all orders of one member of every rank)"""
    seqs = []
    for n in range(1, max_len + 1):
        seqs += [list(s) for s in itertools.product(FIELD_CLASSES, repeat=n)]
    if extra_perm and max_len < 3:
        seqs += [list(s) for s in itertools.permutations(FIELD_CLASSES)]
    return seqs


def _mlabels(n):
    """member label patterns: none, all (distinct), mixed"""
    pats = [None, [f"m{i}" for i in range(n)]]
    if n > 1:
        pats.append([None if i % 2 else LABELS[2] for i in range(n)])
    return pats


def main(run):
    thorough = run.tier == "thorough"
    only = getattr(run, "only", None)
    seed = int(run.seed)
    fgrids = field_grid_specs(run.tier)
    sizes = {}

    def go(part, fn, cases):
        sizes[part] = len(cases)
        if only and part not in only:
            return
        run.explore(f"checks.c14:{fn}", cases, mode="I", part=part, limit=120)

    # --- grids
    go("grid", "grid_case", [{"grid": s} for s in grid_specs(run.tier)])

    # wide dtypes: complete product in thorough; in quick a complete sub-product over one grid of every class
    # (+ one with a hole) and one label pattern, so that the quick tier stays fast
    if thorough:
        wgrids, wlabels = fgrids, [None, "coll"]
    else:
        seen, wgrids = set(), []
        for g in fgrids:
            key = (g["cls"], isinstance(g.get("radius"), list))
            if key not in seen:
                seen.add(key)
                wgrids.append(g)
        wlabels = ["coll"]

    # --- single fields
    go(
        "field",
        "field_case",
        [
            {"grid": g, "fcls": c, "dtype": d, "label": lb, "seed": seed}
            for g, c, d, lb in itertools.product(fgrids, FIELD_CLASSES, DTYPES, LABELS)
        ]
        + [
            {"grid": g, "fcls": c, "dtype": d, "label": lb, "seed": seed}
            for g, c, d, lb in itertools.product(fgrids, FIELD_CLASSES, WIDE_DTYPES, LABELS[:2])
        ],
    )

    # --- collections of mixed ranks
    seqs = member_seqs(3 if thorough else 2)
    if thorough:
        seqs += [list(s) for s in itertools.product(FIELD_CLASSES, repeat=4) if len(set(s)) == 3]
    go(
        "collection",
        "collection_case",
        [
            {"grid": g, "members": m, "dtype": d, "label": lb, "mlabels": ml, "seed": seed}
            for g, m, d, lb in itertools.product(fgrids, seqs, DTYPES + ["mixed"], [None, "coll"])
            for ml in _mlabels(len(m))
        ]
        + [
            {"grid": g, "members": m, "dtype": d, "label": lb, "mlabels": ml, "seed": seed}
            for g, m, d, lb in itertools.product(wgrids, seqs, WIDE_DTYPES, wlabels)
            for ml in (_mlabels(len(m)) if thorough else _mlabels(len(m))[1:2])
        ],
    )

    # --- FieldCollection.from_data on every grid class
    go(
        "from_data",
        "from_data_case",
        [
            {"grid": g, "members": m, "ghost": gh, "dtype": d, "dtype_arg": da, "label": lb, "mlabels": ml, "seed": seed}
            for g, m, gh, d, da in itertools.product(fgrids, seqs, [True, False], DTYPES, [False, True])
            for lb, ml in ((None, None), ("coll", [f"m{i}" for i in range(len(m))]))
        ]
        + [  # wide dtypes only with an explicit dtype= (without it the documented automatic dtype is double)
            {"grid": g, "members": m, "ghost": gh, "dtype": d, "dtype_arg": True, "label": None, "mlabels": None, "seed": seed}
            for g, m, gh, d in itertools.product(wgrids, seqs, [True, False], WIDE_DTYPES)
        ],
    )

    # --- MemoryStorage.info["field_attributes"]
    st_cases = [
        {"grid": g, "fcls": c, "dtype": d, "label": lb, "seed": seed}
        for g, c, d, lb in itertools.product(fgrids, FIELD_CLASSES, DTYPES, LABELS[:2])
    ]
    if thorough:
        st_seqs = member_seqs(3)
    else:
        st_seqs = member_seqs(1, extra_perm=False) + [list(s) for s in itertools.permutations(FIELD_CLASSES)]
        st_seqs += [["ScalarField", "ScalarField"], ["VectorField", "ScalarField"]]
    st_cases += [
        {"grid": g, "members": m, "dtype": d, "label": lb, "mlabels": ml, "seed": seed}
        for g, m, d, lb in itertools.product(fgrids, st_seqs, DTYPES + ["mixed"], [None, "coll"])
        for ml in _mlabels(len(m))[-2:]
    ]
    st_cases += [
        {"grid": g, "fcls": c, "dtype": d, "label": "phi", "seed": seed}
        for g, c, d in itertools.product(wgrids, FIELD_CLASSES, WIDE_DTYPES)
    ]
    st_cases += [
        {"grid": g, "members": m, "dtype": d, "label": "coll", "mlabels": _mlabels(len(m))[1], "seed": seed}
        for g, m, d in itertools.product(wgrids, st_seqs, WIDE_DTYPES)
    ]
    go("storage", "storage_case", st_cases)

    run.notes["alphabet_sizes"] = sizes
    run.notes["grid_routes"] = GRID_ROUTES
    run.notes["field_routes"] = FIELD_ROUTES
    run.notes["storage_routes"] = STORAGE_ROUTES
    run.notes["field_grids"] = len(fgrids)
    run.assumptions += [
        "NUMBA_DISABLE_JIT=1 (the code under test contains no compiled code)",
        "bitwise comparison of cell volumes/coordinates is justified because a restored grid is built by the same "
        "constructor arithmetic from the same floats (python's JSON encoder round-trips floats exactly)",
        "ghost cells are compared only for from_data(with_ghost_cells=True); the attribute routes restore valid data only",
        "state_serialized of a grid constructed from numpy integer/bool scalars raises TypeError (not JSON serializable); "
        "this loud refusal is counted under refusals, every other route of such a grid is checked",
        "field contents are generic values chosen by VERIF_SEED (plus one signed zero); from_data uses pairwise "
        "distinct values so that every component is identifiable",
        "memory sharing between restored objects is C15's subject and not examined here",
        "wide dtypes (int64 with every entry beyond 2**53, longdouble with bits below the 53rd mantissa bit) are explored "
        "on all field/collection/storage routes and on from_data with an explicit dtype=; values are compared exactly "
        "(through clongdouble where it has a 64 bit mantissa, else as python numbers), never through a cast to double; "
        "quick uses one grid per class (+ one with a hole) and one label pattern for them, thorough the full product; "
        "from_data without dtype= is not explored for wide dtypes (documented automatic dtype = double)",
        "an explicitly float32 FieldCollection returned as float64 (values unchanged) by FieldCollection.copy() or by a "
        "storage read-back is recorded as an observation (refusals), not a violation: copy(dtype=None) documents the "
        "automatic dtype (double); the property only demands the dtype for reconstruction from serialised attributes + "
        "data via from_state, which is checked (as are single fields on all routes, deepcopy, pickle, complex128 everywhere)",
    ]
    return (
        "complete product of grid class x constructor parameters (radius float/int/(inner,outer)/(0,outer), negative / "
        "non-zero-origin / inexact bounds, upper-bounds-only form, every periodic flag combination in list and scalar form, "
        "shapes incl. one-cell axes and int/list forms; plus, in both tiers, extreme-scale parameters for every class with "
        "bounds: inner radii 5e-324..1e-8 against tiny/normal outer radii, tiny/huge/nearly-equal/last-bit bounds and bounds_z) "
        "x python/numpy parameter types, each through 7 restore routes, bounds compared bit for bit (float.hex); "
        "field grids (every class, hole/no hole, periodic, one-cell) x field class x dtype x label through 6 routes; "
        "collections: all member class sequences up to the tier's length x dtype (incl. mixed member dtypes) x collection "
        "label x member label pattern through 6 routes; from_data: the same sequences x ghost flag x dtype x labels on every "
        "field grid; storage: fields and collections written to a MemoryStorage and read back from (times, data, info) only. "
        "A case is distinct by its full parameter tuple (seed excluded); every case is non-trivial (the oracle always compares "
        "a restored object with its original)"
    )
