"""C16 - interpolation is exact where it must be; insertion conserves the amount.

Exhaustive enumeration (no sampling) of a per-axis *lattice* of points in cell coordinates (cell
centres, faces, +-1e-9 around faces, quarter points, points in the boundary half-cell strip, seam
points shifted by +- one period, points outside near and far) - all combinations across the axes,
corners included - on every grid of the shared alphabet x rank 0-2 x ``bc`` x ``fill``.

Every point is evaluated singly (generic field) and in batches (every field content of a determining
set: zero, every unit basis field, the affine basis, one generic field) with the real
``field.interpolate`` and compared with a reference model that shares nothing with py-pde:

* per axis a weight matrix ``A[l, i]`` (lattice entry x ghost-extended cell index) is computed from the
  cell coordinate only; the reference interpolant on the whole product lattice is the tensor
  contraction ``E = G x_1 A_1 x_2 A_2 x_3 A_3`` of the ghost-extended data ``G`` (py-pde evaluates a
  2/4/8-term formula per point);
* without ``bc`` the interpolant is *clamped* to the nearest cell centre in the boundary half-cell
  (constant extension; this is what the code documents as "nearest-neighbor interpolation at
  boundary"); with ``bc`` the ghost cells are ``2v - c`` (value), ``c`` (derivative 0), opposite cell
  (periodic); ghost cells at edges/corners, which no boundary condition determines, are modelled as
  documented ("corner cells are set using interpolation"): the mean of the adjacent ghost cells.

Clauses per configuration: centre value (1e-13), reference interpolant (classified: between centres /
periodic seam / boundary strip / corner strip), range of the data (no bc), invariance under period
shifts, exactness for the affine basis (also with boundary conditions consistent with the affine
field), membership (clearly outside => DomainError or exactly ``fill``; |u - boundary| <= 1.5e-9 cell
widths excluded), linear approach to the imposed value with ``bc`` (zero second difference of three
collinear points, extrapolated face value), batch == single points, ``interpolate_to_grid``.

Insertion (``insert_case``): at every non-outside lattice point x rank, ``field.insert`` raises the
integral (py-pde's and an independent sum of volume x value) by the amount on an empty and on a
generic field; ``NumbaBackend.make_inserter`` (python source in mode I, compiled in mode J) equals it;
the inserter ``with_ghost_cells=True`` equals it where the deposit lies in valid cells (known
finding on non-uniform cell volumes, see ``GHOST_NONUNIFORM``).

Mode J: 12 really compiled interpolators (1/2/3 axes x periodic or not x with/without ghost cells)
and 6 inserters on the same lattice; values compared with the reference and, in the parent, with the
values of the same worker run in mode I.

See DESIGN.md, C16.  Signatures: ``cart2d|rank1|bc=value|centre value differs``.
"""

from __future__ import annotations

import contextlib
import itertools
import json
import math
import os
import sys

from checks._grids import MORE_GRIDS, SMALL_GRIDS, geometry, grid_name, make_grid

PROPERTY = "C16"
LEVEL = "exploration"

FILL = -7.5  # the fill value of the `fill=value` configurations
EPS = 1e-9  # offset of the "just inside a face" points (cell units)
EDGE = 1.5e-9  # |u - boundary| <= EDGE (cell units): membership is not demanded (property: excluded)
TOL = 1e-13  # relative tolerance of interpolated values (see `_tolerances`)
TOL_INS = 1e-12  # relative tolerance of the inserted amount
TOL_J = 1e-12  # mode J against mode I / against the reference

# The property demands that with `bc` the value tends to the imposed boundary value.  Where two
# non-periodic boundary strips overlap (corner region) py-pde uses corner ghost cells that are the
# mean of the adjacent ghost cells, and the value on the face is then NOT the imposed value.  This
# is reported by the check author as a doubtful behaviour; it is counted (outcome class) and only
# turned into a violation if this switch is set.
CORNER_FACE_VALUE_IS_VIOLATION = False

# `NumbaBackend.make_inserter(grid, with_ghost_cells=True)` looks up the cell volume at the index that
# was already shifted by the ghost cell: wrong amount on grids with non-uniform cell volumes and an
# out-of-bounds index in the last cell (IndexError in mode I, unchecked read under JIT).  Genuine
# defect (to be listed as a known finding).  Its violations carry the marker below in the signature,
#   C16|<kind><d>d|rank<r>|insert|inserter with ghost cells (non-uniform cell volumes) deposits a wrong amount
#   C16|<kind><d>d|rank<r>|insert|inserter with ghost cells (non-uniform cell volumes) raises IndexError
# so that they are distinct from the default inserter (with_ghost_cells=False) and from the inserter
# with ghost cells on grids with uniform cell volumes, which are both checked strictly.
GHOST_NONUNIFORM = "inserter with ghost cells (non-uniform cell volumes)"


# ----------------------------------------------------------------------------------------------
# the point lattice (pure python; cell coordinates u in [0, N], centre of cell i at u = i + 0.5)
# ----------------------------------------------------------------------------------------------


def axis_lattice(N, periodic):
    """list of (u, class) for one axis with N cells; simplest first; no duplicates"""
    ent = {}

    def add(u, c):
        ent.setdefault(float(u), c)

    for i in range(N):
        add(i + 0.5, "centre")
    for k in range(N + 1):
        add(k, "face" if 0 < k < N else ("seam" if periodic else "bface"))
    for i in range(N):
        for q in (0.25, 0.75):
            u = i + q
            add(u, "quarter" if 0.5 <= u <= N - 0.5 else ("seam" if periodic else "strip"))
    for u in (0.1, 0.4, N - 0.4, N - 0.1):
        add(u, "seam" if periodic else "strip")
    for k in range(1, N):
        add(k - EPS, "eps")
        add(k + EPS, "eps")
    add(EPS, "seam" if periodic else "beps")
    add(N - EPS, "seam" if periodic else "beps")
    if periodic:
        add(-EPS, "seam")
        add(N + EPS, "seam")
        for b in (0.0, 0.25, 0.5, N - 0.5, N - 0.25, float(N), EPS, N - EPS):
            add(b + N, "shift")
            add(b - N, "shift")
    add(-0.3, "wrap" if periodic else "near")
    add(N + 0.3, "wrap" if periodic else "near")
    add(-3.7 * N, "wrap" if periodic else "far")
    add(N + 3.7 * N, "wrap" if periodic else "far")
    return [[u, c] for u, c in ent.items()]


def axis_class(u, N, periodic):
    """class of an arbitrary coordinate (used for explicitly given lattices of replays)"""
    for v, c in axis_lattice(N, periodic):
        if v == u:
            return c
    return "other"


def axis_state(u, N, periodic):
    """'in' | 'edge' (within EDGE of the domain boundary: membership not demanded) | 'out'"""
    if periodic:
        return "in"
    if abs(u) <= EDGE or abs(u - N) <= EDGE:
        return "edge"
    return "in" if 0 < u < N else "out"


def axis_weights(np, us, N, periodic, bck):
    """reference weights A[l, i]; i = 0 lower ghost cell, 1..N valid cells, N+1 upper ghost cell.

    Rows of clearly outside points are zero.  'edge' points get the continuous extension."""
    A = np.zeros((len(us), N + 2))
    for l, u in enumerate(us):
        if periodic:
            s = u - 0.5
            i0 = math.floor(s)
            t = s - i0
            A[l, i0 % N + 1] += 1 - t
            A[l, (i0 + 1) % N + 1] += t
            continue
        if axis_state(u, N, periodic) == "out":
            continue
        if bck == "none":  # constant extension in the boundary half cell
            s = min(max(u - 0.5, 0.0), N - 1.0)
            if N == 1:
                A[l, 1] = 1.0
                continue
            i0 = min(math.floor(s), N - 2)
        else:  # ghost cells
            s = min(max(u - 0.5, -0.5), N - 0.5)
            i0 = min(math.floor(s), N - 1)
        t = s - i0
        A[l, i0 + 1] += 1 - t
        A[l, i0 + 2] += t
    return A


# ----------------------------------------------------------------------------------------------
# boundary conditions: what is handed to py-pde and the independent model of the ghost cells
# ----------------------------------------------------------------------------------------------


def bc_kinds(geo):
    if all(geo["periodic"]):
        return ["none", "periodic"]
    return ["none", "value", "derivative"]


def bc_value(np, geo, rank, axis, upper):
    """imposed value on one side: distinct per axis, side and tensor component (exact binary fractions)"""
    tshape = (geo["dim"],) * rank
    v = np.empty(tshape)
    for flat, tau in enumerate(np.ndindex(*tshape)):
        v[tau] = 1.5 + 0.5 * axis + 0.25 * upper - 0.125 * flat
    return v


def bc_data(np, geo, rank, bck, affine_axis=None):
    """the `bc` argument for py-pde (dict keyed by sides)"""
    if bck == "none":
        return None
    bc = {}
    for a, name in enumerate(geo["axes"]):
        if geo["periodic"][a]:
            bc[name] = "periodic"
            continue
        for upper in (False, True):
            key = name + ("+" if upper else "-")
            if affine_axis is not None:
                # consistent with the affine field m_tau * x_a: value on the faces of axis a,
                # vanishing derivative on the others
                if a == affine_axis:
                    bc[key] = {"value": marker(np, geo, rank) * geo["bounds"][a][1 if upper else 0]}
                else:
                    bc[key] = {"derivative": 0}
            elif bck == "value":
                v = bc_value(np, geo, rank, a, upper)
                bc[key] = {"value": float(v) if rank == 0 else v}
            else:
                bc[key] = {"derivative": 0}
    return bc


def ghost_extend(np, geo, rank, data, bck, affine_axis=None):
    """data: tshape + grid shape  ->  tshape + (N_a + 2): the model of the padded array"""
    d = geo["num_axes"]
    shape = geo["shape"]
    G = np.zeros(data.shape[: data.ndim - d] + tuple(n + 2 for n in shape))
    G[(Ellipsis,) + (slice(1, -1),) * d] = data
    if bck == "none":
        return G
    for m in range(1, d + 1):
        for idx in itertools.product(*[range(n + 2) for n in shape]):
            gh = [a for a in range(d) if idx[a] == 0 or idx[a] == shape[a] + 1]
            if len(gh) != m:
                continue
            if m == 1:
                a = gh[0]
                upper = idx[a] != 0
                N = shape[a]
                inner = list(idx)
                inner[a] = N if upper else 1
                c = G[(Ellipsis,) + tuple(inner)]
                if geo["periodic"][a]:
                    opp = list(idx)
                    opp[a] = 1 if upper else N
                    val = G[(Ellipsis,) + tuple(opp)]
                elif affine_axis is not None:
                    if a == affine_axis:
                        val = 2 * marker(np, geo, rank) * geo["bounds"][a][1 if upper else 0] - c
                    else:
                        val = c
                elif bck == "value":
                    val = 2 * bc_value(np, geo, rank, a, upper) - c
                else:
                    val = c
            else:  # edges and corners: mean of the neighbouring ghost cells one step inward
                val = 0.0
                for a in gh:
                    inner = list(idx)
                    inner[a] = shape[a] if idx[a] != 0 else 1
                    val = val + G[(Ellipsis,) + tuple(inner)]
                val = val / m
            G[(Ellipsis,) + idx] = val
    return G


# ----------------------------------------------------------------------------------------------
# field contents (determining set)
# ----------------------------------------------------------------------------------------------


def marker(np, geo, rank):
    """distinct non-zero factor per tensor component"""
    tshape = (geo["dim"],) * rank
    m = np.empty(tshape)
    for flat, tau in enumerate(np.ndindex(*tshape)):
        m[tau] = 1.0 + 0.25 * flat
    return m


def field_names(geo, rank, basis):
    ncell = 1
    for n in geo["shape"]:
        ncell *= n
    ncomp = geo["dim"] ** rank
    names = ["generic", "zero"]
    if basis == "full" or rank == 0:
        names += [f"e{k}" for k in range(ncomp * ncell)]
    else:  # product covering: (marked components) x (every cell)  +  (every component) x (generic cells)
        names += [f"m{k}" for k in range(ncell)] + [f"c{k}" for k in range(ncomp)]
    names += [f"aff{i}" for i in range(geo["num_axes"] + 1)]
    return names


def field_content(np, geo, rank, name, seed):
    tshape = (geo["dim"],) * rank
    gshape = tuple(geo["shape"])
    shape = tshape + gshape
    mk = marker(np, geo, rank).reshape(tshape + (1,) * len(gshape))
    if name == "zero":
        return np.zeros(shape)
    if name == "generic":
        return np.random.default_rng(seed).uniform(-1, 2, size=shape)
    if name[0] == "e":
        e = np.zeros(int(np.prod(shape)))
        e[int(name[1:])] = 1.0
        return e.reshape(shape)
    if name[0] == "m":
        e = np.zeros(int(np.prod(gshape)))
        e[int(name[1:])] = 1.0
        return mk * e.reshape(gshape)
    if name[0] == "c":
        g = np.random.default_rng(seed + 1).uniform(-1, 2, size=gshape)
        out = np.zeros(shape)
        out[np.unravel_index(int(name[1:]), tshape) if tshape else ()] = g
        return out
    if name.startswith("aff"):
        i = int(name[3:])
        if i == 0:
            return mk * np.ones(gshape)
        x = np.asarray(geo["centres"][i - 1]).reshape([-1 if a == i - 1 else 1 for a in range(len(gshape))])
        return mk * (x * np.ones(gshape))
    raise ValueError(name)


# ----------------------------------------------------------------------------------------------
# helpers
# ----------------------------------------------------------------------------------------------


@contextlib.contextmanager
def quiet():
    """py-pde prints 'POINT ...' (python print / compiled print) before raising DomainError"""
    sys.stdout.flush()
    saved = os.dup(1)
    null = os.open(os.devnull, os.O_WRONLY)
    os.dup2(null, 1)
    old = sys.stdout
    sys.stdout = open(os.devnull, "w")
    try:
        yield
    finally:
        sys.stdout.close()
        sys.stdout = old
        os.dup2(saved, 1)
        os.close(saved)
        os.close(null)


def sig_prefix(geo, rank, bck):
    return f"{geo['kind']}{geo['num_axes']}d|rank{rank}|bc={bck}"


def _field_class(rank):
    from pde import ScalarField, Tensor2Field, VectorField

    return [ScalarField, VectorField, Tensor2Field][rank]


# ----------------------------------------------------------------------------------------------
# worker 1: interpolation on a product lattice
# ----------------------------------------------------------------------------------------------


def lattice_case(case):
    """one (grid, rank, bc, fill) configuration; loops over the lattice and the field contents.

    optional keys: "lat" (explicit per-axis lists of cell coordinates; default: the full lattice),
    "fields" (names; default: the determining set), "basis" ("full" | "product"), "ret" (return the
    values of the first field), "expect" (recorded values of the other execution mode)."""
    with quiet():
        return _lattice_case(case)


def _lattice_case(case):
    import numpy as np
    from pde.grids.base import DomainError

    spec, rank, bck, fill = case["grid"], case["rank"], case["bc"], case["fill"]
    seed = case.get("seed", 0)
    geo = geometry(spec)
    grid = make_grid(spec)
    cls = _field_class(rank)
    d = geo["num_axes"]
    shape = geo["shape"]
    per = geo["periodic"]
    tshape = (geo["dim"],) * rank
    nt = len(tshape)
    explicit = case.get("lat") is not None
    if explicit:
        lat = [[[float(u), axis_class(float(u), shape[a], per[a])] for u in case["lat"][a]] for a in range(d)]
    else:
        lat = [axis_lattice(shape[a], per[a]) for a in range(d)]
    us = [[e[0] for e in la] for la in lat]
    L = tuple(len(u) for u in us)
    names = case.get("fields") or field_names(geo, rank, case.get("basis", "full"))
    chunk = case.get("chunk")  # [k, m]: this case handles every m-th field content starting at k
    if chunk:
        names = names[chunk[0] :: chunk[1]]
    partial = bool(chunk) and chunk[0] > 0  # pass A (single points) only where membership is open
    pre = sig_prefix(geo, rank, bck)
    gname = grid_name(spec)
    ghost = bck != "none"
    viol, seen = [], set()
    n_calls = 0
    n_points = 0
    outs = set()

    def report(what, msg, lat_pts, fields, detail=None, with_fill=False, extra=None):
        sig = f"{pre}|{'fill=' + repr(fill) + '|' if with_fill else ''}{what}"
        if sig in seen:
            return
        seen.add(sig)
        c = {"grid": spec, "rank": rank, "bc": bck, "fill": fill, "seed": seed, "lat": lat_pts, "fields": fields}
        c.update(extra or {})
        viol.append({"sig": sig, "msg": f"{gname} rank={rank} bc={bck} fill={fill}: {msg}", "detail": detail,
                     "case": c, "fn": "checks.c16:lattice_case"})

    # ---- geometry of the lattice (independent of py-pde) -----------------------------------------
    lo = [b[0] for b in geo["bounds"]]
    dx = geo["dx"]
    xs = [np.array([lo[a] + u * dx[a] for u in us[a]]) for a in range(d)]
    X = np.stack(np.meshgrid(*xs, indexing="ij"), axis=-1)  # L + (d,)
    states = [[axis_state(u, shape[a], per[a]) for u in us[a]] for a in range(d)]

    def outer(per_axis, op, init):
        res = np.full(L, init)
        for a in range(d):
            v = np.asarray(per_axis[a]).reshape([-1 if b == a else 1 for b in range(d)])
            res = op(res, v)
        return res

    is_out = outer([[s == "out" for s in st] for st in states], np.logical_or, False)
    is_edge = outer([[s == "edge" for s in st] for st in states], np.logical_or, False) & ~is_out
    is_in = ~is_out & ~is_edge
    n_strip = outer([[(not per[a]) and (u < 0.5 or u > shape[a] - 0.5) for u in us[a]] for a in range(d)], np.add, 0)
    n_wrap = outer([[per[a] and (u < 0.5 or u > shape[a] - 0.5) for u in us[a]] for a in range(d)], np.add, 0)
    all_centre = outer([[(u - 0.5) == math.floor(u - 0.5) and 0 < u < shape[a] for u in us[a]] for a in range(d)],
                       np.logical_and, True)
    cat = np.where(all_centre, 0, np.where(n_strip >= 2, 4, np.where(n_strip == 1, 3, np.where(n_wrap > 0, 2, 1))))
    cat_names = [
        "centre value differs",
        "interpolant between centres differs",
        "periodic seam: interpolant differs",
        "boundary strip: differs from the ghost-cell interpolant" if ghost
        else "boundary strip: not the constant extension",
        "corner strip: differs from the ghost-cell interpolant (corner ghosts = mean of adjacent ghosts)" if ghost
        else "boundary corner: not the constant extension",
    ]
    # tolerance: cell coordinates are recomputed by py-pde as (x - lo)/dx - 0.5; their round-off is
    # <~ 4 eps (|x| + |lo|)/dx per axis, the value changes by at most that times the data range
    kappa = outer([[(abs(x) + abs(lo[a])) / dx[a] + 1.0 for x in xs[a]] for a in range(d)], np.add, 0.0)
    tolp = np.maximum(TOL, 16 * 2.3e-16 * kappa)

    A = [axis_weights(np, us[a], shape[a], per[a], bck) for a in range(d)]

    def reference(G):
        E = G
        for a in range(d):
            E = np.tensordot(E, A[a], axes=([nt], [1]))
        return E  # tshape + L

    def pt(idx):
        return [[us[a][idx[a]]] for a in range(d)]

    bc_dict = bc_data(np, geo, rank, bck)
    bc_obj = grid.get_boundary_conditions(bc_dict, rank=rank) if ghost else None
    fillarr = None if fill is None else np.full(tshape, float(fill))

    # ---- pass A: every point singly (first field content) ----------------------------------------
    f = cls(grid)  # one object; contents are written in place into the same buffer
    first = names[0]
    f.data[...] = field_content(np, geo, rank, first, seed)
    single = np.zeros(tshape + L)
    accepted = np.zeros(L, dtype=bool)
    single_done = np.zeros(L, dtype=bool)
    for idx in np.ndindex(*L):
        if partial and not is_edge[idx]:
            accepted[idx] = is_in[idx]
            continue
        n_calls += 1
        n_points += 1
        try:
            r = f.interpolate(X[idx], bc=bc_obj, fill=fill)
        except DomainError:
            r = None
        refused = r is None or (fill is not None and np.array_equal(np.asarray(r), fillarr))
        if r is not None and np.shape(r) != tshape:
            report("result of a single point has the wrong shape", f"shape {np.shape(r)} at u={pt(idx)}", pt(idx), [first])
            continue
        if is_out[idx]:
            if r is None:
                outs.add("outside: DomainError")
            elif refused:
                outs.add("outside: exactly fill")
            else:
                outs.add("outside: accepted")
                report("point clearly outside is accepted" if fill is None else "point clearly outside does not return fill",
                       f"u={pt(idx)} x={X[idx].tolist()} returned {np.asarray(r).tolist()!r}", pt(idx), [first], with_fill=True)
            if r is None and fill is not None:
                report("DomainError although a fill value is given", f"u={pt(idx)}", pt(idx), [first], with_fill=True)
            continue
        if refused:
            if is_in[idx]:
                report("point inside the domain is refused", f"u={pt(idx)} x={X[idx].tolist()} "
                       + ("raised DomainError" if r is None else "returned fill"), pt(idx), [first], with_fill=True)
            else:
                outs.add("edge (|u-boundary|<=1.5e-9): refused")
            continue
        if is_edge[idx]:
            outs.add("edge (|u-boundary|<=1.5e-9): accepted")
        accepted[idx] = single_done[idx] = True
        single[(Ellipsis,) + idx] = r
    acc_idx = np.argwhere(accepted)
    # the batch: every point that returned a value; with a fill value all lattice points (outside ones included)
    inb = accepted if fill is None else np.ones(L, dtype=bool)
    b_idx = np.argwhere(inb)
    Xb = X[inb]  # (nb, d), C order == order of b_idx

    # a batch containing an outside point must raise (fill None) - one call
    if fill is None and is_out.any() and accepted.any() and not partial:
        n_calls += 1
        mixed = np.stack([X[tuple(acc_idx[0])], X[tuple(np.argwhere(is_out)[0])]])
        try:
            f.interpolate(mixed, bc=bc_obj)
            report("batch with an outside point is accepted", f"points {mixed.tolist()}",
                   [[us[a][i] for i in sorted({int(acc_idx[0][a]), int(np.argwhere(is_out)[0][a])})] for a in range(d)],
                   [first], with_fill=True)
        except DomainError:
            outs.add("batch with outside point: DomainError")

    # ---- pass B: batches, every field content ------------------------------------------------------
    values_first = None
    collinear_stats = [0, 0]
    if len(Xb):
        for name in names:
            content = field_content(np, geo, rank, name, seed)
            f.data[...] = content
            n_calls += 1
            try:
                rb = f.interpolate(Xb, bc=bc_dict, fill=fill)
            except DomainError:
                report("batch refuses points that were accepted singly", f"field {name}", us, [name], with_fill=True)
                continue
            n_points += len(Xb)
            if rb.shape != tshape + (len(Xb),):
                report("batch result has the wrong shape", f"{rb.shape}", us, [name])
                continue
            R = np.zeros(tshape + L)
            R[(Ellipsis,) + tuple(b_idx.T)] = rb
            if fill is not None and is_out.any() and not np.all(R[..., is_out] == fill):
                k = np.argwhere(is_out & ~(R == fill).reshape((-1,) + L).all(axis=0))[0]
                report("batch: point clearly outside does not return fill", f"field {name} at u={pt(tuple(k))}", pt(tuple(k)), [name],
                       with_fill=True)
            G = ghost_extend(np, geo, rank, content, bck)
            E = reference(G)
            scale = max(1.0, float(np.abs(G).max()))
            if name == first:
                values_first = R
                if not np.array_equal(R[..., single_done], single[..., single_done]):
                    k = tuple(np.argwhere(single_done & (R != single).reshape((-1,) + L).any(axis=0))[0])
                    report("batch and single-point results differ", f"at u={pt(k)}: {np.asarray(R[(Ellipsis,) + k]).tolist()!r} vs "
                           f"{np.asarray(single[(Ellipsis,) + k]).tolist()!r}", pt(k), [name])
                # other batch shape: (2, nb//2, d)
                if len(Xb) >= 4:
                    h = len(Xb) // 2
                    n_calls += 1
                    try:
                        r2 = f.interpolate(Xb[: 2 * h].reshape(2, h, d), bc=bc_dict, fill=fill)
                    except DomainError:
                        r2 = np.zeros(0)
                    if r2.shape != tshape + (2, h) or not np.array_equal(r2.reshape(tshape + (2 * h,)), rb[..., : 2 * h]):
                        report("two-dimensional batch differs from flat batch", f"shape {r2.shape}", us, [name])
            # (1) centre value / reference interpolant, classified by where the point lies
            err = np.abs(R - E).reshape((-1,) + L).max(axis=0)
            bad = accepted & ~(err <= tolp * scale)
            if bad.any():
                for c in sorted(set(cat[bad].tolist())):
                    idx = tuple(np.argwhere(bad & (cat == c))[0])
                    comp = R[(Ellipsis,) + idx], E[(Ellipsis,) + idx]
                    report(cat_names[c], f"field {name} at u={pt(idx)} x={X[idx].tolist()}: got {np.asarray(comp[0]).tolist()!r} "
                           f"expected {np.asarray(comp[1]).tolist()!r}", pt(idx), [name],
                           detail={"got": comp[0], "exp": comp[1], "tol": float(tolp[idx] * scale)})
            # (2) never outside the range of the data (no bc)
            if not ghost:
                lo_d = content.reshape(tshape + (-1,)).min(axis=-1).reshape(tshape + (1,) * d)
                hi_d = content.reshape(tshape + (-1,)).max(axis=-1).reshape(tshape + (1,) * d)
                slack = tolp * scale
                badr = accepted & ~((R >= lo_d - slack) & (R <= hi_d + slack)).reshape((-1,) + L).all(axis=0)
                if badr.any():
                    idx = tuple(np.argwhere(badr)[0])
                    report("result outside the range of the data", f"field {name} at u={pt(idx)}: {np.asarray(R[(Ellipsis,) + idx]).tolist()!r}",
                           pt(idx), [name])
            # (3) invariance under shifts by one period
            for a in range(d):
                if not per[a]:
                    continue
                for i, u in enumerate(us[a]):
                    for j, u2 in enumerate(us[a]):
                        if abs(u2 - (u + shape[a])) < 1e-12:
                            r1 = np.take(R, i, axis=nt + a)
                            r2 = np.take(R, j, axis=nt + a)
                            ok = np.take(accepted, i, axis=a) & np.take(accepted, j, axis=a)
                            tl = np.take(tolp, j, axis=a) * scale * 2
                            badp = ok & ~(np.abs(r1 - r2).reshape((-1,) + ok.shape).max(axis=0) <= tl)
                            if badp.any():
                                t_idx = list(np.argwhere(badp)[0])
                                lp = [[us[b][t_idx[b - (b > a)]]] if b != a else [u, u2] for b in range(d)]
                                report(f"axis {a}: value changes under a shift by one period", f"field {name} lattice {lp}", lp, [name])
            # (4) exact for affine fields (where the model predicts no clamping / consistent bc)
            if name.startswith("aff"):
                i = int(name[3:])
                mk = marker(np, geo, rank).reshape(tshape + (1,) * d)
                if i == 0:
                    exact = mk * np.ones(L)
                    where = accepted & ((bck != "value") | (n_strip == 0))
                else:
                    a = i - 1
                    exact = mk * X[..., a]
                    inner = np.asarray([0.5 <= u <= shape[a] - 0.5 for u in us[a]]).reshape([-1 if b == a else 1 for b in range(d)])
                    where = accepted & inner & ((bck != "value") | (n_strip == 0))
                bada = where & ~(np.abs(R - exact).reshape((-1,) + L).max(axis=0) <= tolp * max(scale, float(np.abs(exact).max())))
                if where.any():
                    outs.add("affine exactness compared")
                if bada.any():
                    idx = tuple(np.argwhere(bada)[0])
                    report("affine field is not reproduced exactly", f"field {name} at u={pt(idx)} x={X[idx].tolist()}: got "
                           f"{np.asarray(R[(Ellipsis,) + idx]).tolist()!r} exact {np.asarray(exact[(Ellipsis,) + idx]).tolist()!r}", pt(idx), [name])
            # (5) with bc: linear approach to the imposed boundary value along the inward normal
            if ghost:
                for a in range(d):
                    if per[a]:
                        continue
                    N = shape[a]
                    for upper in (False, True):
                        trip = [N - 0.1, N - 0.25, N - 0.4] if upper else [0.1, 0.25, 0.4]
                        try:
                            i1, i2, i3 = (us[a].index(float(t)) for t in trip)
                        except ValueError:
                            continue
                        r1, r2, r3 = (np.take(R, i, axis=nt + a) for i in (i1, i2, i3))
                        ok = np.take(accepted, i1, axis=a) & np.take(accepted, i2, axis=a) & np.take(accepted, i3, axis=a)
                        tl = 8 * np.take(tolp, i1, axis=a) * scale
                        lp = lambda t_idx: [[us[b][t_idx[b - (b > a)]]] if b != a else trip for b in range(d)]  # noqa: E731
                        side = f"axis {a}{'+' if upper else '-'}"
                        bad2 = ok & ~(np.abs(r1 - 2 * r2 + r3).reshape((-1,) + ok.shape).max(axis=0) <= tl)
                        if bad2.any():
                            t_idx = list(np.argwhere(bad2)[0])
                            report("approach to the boundary is not linear (second difference)", f"{side} field {name} lattice {lp(t_idx)}",
                                   lp(t_idx), [name])
                        face = r1 + (r1 - r3) / 3.0  # extrapolated to the face (distance 0.1 / spacing 0.3)
                        others_strip = np.take(n_strip, i1, axis=a) - 1  # other non-periodic axes in their boundary strip
                        if bck == "value":
                            v = bc_value(np, geo, rank, a, upper).reshape(tshape + (1,) * (d - 1))
                            dev = np.abs(face - v).reshape((-1,) + ok.shape).max(axis=0)
                            what = "extrapolated face value differs from the imposed value"
                        else:
                            dev = np.abs(r1 - r3).reshape((-1,) + ok.shape).max(axis=0)
                            what = "normal derivative at the face differs from the imposed 0"
                        plain = ok & (others_strip == 0)
                        collinear_stats[0] += int(plain.sum())
                        badf = plain & ~(dev <= tl)
                        if badf.any():
                            t_idx = list(np.argwhere(badf)[0])
                            report(what, f"{side} field {name} lattice {lp(t_idx)}: deviation {float(dev[tuple(t_idx)])!r}", lp(t_idx), [name])
                        corner = ok & (others_strip > 0)
                        collinear_stats[1] += int(corner.sum())
                        badc = corner & ~(dev <= tl)
                        if badc.any():
                            outs.add("corner strip: face value differs from the imposed one (corner ghost = mean of neighbours)")
                            if CORNER_FACE_VALUE_IS_VIOLATION:
                                t_idx = list(np.argwhere(badc)[0])
                                report("corner strip: " + what, f"{side} field {name} lattice {lp(t_idx)}: deviation "
                                       f"{float(dev[tuple(t_idx)])!r}", lp(t_idx), [name])

    # (4b) affine field m_tau * x_a with boundary conditions that are consistent with it
    ab = case.get("affine_bc_axis")  # set in replays of this clause
    if len(Xb) and bck == "value" and (ab is not None or not (case.get("fields") or partial)):
        for a in range(d) if ab is None else [ab]:
            if per[a]:
                continue
            name = f"aff{a + 1}"
            f.data[...] = field_content(np, geo, rank, name, seed)
            n_calls += 1
            try:
                rb = f.interpolate(Xb, bc=bc_data(np, geo, rank, bck, affine_axis=a), fill=fill)
            except DomainError:
                report("batch refuses points that were accepted singly", f"field {name} with consistent bc", us, [name],
                       with_fill=True, extra={"affine_bc_axis": a})
                continue
            n_points += len(Xb)
            R = np.zeros(tshape + L)
            R[(Ellipsis,) + tuple(b_idx.T)] = rb
            exact = marker(np, geo, rank).reshape(tshape + (1,) * d) * X[..., a]
            in_strip_a = np.asarray([u < 0.5 or u > shape[a] - 0.5 for u in us[a]]).reshape([-1 if b == a else 1 for b in range(d)])
            where = accepted & ~(in_strip_a & (n_strip >= 2))  # not where the strip of axis a meets another strip
            bada = where & ~(np.abs(R - exact).reshape((-1,) + L).max(axis=0) <= tolp * max(1.0, 2 * float(np.abs(exact).max())))
            if where.any():
                outs.add("affine exactness with consistent bc compared")
            if bada.any():
                idx = tuple(np.argwhere(bada)[0])
                report("affine field with consistent bc is not reproduced exactly", f"x_{a} at u={pt(idx)}: got "
                       f"{np.asarray(R[(Ellipsis,) + idx]).tolist()!r} exact {np.asarray(exact[(Ellipsis,) + idx]).tolist()!r}",
                       pt(idx), [name], extra={"affine_bc_axis": a})

    # ---- interpolate_to_grid: same grid class with one more cell per axis (scalar fields) ----------
    if rank == 0 and not partial and (not explicit or case.get("togrid")):
        spec2 = json.loads(json.dumps(spec))
        if spec2[0] == "unit":
            spec2 = ["cart", [[0, n] for n in shape], [n + 1 for n in shape], list(per)]
        elif spec2[0] == "cart":
            spec2[2] = [n + 1 for n in shape]
        elif spec2[0] in ("polar", "sph"):
            spec2[2] = shape[0] + 1
        else:
            spec2[3] = [n + 1 for n in shape]
        g2 = make_grid(spec2)
        content = field_content(np, geo, rank, "generic", seed)
        f.data[...] = content
        n_calls += 1
        try:
            res = f.interpolate_to_grid(g2, bc=bc_dict, fill=fill)
        except DomainError:
            res = None
        us2 = [[(j + 0.5) * shape[a] / (shape[a] + 1) for j in range(shape[a] + 1)] for a in range(d)]
        E = ghost_extend(np, geo, rank, content, bck)
        for a in range(d):
            E = np.tensordot(E, axis_weights(np, us2[a], shape[a], per[a], bck), axes=([0], [1]))
        n_points += E.size
        if res is None or res.data.shape != E.shape or not np.all(np.abs(res.data - E) <= 4 * TOL * max(1.0, float(np.abs(E).max()))):
            report("interpolate_to_grid differs from the reference interpolant", f"target {grid_name(spec2)}",
                   [[u[0]] for u in us], ["generic"], extra={"togrid": True})
        outs.add("interpolate_to_grid compared")

    # ---- recorded values of the other execution mode (replay of a mode-J/mode-I difference) -------
    if case.get("expect") is not None and values_first is not None:
        exp = np.asarray(case["expect"], dtype=float).reshape(values_first.shape)
        if not np.all(np.abs(values_first - exp)[..., accepted] <= TOL_J * max(1.0, float(np.abs(exp).max()))):
            report("compiled interpolator (mode J) differs from mode I", f"lattice {us}", us, names, extra={"expect": case["expect"]})

    classes = sorted({"/".join(c) for c in itertools.product(*[sorted({e[1] for e in la}) for la in lat])})
    for c, nm in enumerate(["centre", "between centres", "periodic seam", "boundary strip", "corner strip"]):
        if (accepted & (cat == c)).any():
            outs.add(f"compared: {nm}")
    if collinear_stats[0]:
        outs.add("linear approach to the boundary compared")
    res = {
        "v": viol[:8],
        "n": n_calls,
        "nt": bool(accepted.any() or is_out.any()),
        "keys": [] if partial else [f"{gname}|r{rank}|{bck}|{fill}|{c}" for c in classes],
        "outs": sorted(outs),
        "info": {"points": n_points, "lattice": int(np.prod(L)), "accepted": int(accepted.sum()),
                 "outside": int(is_out.sum()), "edge": int(is_edge.sum()), "fields": len(names),
                 "collinear": collinear_stats},
    }
    if case.get("ret") and values_first is not None:
        res["vals"] = values_first.ravel().tolist()
        res["acc"] = accepted.ravel().tolist()
    return res


# ----------------------------------------------------------------------------------------------
# worker 2: insertion
# ----------------------------------------------------------------------------------------------


def cell_volumes(np, geo):
    """independent cell volumes (full angular/azimuthal extent for the symmetric grids)"""
    kind = geo["kind"]
    if kind in ("unit", "cart"):
        v = np.ones(geo["shape"])
        for a, h in enumerate(geo["dx"]):
            v = v * h
        return v
    r0, h = geo["bounds"][0][0], geo["dx"][0]
    ri = np.array([r0 + i * h for i in range(geo["shape"][0])])
    ro = ri + h
    if kind == "polar":
        return math.pi * (ro**2 - ri**2)
    if kind == "sph":
        return 4 * math.pi / 3 * (ro**3 - ri**3)
    return np.outer(math.pi * (ro**2 - ri**2), np.full(geo["shape"][1], geo["dx"][1]))


def insert_case(case):
    """one (grid, rank): every interior lattice point x {empty field, generic field}; field.insert,
    the backend's inserter (python source in mode I, compiled in mode J)"""
    with quiet():
        return _insert_case(case)


def _insert_case(case):
    import numpy as np
    from pde.backends import get_backend
    from pde.grids.base import DomainError

    spec, rank, seed = case["grid"], case["rank"], case.get("seed", 0)
    geo = geometry(spec)
    grid = make_grid(spec)
    cls = _field_class(rank)
    d, shape, per = geo["num_axes"], geo["shape"], geo["periodic"]
    tshape = (geo["dim"],) * rank
    if case.get("lat") is not None:
        us = [[float(u) for u in la] for la in case["lat"]]
    else:
        us = [[u for u, _ in axis_lattice(shape[a], per[a]) if axis_state(u, shape[a], per[a]) != "out"] for a in range(d)]
    pre = f"{geo['kind']}{d}d|rank{rank}|insert"
    gname = grid_name(spec)
    amount = np.empty(tshape)
    for flat, tau in enumerate(np.ndindex(*tshape)):
        amount[tau] = (-1) ** flat * (1.7 + 0.25 * flat)
    amax = float(np.abs(amount).max())
    amt_arg = float(amount) if rank == 0 else amount
    vol = cell_volumes(np, geo)
    generic = np.random.default_rng(seed).uniform(-1, 2, size=tshape + tuple(shape))
    viol, seen, outs = [], set(), set()
    n = 0

    def report(what, msg, u):
        sig = f"{pre}|{what}"
        if sig in seen:
            return
        seen.add(sig)
        viol.append({"sig": sig, "msg": f"{gname} rank={rank}: {msg}", "detail": None, "fn": "checks.c16:insert_case",
                     "case": {"grid": spec, "rank": rank, "seed": seed, "lat": [[x] for x in u]}})

    hg = cls(grid, generic)
    I0 = np.asarray(hg.integral)
    I0_own = (generic * vol).reshape(tshape + (-1,)).sum(axis=-1)
    if not np.all(np.abs(I0 - I0_own) <= TOL_INS * (1 + np.abs(I0_own).max())):
        report("field.integral differs from the sum of cell volume x value", f"{I0.tolist()} vs {I0_own.tolist()}", [u[0] for u in us])
    inserter = get_backend("numba").make_inserter(grid)
    from mc import core as _core

    uniform = geo["kind"] in ("unit", "cart")
    # under JIT the out-of-bounds volume index on non-uniform grids is an unchecked memory read: mode I only
    # (and one more compilation: under JIT only where the case asks for it, uniform volumes only)
    with_g = _core.mode() != "J" or (uniform and case.get("ghost_j"))
    inserter_g = get_backend("numba").make_inserter(grid, with_ghost_cells=True) if with_g else None
    lo, dx = [b[0] for b in geo["bounds"]], geo["dx"]
    keys = set()
    for u in itertools.product(*us):
        x = np.array([lo[a] + u[a] * dx[a] for a in range(d)])
        edge = any(axis_state(u[a], shape[a], per[a]) == "edge" for a in range(d))
        keys.add("/".join(axis_class(u[a], shape[a], per[a]) for a in range(d)))
        h0 = cls(grid)
        n += 1
        try:
            h0.insert(x, amt_arg)
        except DomainError:
            if edge:
                outs.add("edge point refused by field.insert")
                continue
            report("field.insert refuses an interior point", f"u={list(u)} x={x.tolist()}", u)
            continue
        got = (h0.data * vol).reshape(tshape + (-1,)).sum(axis=-1).reshape(tshape)
        if not np.all(np.abs(np.asarray(h0.integral) - amount) <= TOL_INS * amax) or not np.all(np.abs(got - amount) <= TOL_INS * amax):
            report("integral of an empty field after insert differs from the amount",
                   f"u={list(u)} x={x.tolist()}: integral {np.asarray(h0.integral).tolist()!r} amount {amount.tolist()!r}", u)
        h1 = cls(grid, generic)
        n += 1
        h1.insert(x, amt_arg)
        if not np.all(np.abs(np.asarray(h1.integral) - I0 - amount) <= TOL_INS * (amax + float(np.abs(I0).max()))):
            report("integral does not increase by the inserted amount",
                   f"u={list(u)} x={x.tolist()}: {np.asarray(h1.integral - I0).tolist()!r} amount {amount.tolist()!r}", u)
        if not np.all(np.abs((h1.data - generic) - h0.data) <= TOL_INS * (1 + float(np.abs(h0.data).max()))):
            report("insert is not additive in the field content", f"u={list(u)}", u)
        data2 = np.zeros(tshape + tuple(shape))
        n += 1
        try:
            inserter(data2, x, amt_arg if rank == 0 else amount)
        except DomainError:
            if edge:
                outs.add("edge point refused by the backend inserter")
                continue
            report("backend inserter refuses an interior point", f"u={list(u)} x={x.tolist()}", u)
            continue
        if not np.all(np.abs(data2 - h0.data) <= TOL_INS * float(np.abs(h0.data).max())):
            k = tuple(int(i) for i in np.unravel_index(int(np.argmax(np.abs(data2 - h0.data))), data2.shape))
            report("backend inserter differs from field.insert", f"u={list(u)} x={x.tolist()}: at {k} inserter {data2[k]!r} "
                   f"field.insert {h0.data[k]!r}", u)
        outs.add("edge point conserved" if edge else "interior point conserved")
        # inserter working on the padded array (with_ghost_cells=True)
        if inserter_g is None:
            continue
        bulk = all(per[a] or 0.5 <= u[a] <= shape[a] - 0.5 for a in range(d))  # whole deposit in valid cells
        if not (bulk or uniform):
            continue  # boundary strip on non-uniform volumes: a ghost cell has no volume - no oracle
        hf = cls(grid)
        n += 1
        try:
            inserter_g(hf._data_full, x, amt_arg if rank == 0 else amount)
        except IndexError:
            if uniform:
                raise
            outs.add(f"{GHOST_NONUNIFORM} raises IndexError")
            report(f"{GHOST_NONUNIFORM} raises IndexError", f"u={list(u)} x={x.tolist()} (cell volume looked up at the shifted index)", u)
            continue
        if bulk:
            same = bool(np.all(np.abs(hf.data - h0.data) <= TOL_INS * float(np.abs(h0.data).max())))
        else:  # uniform volumes, boundary strip: part of the amount sits in ghost cells; the total over the padded array is the amount
            tot = hf._data_full.reshape(tshape + (-1,)).sum(axis=-1).reshape(tshape) * float(vol.flat[0])
            same = bool(np.all(np.abs(tot - amount) <= TOL_INS * amax))
        if same:
            outs.add("inserter with ghost cells: equals field.insert" if bulk else "inserter with ghost cells: padded total equals the amount")
        elif uniform:
            report("inserter with ghost cells differs from field.insert" if bulk else
                   "inserter with ghost cells: total over the padded array differs from the amount", f"u={list(u)} x={x.tolist()}", u)
        else:
            outs.add(f"{GHOST_NONUNIFORM} deposits a wrong amount")
            got_amt = (hf.data * vol).reshape(tshape + (-1,)).sum(axis=-1).reshape(tshape)
            report(f"{GHOST_NONUNIFORM} deposits a wrong amount", f"u={list(u)} x={x.tolist()}: integral increases by "
                   f"{got_amt.tolist()!r}, amount {amount.tolist()!r} (cell volume looked up at the shifted index)", u)
    return {"v": viol[:6], "n": n, "keys": [f"{gname}|r{rank}|{k}" for k in sorted(keys)], "outs": sorted(outs),
            "info": {"points": n}}


# ----------------------------------------------------------------------------------------------
# parent
# ----------------------------------------------------------------------------------------------

# mode J: 1/2/3 axes x (no periodic axis | periodic axis) - really compiled interpolators / inserters
J_GRIDS = [
    ["unit", [3], [False]],
    ["unit", [3], [True]],
    ["cart", [[0, 1], [-1, 3]], [2, 3], [False, False]],
    ["cart", [[0, 1], [-1, 3]], [3, 2], [True, False]],
    ["cart", [[0, 1], [0, 2], [0, 3]], [2, 2, 3], [False, False, False]],
    ["cart", [[0, 1], [0, 2], [-3, 3]], [2, 3, 2], [False, True, False]],
]
J_INSERT_GRIDS = [
    ["polar", [1, 2], 3],
    ["unit", [3], [True]],
    ["cyl", [1, 2], [0, 1], [2, 3], False],
    ["cyl", 2, [-1, 1], [3, 2], True],
    ["cart", [[0, 1], [0, 2], [0, 3]], [2, 2, 3], [False, False, False]],
    ["cart", [[0, 1], [0, 2], [-3, 3]], [2, 3, 2], [False, True, False]],
]


THOROUGH_EXTRA = [  # larger bounds of the thorough tier
    ["cart", [[0, 1], [0, 1], [0, 1]], [3, 3, 3], [False, False, True]],
    ["unit", [4, 4], [False, False]],
]

CHUNK = 250_000  # point evaluations per case (about 3 s in mode I)


def _cost(case):
    geo = geometry(case["grid"])
    pts = 1
    for n, p in zip(geo["shape"], geo["periodic"]):
        pts *= len(axis_lattice(n, p))
    nf = len(field_names(geo, case["rank"], case.get("basis", "full")))
    if case.get("chunk"):
        nf = -(-nf // case["chunk"][1])
    return pts * nf


def main(run):
    import numpy as np  # numpy only (no pde / numba in the parent)

    thorough = run.tier == "thorough"
    grids = SMALL_GRIDS + (MORE_GRIDS + THOROUGH_EXTRA if thorough else [])
    cases, icases = [], []
    for spec in grids:
        geo = geometry(spec)
        for rank in (0, 1, 2):
            icases.append({"grid": spec, "rank": rank, "seed": run.seed})
            for bck in bc_kinds(geo):
                for fill in (None, FILL):
                    c = {"grid": spec, "rank": rank, "bc": bck, "fill": fill, "seed": run.seed,
                         "basis": "product" if rank == 2 and geo["num_axes"] == 3 and (not thorough or spec in THOROUGH_EXTRA) else "full"}
                    m = -(-_cost(c) // CHUNK)  # split the field contents of expensive configurations over several cases
                    cases += [c] if m <= 1 else [{**c, "chunk": [k, m]} for k in range(m)]
    cases.sort(key=_cost, reverse=True)
    only = getattr(run, "only", None)
    pts = {"interpolation": 0, "insertion": 0}
    if not only or "interp" in only:
        for _, res in run.explore("checks.c16:lattice_case", cases, mode="I", part="interpolation lattice", chunksize=1, collect=True):
            pts["interpolation"] += res.get("info", {}).get("points", 0)
    if not only or "insert" in only:
        icases.sort(key=lambda c: _cost({**c, "basis": "product"}), reverse=True)
        for _, res in run.explore("checks.c16:insert_case", icases, mode="I", part="insertion", chunksize=1, collect=True):
            pts["insertion"] += res.get("info", {}).get("points", 0)

    # mode J conformance: the same worker, generic + zero field, values returned and compared in the parent
    jcases = []
    for spec in J_GRIDS:
        geo = geometry(spec)
        for ghost in (False, True):
            bck = ("periodic" if all(geo["periodic"]) else "value") if ghost else "none"
            variants = [(1 if ghost else 0, FILL if ghost else None)]
            if thorough:
                variants += [(2 if ghost else 1, None if ghost else FILL)]
            for rank, fill in variants:
                jcases.append({"grid": spec, "rank": rank, "bc": bck, "fill": fill, "seed": run.seed,
                               "fields": ["generic", "zero", "aff0"], "ret": True})
    jins = [{"grid": spec, "rank": r, "seed": run.seed, "ghost_j": thorough} for spec in J_INSERT_GRIDS for r in ((0, 1) if thorough else (0,))]
    if not only or "jit" in only:
        for c in jcases:
            c["lat"] = [[u for u, _ in axis_lattice(n, p)] for n, p in zip(geometry(c["grid"])["shape"], geometry(c["grid"])["periodic"])]
        ri = {json.dumps(c, sort_keys=True): r for c, r in
              run.explore("checks.c16:lattice_case", jcases, mode="I", part="mode-J subset in mode I", chunksize=1, collect=True)}
        rj = {json.dumps(c, sort_keys=True): r for c, r in
              run.explore("checks.c16:lattice_case", jcases, mode="J", part="compiled interpolators (mode J)", chunksize=1,
                          collect=True, limit=900)}
        compared = 0
        for c in jcases:
            k = json.dumps(c, sort_keys=True)
            a, b = ri.get(k, {}), rj.get(k, {})
            if "vals" not in a or "vals" not in b:
                run.violation({"sig": f"{sig_prefix(geometry(c['grid']), c['rank'], c['bc'])}|mode J conformance could not be evaluated",
                               "msg": "no values returned"}, fn="checks.c16:lattice_case", mode="J", case=c)
                continue
            va, vb = np.asarray(a["vals"]), np.asarray(b["vals"])
            acc_a, acc_b = np.asarray(a["acc"]), np.asarray(b["acc"])
            geo = geometry(c["grid"])
            L = [len(x) for x in c["lat"]]
            pre = sig_prefix(geo, c["rank"], c["bc"])
            # membership is compared where it is demanded (not within 1.5e-9 of the boundary), values where both returned one
            clear = np.ones(L, dtype=bool)
            for ax, (n_ax, p_ax) in enumerate(zip(geo["shape"], geo["periodic"])):
                st = np.array([axis_state(u, n_ax, p_ax) != "edge" for u in c["lat"][ax]])
                clear &= st.reshape([-1 if b == ax else 1 for b in range(len(L))])
            clear = clear.ravel()
            if not np.array_equal(acc_a & clear, acc_b & clear):
                k0 = int(np.argmax((acc_a != acc_b) & clear))
                idx = np.unravel_index(k0, L)
                cc = {**c, "lat": [[c["lat"][ax][i]] for ax, i in enumerate(idx)]}
                run.violation({"sig": f"{pre}|membership differs between mode J and mode I", "msg": f"lattice point {cc['lat']}"},
                              fn="checks.c16:lattice_case", mode="J", case=cc)
                continue
            ncomp = va.size // acc_a.size
            diff = (np.abs(va - vb).reshape(ncomp, -1).max(axis=0)) * (acc_a & acc_b)
            compared += int((acc_a & acc_b).sum())
            scale = max(1.0, float(np.abs(va).max()))
            if not np.all(diff <= TOL_J * scale):
                k0 = int(np.argmax(diff))
                idx = np.unravel_index(k0, L)
                cc = {**c, "lat": [[c["lat"][ax][i]] for ax, i in enumerate(idx)], "fields": ["generic"],
                      "expect": va.reshape(ncomp, -1)[:, k0].tolist()}
                run.violation({"sig": f"{pre}|compiled interpolator (mode J) differs from mode I",
                               "msg": f"{grid_name(c['grid'])} rank={c['rank']} at u={cc['lat']}: J {vb.reshape(ncomp, -1)[:, k0].tolist()} "
                                      f"I {va.reshape(ncomp, -1)[:, k0].tolist()}"}, fn="checks.c16:lattice_case", mode="J", case=cc)
        run.explore("checks.c16:insert_case", jins, mode="J", part="compiled inserters (mode J)", chunksize=1, limit=900)
        run.notes["mode_J"] = {"compiled_interpolators": len(jcases), "compiled_inserters": len(jins),
                               "points_compared_J_vs_I": compared}
    run.notes["point_evaluations"] = pts
    max_kappa = 0.0
    for spec in grids:
        geo = geometry(spec)
        k = 0.0
        for a, (n_ax, p_ax) in enumerate(zip(geo["shape"], geo["periodic"])):
            lo_a, dx_a = geo["bounds"][a][0], geo["dx"][a]
            k += max((abs(lo_a + u * dx_a) + abs(lo_a)) / dx_a + 1.0 for u, _ in axis_lattice(n_ax, p_ax))
        max_kappa = max(max_kappa, k)
    run.notes["bounds"] = {
        "max_kappa": max_kappa,
        "grids": len(grids), "ranks": [0, 1, 2], "fill": [None, FILL],
        "bc": "none | value (distinct per axis/side/component) | derivative 0; periodic axes: periodic",
        "lattice_sizes_per_axis": {f"N={n},periodic={p}": len(axis_lattice(n, p)) for n in (1, 2, 3, 4, 5) for p in (False, True)},
        "basis": "zero, every unit basis field (component x cell), affine basis (1, x_1..x_d) x component marker, one generic field"
                 + ("; rank 2 on the 3x3x3 grid" if thorough else "; quick tier, rank 2 on 3 axes") + ": product covering instead of the "
                 "full basis (marked components x every cell basis vector, every component x generic cell content)",
    }
    run.assumptions += [
        "reading of 'multilinear interpolant' without bc: constant extension in the boundary half cell (clamp to the nearest "
        "centre), as documented in make_interpolation_axis_data ('nearest-neighbor interpolation at boundary'); the range "
        "clause of the property holds only under this reading",
        "with bc: ghost = 2v - c (value), c (derivative 0), opposite cell (periodic); edge/corner ghost cells are not determined "
        "by any condition and are modelled as documented for set_corners=True: mean of the adjacent ghost cells",
        "'approaches the imposed value linearly' is demanded where exactly one non-periodic axis is in its boundary half cell; in "
        "the corner region py-pde's value on the face is not the imposed value (counted as an outcome class, reported by the author)",
        "points with |u - boundary| <= 1.5e-9 cell widths are excluded from the membership clause (either refusal or the "
        "continuous value is accepted); all other lattice points are at least 0.1 cell widths from the boundary",
        "tolerance of values: max(1e-13, 16 eps kappa) x max(1, |data|, |ghost|) with kappa = sum_a (|x_a| + |lo_a|)/dx_a + 1 the "
        "condition of recomputing cell coordinates from grid coordinates (largest value in notes.bounds.max_kappa); insertion 1e-12",
        "one field object per case, contents written in place into the same buffer (the cached interpolator stays valid; the "
        "separate cache defect after re-linking a field into a collection is not exercised here)",
        "mode J: compiled code is compared with the values of the same worker in mode I (parent process) and with the reference; "
        "fast-math reassociation allows 1e-12",
        "field.insert / make_inserter: only interior points are demanded (points outside are not covered by the property; "
        "observation: field.insert accepts points up to half a cell outside, the backend inserter raises DomainError there)",
        "make_inserter(with_ghost_cells=True): compared with field.insert where the whole deposit lies in valid cells; on uniform "
        "volumes also in the boundary strip (total over the padded array); on non-uniform volumes evaluated in mode I only (the "
        "defective volume index is an unchecked out-of-bounds read under JIT)",
    ]
    return (
        "all (grid, rank 0-2, bc, fill) configurations; per configuration the full product lattice of per-axis points (centres, "
        "faces, +-1e-9, quarter points, boundary strip, seam +- period, outside near/far), each point singly (generic field) and "
        "in batches for every content of the determining set (zero, every unit basis field, affine basis, generic); insertion at "
        "every non-outside lattice point x rank; distinct = (configuration, per-axis point-class combination)"
    )
