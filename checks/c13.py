"""C13 - stochastic steps add exactly the documented noise, reproducibly.

Exhaustive enumeration (no sampling) of

    grid x state kind x noise kind x initial-state kind x interpretation x solver     (one *case*)
      x dt x steps x generator seed                                 (looped inside the worker)

Initial-state kinds: generic (seeded), identically zero, non-zero constant, mixed (every other entry
exactly zero).  The special ones are combined with the noise kinds in which the state enters the noise
(var = v0 u^2; var = g0 + g2 u^2, whose derivative vanishes at u = 0; var = v0 u^2 with the drift
du/dt = 0.3 - 0.5 u, where variance and derivative vanish at the start but not later) and with scalar
additive noise; for them only the update and the generator state are compared ("light").  The statement
draws once per step whatever the variance is at that step; so does the oracle.

on the numpy backend, compared with an independent re-implementation of the documented update
that uses the *replicated generator* (``np.random.default_rng(seed).standard_normal(data.shape)``
once per step).  Cell volumes are recomputed from the grid specification.  See DESIGN.md, C13.

What is demanded (property statement, nothing more):

* euler:     u' = u + dt f(u) + sqrt(var dt / V) xi + 1/2 alpha dt var'(u) / V
* milstein:  u' = euler + 1/4 var'(u)/V (dW^2 - dt),  dW = sqrt(dt) xi
* implicit:  the increment sqrt(var dt / V) xi is added to the state the iteration starts from,
  i.e. u' solves u' = (u + incr) + dt f(u')   (closed form for the linear test rate)
* alpha = 0 (ito), 1/2 (stratonovich), 1 (anti-ito); var, var' evaluated at the state *before* the step
* agreement to 1e-12 relative to max(1, |u|): every step is <= 12 flops, at most five steps, errors
  grow like the state itself: round-off <= 1e-14 (observed <= 4e-15); anything realistic that is
  wrong (power of dt or V, factor of the drift, order of draws) changes the result by > 1e-4.
  The semi-implicit iteration stops on an *absolute* criterion; it is run with
  maxerror = 1e-15 max(1, |u|) and the error that this stopping rule admits is added to the tolerance
  (``implicit_slack``; at most 5e-11 relative, reached only where the state grows by 10^5)
* exactly one draw of the data's shape per step: the generator handed to the equation is, after
  the run, in the state of the reference generator after ``steps`` draws
* bit-for-bit reproducibility for equal seeds (fresh equation, re-assigned ``eq.rng``, integer seed),
  different seeds give different results, consecutive ``solve`` calls continue the stream
* vanishing variance gives bitwise the deterministic result of the same solver (euler/milstein; for
  the iterative semi-implicit scheme the noise-free components share the global convergence test
  with the noisy ones, so only 1e-14 is demanded there)

*Not* demanded (recorded as outcome classes only): what the semi-implicit solver does for
field-dependent variance with a non-Ito interpretation (it silently adds no drift); whether the
generator is touched for vanishing variance; that variances below 1e-14 are treated as zero.

numba backend: mode I (the backend draws from numpy's legacy global generator; seeded through
``pde.tools.numba.random_seed`` and replicated) and mode J (really compiled steppers; numba's own
generator replicated by re-seeding and drawing through a jitted ``np.random.randn``).
"""

from __future__ import annotations

import math

PROPERTY = "C13"
LEVEL = "exploration"

ALPHA = {"ito": 0.0, "stratonovich": 0.5, "anti-ito": 1.0}
SOLVERS = ["euler", "milstein", "implicit"]
DTS = [0.01, 0.1]
STEPS = [1, 2, 3]
SEEDS = [0, 1, 2]
RATE = -0.5  # du/dt = RATE * u for the harness equations
PDE_RATES = [-0.5, -0.25, -0.75]  # per field for the `PDE` class
VARS = ["u", "c", "b"]  # deliberately NOT in alphabetical order: per-field noise follows the order of the fields
ITER = {"maxerror": 1e-15, "maxiter": 1000}
TOL = 1e-12
V0 = 0.2  # var(u) = V0 u^2
# field-dependent variance var(u) = g0 + g2 u^2 (var' = 2 g2 u) with deterministic part du/dt = b + RATE u
FD_FORMS = {
    "field-dependent": {"g0": 0.0, "g2": V0, "b": 0.0},
    "field-dependent-nodiff": {"g0": 0.0, "g2": V0, "b": 0.0},
    "field-dependent-g0g2": {"g0": 0.1, "g2": 0.25, "b": 0.0},  # var' vanishes at u = 0, var does not
    "field-dependent-drift": {"g0": 0.0, "g2": V0, "b": 0.3},  # var and var' vanish at u = 0, the state leaves 0
}
# initial-state kinds; the special ones (exact zeros, constants) are where code that probes the example
# state for "is the noise additive / absent?" goes wrong
INITS = ["generic", "zero", "const", "mixed"]
INIT_NOISE_KINDS = ["scalar", "field-dependent", "field-dependent-g0g2", "field-dependent-drift"]

GRIDS = [
    ("cart", ["cart", [[0, 1]], [4], [True]]),  # uniform, V = 1/4 (a unit grid hides powers of V)
    ("aniso", ["cart", [[0, 1], [-1, 3]], [2, 3], [False, True]]),
    ("polar", ["polar", [1, 2], 3]),
    ("sph-hole", ["sph", [0.5, 2], 3]),
    ("cyl", ["cyl", 2, [-1, 1], [3, 2], True]),
]
GRIDS_MORE = [
    ("unit", ["unit", [3], [False]]),
    ("cart-tiny", ["cart", [[1e-3, 3e-3]], [5], [False]]),
    ("cart3d", ["cart", [[0, 1], [0, 2], [-3, 3]], [2, 3, 2], [False, True, False]]),
    ("polar-full", ["polar", 2, 3]),
    ("sph-full", ["sph", 2, 3]),
    ("cyl-hole", ["cyl", [1, 2], [0, 1], [2, 3], False]),
    ("polar5", ["polar", [0.5, 3], 5]),
    ("sph4", ["sph", 1, 4]),
    ("cyl34", ["cyl", [0.5, 1.5], [-2, 2], [3, 4], True]),
]

BOUNDS = {
    "quick": {"dts": DTS, "steps": STEPS, "seeds": SEEDS},
    "thorough": {"dts": DTS + [1 / 3], "steps": STEPS + [5], "seeds": SEEDS},
}
# bounds of the sub-alphabet with special initial states (update + generator state only, see `light`)
BOUNDS_INIT = {
    "quick": {"dts": [0.1], "steps": STEPS, "seeds": SEEDS},
    "thorough": {"dts": DTS + [1 / 3], "steps": STEPS + [5], "seeds": SEEDS},
}

# state kind -> ranks of the member fields (collections are FieldCollections of mixed rank)
STATE_KINDS = {"scalar": [0], "vector": [1], "tensor": [2], "coll-vs": [1, 0], "coll-svt": [0, 1, 2]}
STATE_KINDS_MORE = {"coll-ss": [0, 0], "coll-tvs": [2, 1, 0]}

COMP_V = [0.3, 0.0, 0.7]
COMP_T = [[0.3, 0.0, 0.7], [0.2, 0.5, 0.0], [0.0, 0.1, 0.4]]
PER_FIELD = [0.3, 0.0, 0.7]
FIELD_LIST = [0.2, 0.6, 0.1]


# ----------------------------------------------------------------------------------------------
# alphabet (parent side: no pde import)
# ----------------------------------------------------------------------------------------------


def noise_specs(kind: str, ranks: list, dim: int, tier: str) -> list:
    """all noise specifications that the state kind supports"""
    coll = kind.startswith("coll")
    nf = len(ranks)
    out = [
        {"kind": "zero", "cls": "sde", "noise": 0.0},
        {"kind": "scalar", "cls": "sde", "noise": 0.3},
    ]
    if not coll and ranks[0] == 1:
        out.append({"kind": "component", "cls": "sde", "noise": COMP_V[:dim]})
    if not coll and ranks[0] == 2:
        out.append({"kind": "component", "cls": "sde", "noise": [row[:dim] for row in COMP_T[:dim]]})
        if tier == "thorough":  # one variance per column, broadcast over the rows
            out.append({"kind": "component-row", "cls": "sde", "noise": COMP_V[:dim]})
    if coll:
        out.append({"kind": "per-field", "cls": "sde", "noise": PER_FIELD[:nf]})
    if not coll or max(ranks) <= 1:
        # the `PDE` class cannot evaluate collections with rank-2 members (ValueError in
        # `evolution_rate`, unrelated to noise): not part of this alphabet
        out.append({"kind": "scalar-PDE", "cls": "pde", "noise": 0.3})
        if coll:
            out.append({"kind": "field-list", "cls": "pde", "noise": FIELD_LIST[:nf]})
            out.append({"kind": "field-dict", "cls": "pde", "noise": {VARS[0]: 0.4}})  # others: 0
            out.append({"kind": "field-dict2", "cls": "pde", "noise": {VARS[1]: 0.2, VARS[0]: 0.4}})  # given in another order
    for k, form in FD_FORMS.items():
        out.append({"kind": k, "cls": "mulnodiff" if k.endswith("nodiff") else "mul", "noise": form["g2"], **form})
    out.append({"kind": "tiny", "cls": "sde", "noise": 1e-15})
    return out


def build_cases(tier: str, vseed: int, backend: str = "numpy") -> list:
    from checks._grids import geometry

    grids = GRIDS + (GRIDS_MORE if tier == "thorough" else [])
    kinds = dict(STATE_KINDS)
    if tier == "thorough":
        kinds.update(STATE_KINDS_MORE)
    cases = []
    for gname, spec in grids:
        dim = geometry(spec)["dim"]
        for kind, ranks in kinds.items():
            for ns in noise_specs(kind, ranks, dim, tier):
                for init in INITS:
                    if init != "generic" and ns["kind"] not in INIT_NOISE_KINDS:
                        continue  # the state does not enter the noise of the other kinds
                    for interp in ALPHA:
                        for solver in SOLVERS:
                            c = {
                                "gname": gname,
                                "grid": spec,
                                "state": kind,
                                "ranks": ranks,
                                "noise": ns,
                                "init": init,
                                "interp": interp,
                                "solver": solver,
                                "backend": backend,
                                "vseed": vseed,
                            }
                            c.update(BOUNDS[tier] if init == "generic" else dict(BOUNDS_INIT[tier], light=True))
                            cases.append(c)
    return cases


# ----------------------------------------------------------------------------------------------
# worker side helpers
# ----------------------------------------------------------------------------------------------

_CACHE: dict = {}


def lib():
    """import py-pde lazily (inside workers) and build the harness equations once"""
    if _CACHE:
        return _CACHE
    import numpy as np
    from pde import FieldCollection, ScalarField, Tensor2Field, VectorField
    from pde.pdes.base import PDEBase, SDEBase
    from pde.pdes.pde import PDE

    class Decay(PDEBase):
        """du/dt = b + a u (deterministic reference)"""

        def __init__(self, a, b=0.0):
            super().__init__()
            self.a, self.b = a, b

        def evolution_rate(self, state, t=0):
            if self.b == 0:
                return self.a * state
            return self.a * state + self.b

        def make_evolution_rate(self, state, backend):
            a, b = self.a, self.b
            if b == 0:

                def rhs(x, t):
                    return a * x

            else:

                def rhs(x, t):
                    return a * x + b

            return rhs

    class DecaySDE(SDEBase):
        """du/dt = b + a u + additive noise handled entirely by `SDEBase`"""

        def __init__(self, a, b=0.0, **kw):
            super().__init__(**kw)
            self.a, self.b = a, b

        evolution_rate = Decay.evolution_rate
        make_evolution_rate = Decay.make_evolution_rate

    class MulSDE(DecaySDE):
        """du/dt = b + a u + noise of variance g0 + g2 u^2 (field dependent)"""

        provide_diff = True

        def __init__(self, a, b=0.0, g0=0.0, g2=V0, **kw):
            super().__init__(a, b, noise=g2, **kw)  # (a non-zero `noise` makes `is_sde` true)
            self.g0, self.g2 = float(g0), float(g2)

        def make_noise_variance(self, state, *, backend, ret_diff=False):
            g0, g2 = self.g0, self.g2
            if ret_diff:
                if not self.provide_diff:
                    raise NotImplementedError("C13-harness: derivative of the variance is not available")

                def noise_var_diff(x, t):
                    return g0 + g2 * x**2, 2 * g2 * x

                return noise_var_diff

            def noise_var(x, t):
                return g0 + g2 * x**2

            return noise_var

    class MulSDENoDiff(MulSDE):
        provide_diff = False

    _CACHE.update(locals())
    _CACHE["np"] = np
    return _CACHE


def cell_volumes(np, spec):
    """cell volumes computed from the specification only"""
    from checks._grids import geometry

    geo = geometry(spec)
    edges = [np.array([b[0] + i * d for i in range(n + 1)]) for b, n, d in zip(geo["bounds"], geo["shape"], geo["dx"])]
    kind = geo["kind"]
    if kind in ("unit", "cart"):
        return np.full(geo["shape"], math.prod(geo["dx"]))
    r = edges[0]
    if kind == "polar":
        return math.pi * (r[1:] ** 2 - r[:-1] ** 2)
    if kind == "sph":
        return 4 / 3 * math.pi * (r[1:] ** 3 - r[:-1] ** 3)
    return (math.pi * (r[1:] ** 2 - r[:-1] ** 2))[:, None] * np.full(geo["shape"][1], geo["dx"][1])[None, :]


def make_state(L, grid, kind, ranks, vseed, init="generic"):
    """generic: +-[0.5, 1.5] from VERIF_SEED; zero; const: 0.75 everywhere; mixed: generic with every other
    entry (in memory order, per field) exactly zero"""
    np = L["np"]
    cls = {0: L["ScalarField"], 1: L["VectorField"], 2: L["Tensor2Field"]}
    rng = np.random.default_rng([12345, int(vseed)])
    fields = []
    for r in ranks:
        shape = (grid.dim,) * r + tuple(grid.shape)
        data = rng.uniform(0.5, 1.5, shape) * np.where(rng.random(shape) < 0.5, -1.0, 1.0)
        if init == "zero":
            data = np.zeros(shape)
        elif init == "const":
            data = np.full(shape, 0.75)
        elif init == "mixed":
            data.flat[::2] = 0.0
        elif init != "generic":
            raise ValueError(init)
        fields.append(cls[r](grid, data))
    if kind.startswith("coll"):
        return L["FieldCollection"](fields)
    return fields[0]


def full_variances(np, ns, kind, ranks, dim, num_axes):
    """variance per component as an array broadcastable to the data (independent of the library)"""
    if not kind.startswith("coll"):
        arr = np.broadcast_to(np.asarray(ns["noise"], dtype=float), (dim,) * ranks[0]).copy()
    else:
        nf = len(ranks)
        if isinstance(ns["noise"], dict):
            per = np.array([float(ns["noise"].get(v, 0.0)) for v in VARS[:nf]])
        else:
            per = np.broadcast_to(np.asarray(ns["noise"], dtype=float), (nf,))
        arr = np.repeat(per, [dim**r for r in ranks])
    return arr.reshape(arr.shape + (1,) * num_axes)


def full_rates(np, ns, kind, ranks, dim, num_axes):
    if ns["cls"] != "pde":
        return RATE
    if not kind.startswith("coll"):
        return PDE_RATES[0]
    arr = np.repeat(np.array(PDE_RATES[: len(ranks)]), [dim**r for r in ranks])
    return arr.reshape(arr.shape + (1,) * num_axes)


def make_eq(L, case, rng, *, deterministic=False):
    ns = case["noise"]
    interp = case["interp"]
    nf = len(case["ranks"])
    if ns["cls"] == "pde":
        rhs = {v: f"{PDE_RATES[i]}*{v}" for i, v in enumerate(VARS[:nf])}
        if deterministic:
            return L["PDE"](rhs)
        return L["PDE"](rhs, noise=ns["noise"], noise_interpretation=interp, rng=rng)
    b = ns.get("b", 0.0)
    if deterministic:
        return L["Decay"](RATE, b)
    if ns["cls"] == "sde":
        return L["DecaySDE"](RATE, noise=ns["noise"], noise_interpretation=interp, rng=rng)
    cls = {"mul": "MulSDE", "mulnodiff": "MulSDENoDiff"}[ns["cls"]]
    return L[cls](RATE, b, ns["g0"], ns["g2"], noise_interpretation=interp, rng=rng)


def variance_model(np, case, u0, grid):
    """u -> (var, var', d sqrt(var)/du) of the case, full data shape; the last one only feeds error bounds"""
    ns = case["noise"]
    if ns["cls"] in ("mul", "mulnodiff"):
        g0, g2 = ns["g0"], ns["g2"]

        def var_of(u):
            var = g0 + g2 * u**2
            if g0 == 0:  # sqrt(var) = sqrt(g2) |u|
                dsq = np.full_like(u, math.sqrt(g2))
            else:
                dsq = g2 * u / np.sqrt(var)
            return var, 2 * g2 * u, dsq

        return var_of, None
    var_comp = full_variances(np, ns, case["state"], case["ranks"], grid.dim, grid.num_axes)
    zeros = np.zeros_like(u0)
    var_arr = var_comp + zeros

    def var_of(u):
        return var_arr, zeros, zeros

    return var_of, var_comp


def oracle(np, u0, V, a, var_of, alpha, solver, dt, xis, *, b=0.0, implicit_drift=False, ret_info=False):
    """the documented update for du/dt = b + a u + noise, step by step; one normal array per step, whatever
    the variance happens to be at that step

    With ``ret_info`` also returns the largest magnitude met on the way and, for the semi-implicit scheme,
    ``growth`` = sum over the steps k of the factor by which an error made in step k is amplified until the
    end.  The maps are local, so the factor is the product over the later steps j of
    |d u_{j+1} / d u_j| = |1 + xi_j sqrt(dt / V) d sqrt(var)/du| / (1 - a dt), maximised over the components."""
    u = u0.copy()
    scale = float(np.max(np.abs(u)))
    jac = []
    for xi in xis:
        var, dvar, dsq = var_of(u)
        if solver == "euler":
            u = u + dt * (b + a * u) + np.sqrt(var * dt / V) * xi + 0.5 * alpha * dt * dvar / V
        elif solver == "milstein":
            dW = math.sqrt(dt) * xi
            u = (u + dt * (b + a * u) + np.sqrt(var / V) * dW + 0.5 * alpha * dt * dvar / V
                 + 0.25 * dvar / V * (dW**2 - dt))
        else:  # u' = (u + incr) + dt (b + a u')
            start = u + np.sqrt(var * dt / V) * xi
            if implicit_drift:
                start = start + 0.5 * alpha * dt * dvar / V
            jac.append(np.abs(1 + xi * np.sqrt(dt / V) * dsq) / (1 - a * dt) + 0 * u)
            u = (start + dt * b) / (1 - a * dt)
        scale = max(scale, float(np.max(np.abs(u))))
    if not ret_info:
        return u
    growth = float(len(xis))
    if solver == "implicit":
        growth, amp = 0.0, np.ones_like(u)
        for j in reversed(jac):  # error of step k is amplified by the steps after it
            growth += float(np.max(amp))
            amp = amp * j
    return u, {"scale": scale, "growth": growth}


def implicit_slack(np, solver, dt, a, size, scale, growth):
    """absolute error that the stopping rule of the semi-implicit iteration admits: it stops when the rms
    change is < maxerror, i.e. every component changed by < sqrt(size) maxerror and is then within
    |z|/(1-|z|) of that from the fixed point (contraction z = a dt); amplified until the end by `growth`"""
    if solver != "implicit":
        return 0.0
    z = float(np.max(np.abs(a))) * dt
    return math.sqrt(size) * iter_args(solver, scale)["maxerror"] * z / (1 - z) * growth


def iter_args(solver, scale=1.0):
    """arguments that make the fixed-point iteration of the semi-implicit scheme converge to round-off:
    its criterion is *absolute* (rms change < maxerror), so it is tied to the magnitude of the state"""
    if solver != "implicit":
        return {}
    return {"maxerror": ITER["maxerror"] * max(1.0, scale), "maxiter": ITER["maxiter"]}


def run_solve(eq, s0, case, dt, steps, *, deterministic=False, scale=1.0):
    solver = case["solver"]
    if deterministic and solver == "milstein":
        solver = "euler"  # Milstein refuses equations without a noise variance; its noise-free limit is Euler
    extra = iter_args(solver, scale)
    res, info = eq.solve(
        s0, t_range=steps * dt, dt=dt, solver=solver, backend=case["backend"], tracker=None, ret_info=True, **extra
    )
    return res.data.copy(), info["solver"]["steps"]


_MAXREL = [0.0, 0.0]  # largest accepted deviation / scale; largest fraction of (tol*scale + slack) used when slack was needed


def _close(np, got, exp, tol=TOL, slack=0.0):
    """|got - exp| <= tol * max(1, |exp|) + slack   (slack: see implicit_slack)"""
    scale = max(1.0, float(np.max(np.abs(exp))))
    err = float(np.max(np.abs(got - exp)))
    ok = err <= tol * scale + slack
    if err <= tol * scale:
        _MAXREL[0] = max(_MAXREL[0], err / scale)  # largest accepted deviation (reported in the evidence)
    elif ok:
        _MAXREL[1] = max(_MAXREL[1], err / (tol * scale + slack))
    return ok, err


def _label(case):
    init = case.get("init", "generic")
    return (f"{case['gname']}|{case['state']}|{case['noise']['kind']}|{case['interp']}|{case['solver']}"
            + ("" if init == "generic" else f"|init={init}"))


# ----------------------------------------------------------------------------------------------
# main worker: one (grid, state, noise, interpretation, solver) configuration
# ----------------------------------------------------------------------------------------------


def sde_case(case):
    L = lib()
    np = L["np"]
    from checks._grids import make_grid

    backend = case.get("backend", "numpy")
    case = dict(case, backend=backend)
    numba_backend = backend == "numba"
    if numba_backend:
        from pde.tools.numba import random_seed
    fn = "checks.c13:sde_case"
    label = _label(case) + ("|numba-backend" if numba_backend else "")
    ns, kind, ranks, solver, interp = case["noise"], case["state"], case["ranks"], case["solver"], case["interp"]
    alpha = ALPHA[interp]
    grid = make_grid(case["grid"])
    V = cell_volumes(np, case["grid"])
    if not np.allclose(V, grid.cell_volumes, rtol=1e-13, atol=0):
        raise AssertionError(f"oracle geometry disagrees with grid.cell_volumes: {V} vs {grid.cell_volumes}")
    s0 = make_state(L, grid, kind, ranks, case["vseed"], case.get("init", "generic"))
    u0 = s0.data.copy()
    a = full_rates(np, ns, kind, ranks, grid.dim, grid.num_axes)
    b = ns.get("b", 0.0)
    fd = ns["cls"] in ("mul", "mulnodiff")
    var_of, var_comp = variance_model(np, case, u0, grid)
    # light: special initial states - only the update and the generator state are compared (reproducibility,
    # stream continuation, zero-variance components are covered by the generic initial state)
    light = bool(case.get("light"))
    vanishing = (not fd) and float(np.max(var_comp)) <= 1e-14  # incl. the documented-by-code threshold
    zero_rows = None
    if not fd and not vanishing and bool(np.any(var_comp == 0)):
        zero_rows = np.broadcast_to(var_comp == 0, u0.shape)

    dts, stepss, seeds = case.get("dts", DTS), case.get("steps", STEPS), case.get("seeds", SEEDS)
    only = case.get("only")
    viol, keys, outs, refs, n = [], [], set(), [], 0
    _MAXREL[:] = [0.0, 0.0]

    def bad(clause, dt, steps, seed, **detail):
        c = dict(case)
        c["only"] = [dt, steps, seed]
        viol.append(
            {
                "sig": f"{label}|{clause}",
                "msg": f"{label}: {clause}: dt={dt} steps={steps} seed={seed} {detail}",
                "detail": detail,
                "case": c,
                "fn": fn,
            }
        )

    def reference_draws(seed, steps):
        """the normal numbers the run has to use, and the generator state it has to leave behind"""
        if numba_backend:
            random_seed(seed)
            xis = [np.random.randn(*u0.shape) for _ in range(steps)]
            return xis, np.random.get_state()
        ref = np.random.default_rng(seed)
        xis = [ref.standard_normal(u0.shape) for _ in range(steps)]
        return xis, ref.bit_generator.state

    def same_state(s1, s2):
        if numba_backend:
            return all(np.array_equal(x, y) for x, y in zip(s1, s2))
        return s1 == s2

    for dt in dts:
        for steps in stepss:
            if only and [dt, steps] != list(only[:2]):
                continue
            det = None
            if not light:
                det, _ = run_solve(make_eq(L, case, None, deterministic=True), s0, case, dt, steps, deterministic=True)
                n += 1
            per_seed = {}
            for seed in seeds:
                if only and seed != only[2]:
                    continue
                gen = np.random.default_rng(seed)
                pristine = gen.bit_generator.state
                eq = make_eq(L, case, gen)
                if eq.rng is not gen:
                    bad("the equation does not own the generator it was given", dt, steps, seed)
                scale, slack = 1.0, 0.0
                if not vanishing:
                    xis, ref_state = reference_draws(seed, steps)
                    exp, oinfo = oracle(np, u0, V, a, var_of, alpha, solver, dt, xis, b=b, ret_info=True)
                    scale = oinfo["scale"]
                    if solver == "implicit" and fd and alpha != 0:
                        scale *= 10  # nothing is demanded there; leave room for the other reading
                    slack = implicit_slack(np, solver, dt, a, u0.size, scale, oinfo["growth"])
                if numba_backend:
                    random_seed(seed)
                try:
                    got, nsteps = run_solve(eq, s0, case, dt, steps, scale=scale)
                    n += 1
                except NotImplementedError as exc:
                    if "C13-harness" in str(exc):
                        refs.append(f"{solver}/{interp}: needs the derivative of the variance, which the equation does not provide")
                        outs.add("refused: no variance derivative")
                        continue
                    raise
                if not np.array_equal(s0.data, u0):
                    bad("the initial state was modified", dt, steps, seed)
                if nsteps != steps:
                    bad("reported steps != requested", dt, steps, seed, reported=nsteps)
                state_after = np.random.get_state() if numba_backend else gen.bit_generator.state
                key = f"{label}|{dt}|{steps}|{seed}"

                # ---- vanishing variance: the deterministic result, bitwise ------------------------
                if vanishing:
                    if not np.array_equal(got, det):
                        bad("vanishing variance does not give the deterministic result bitwise", dt, steps, seed,
                            err=float(np.max(np.abs(got - det))))
                    if ns["kind"] == "tiny":
                        outs.add("variance 1e-15 treated as zero (is_sde False): deterministic result")
                    else:
                        touched = not numba_backend and state_after != pristine
                        outs.add("zero variance: deterministic" + (", generator consumed" if touched else ""))
                    keys.append(key)
                    continue

                observe_only = solver == "implicit" and fd and alpha != 0
                ok, err = _close(np, got, exp, slack=slack)
                if observe_only:
                    # not demanded by the property: classify what the semi-implicit solver does
                    if ok:
                        outs.add(f"semi-implicit + field-dependent variance + {interp}: increment only, drift silently omitted")
                    else:
                        exp2 = oracle(np, u0, V, a, var_of, alpha, solver, dt, xis, b=b, implicit_drift=True)
                        outs.add(
                            f"semi-implicit + field-dependent variance + {interp}: "
                            + ("drift added to the start state" if _close(np, got, exp2, slack=slack)[0] else "neither reading")
                        )
                elif not ok:
                    bad("increment differs", dt, steps, seed, err=err, allowed=TOL * max(1.0, float(np.max(np.abs(exp)))) + slack,
                        got=got.ravel()[:3].tolist(), exp=exp.ravel()[:3].tolist())
                else:
                    outs.add("ok: stochastic update matches")
                if not same_state(state_after, ref_state):
                    bad("generator state after the run is not that of one draw per step", dt, steps, seed)
                per_seed[seed] = (got, exp)
                if light:
                    keys.append(key)
                    continue

                # ---- components without variance evolve deterministically ---------------------------
                if zero_rows is not None:
                    if solver == "implicit":
                        # same iterates as the deterministic run, but the (global, absolute) stopping test is met
                        # after a different number of iterations: |difference| <= sqrt(size) * maxerror per step
                        merr = iter_args(solver, scale)["maxerror"] + ITER["maxerror"]
                        ztol = 1e-15 + steps * math.sqrt(got.size) * merr
                        zok = float(np.max(np.abs(got[zero_rows] - det[zero_rows]))) <= ztol
                    else:
                        zok = np.array_equal(got[zero_rows], det[zero_rows])
                    if not zok:
                        bad("components with zero variance differ from the deterministic result", dt, steps, seed,
                            err=float(np.max(np.abs(got[zero_rows] - det[zero_rows]))))
                    noisy = ~zero_rows
                    if np.any(got[noisy] == det[noisy]):
                        bad("a component with non-zero variance received no noise", dt, steps, seed)
                elif np.any(got == det):  # (generic initial state: the variance is non-zero everywhere)
                    bad("a component with non-zero variance received no noise", dt, steps, seed)

                # ---- reproducibility: same equation object, generator re-assigned --------------------
                if numba_backend:
                    random_seed(seed)
                else:
                    eq.rng = np.random.default_rng(seed)
                again, _ = run_solve(eq, s0, case, dt, steps, scale=scale)
                n += 1
                if not np.array_equal(again, got):
                    bad("two runs with the same seed are not bitwise equal", dt, steps, seed,
                        err=float(np.max(np.abs(again - got))))

                # ---- consecutive solves continue the stream (fresh equation, integer seed) -----------
                if steps == max(stepss) or only:
                    if numba_backend:
                        random_seed(seed)
                        eq2 = make_eq(L, case, None)
                    else:
                        eq2 = make_eq(L, case, seed)  # rng=<seed>
                    cur = s0
                    for _ in range(steps):
                        cur = eq2.solve(cur, t_range=dt, dt=dt, solver=solver, backend=backend, tracker=None,
                                        **iter_args(solver, scale))
                        n += 1
                    if not np.array_equal(cur.data, got):
                        bad("single-step solves in sequence (rng=<int seed>) differ from the multi-step run", dt, steps, seed,
                            err=float(np.max(np.abs(cur.data - got))))
                    st2 = np.random.get_state() if numba_backend else eq2.rng.bit_generator.state
                    if not same_state(st2, ref_state):
                        bad("generator state after sequential solves is not that of one draw per step", dt, steps, seed)
                keys.append(key)
            ss = sorted(per_seed)
            for i, s1 in enumerate(ss):
                for s2 in ss[i + 1 :]:
                    # (a state that sits where the variance vanishes legitimately ignores the seed)
                    if np.array_equal(per_seed[s1][0], per_seed[s2][0]) and not np.array_equal(per_seed[s1][1], per_seed[s2][1]):
                        bad("different seeds give identical results", dt, steps, s1, other=s2)
    return {"v": viol[:10], "n": n, "keys": keys, "outs": sorted(outs), "ref": sorted(set(refs)), "nt": bool(keys),
            "maxrel": list(_MAXREL)}


# ----------------------------------------------------------------------------------------------
# library SDE classes with non-local deterministic parts (oracle chains zero-noise one-step runs)
# ----------------------------------------------------------------------------------------------

LIB_CLASSES = {
    "DiffusionPDE": ({"diffusivity": 0.02}, ["euler", "milstein", "implicit"]),
    "KPZInterfacePDE": ({"nu": 0.02, "lmbda": 0.1}, ["euler", "milstein"]),
    "KuramotoSivashinskyPDE": ({"nu": 1e-4}, ["euler", "milstein"]),
}


def lib_case(case):
    """predefined stochastic PDE classes: u_{k+1} = D(u_k) + sqrt(var dt/V) xi_k with D the zero-noise
    step of the same solver (C06 checks D itself); semi-implicit: u_{k+1} = D(u_k + incr)"""
    L = lib()
    np = L["np"]
    import pde as pde_pkg
    from checks._grids import make_grid

    cname, solver, noise = case["cls"], case["solver"], case["noise"]
    case = dict(case, backend="numpy")
    cls = getattr(pde_pkg, cname)
    kwargs = LIB_CLASSES[cname][0]
    grid = make_grid(case["grid"])
    V = cell_volumes(np, case["grid"])
    s0 = make_state(L, grid, "scalar", [0], case["vseed"])
    u0 = s0.data.copy()
    label = f"{case['gname']}|{cname}|scalar|ito|{solver}"
    only = case.get("only")
    viol, keys, n = [], [], 0
    _MAXREL[:] = [0.0, 0.0]

    def bad(clause, dt, steps, seed, **detail):
        c = dict(case)
        c["only"] = [dt, steps, seed]
        viol.append({"sig": f"{label}|{clause}", "msg": f"{label}: {clause}: dt={dt} steps={steps} seed={seed} {detail}",
                     "detail": detail, "case": c, "fn": "checks.c13:lib_case"})

    det_eq = cls(**kwargs)

    def D(u, dt):
        f = s0.copy()
        f.data = u
        return run_solve(det_eq, f, case, dt, 1, deterministic=True)[0]

    for dt in DTS:
        for steps in STEPS:
            for seed in SEEDS:
                if only and [dt, steps, seed] != list(only):
                    continue
                gen = np.random.default_rng(seed)
                eq = cls(**kwargs, noise=noise, rng=gen)
                got, nsteps = run_solve(eq, s0, case, dt, steps)
                n += 1
                ref = np.random.default_rng(seed)
                u = u0.copy()
                for _ in range(steps):
                    incr = np.sqrt(noise * dt / V) * ref.standard_normal(u0.shape)
                    u = D(u + incr, dt) if solver == "implicit" else D(u, dt) + incr
                    n += 1
                ok, err = _close(np, got, u)
                if not ok:
                    bad("increment differs", dt, steps, seed, err=err)
                if gen.bit_generator.state != ref.bit_generator.state:
                    bad("generator state after the run is not that of one draw per step", dt, steps, seed)
                if nsteps != steps:
                    bad("reported steps != requested", dt, steps, seed, reported=nsteps)
                eq.rng = np.random.default_rng(seed)
                again, _ = run_solve(eq, s0, case, dt, steps)
                n += 1
                if not np.array_equal(again, got):
                    bad("two runs with the same seed are not bitwise equal", dt, steps, seed)
                keys.append(f"{label}|{dt}|{steps}|{seed}")
    return {"v": viol[:10], "n": n, "keys": keys, "out": "ok: stochastic update matches" if not viol else "violation",
            "maxrel": list(_MAXREL)}


# ----------------------------------------------------------------------------------------------
# solvers / modes that cannot treat noise have to say so
# ----------------------------------------------------------------------------------------------

REFUSERS = [
    ("euler", {"adaptive": True}),
    ("milstein", {"adaptive": True}),
    ("euler", {"dt": None}),  # solve() without dt selects adaptive stepping
    ("runge-kutta", {}),
    ("runge-kutta", {"adaptive": True}),
    ("crank-nicolson", {}),
    ("adams-bashforth", {}),
    ("scipy", {}),
]


def refusal_case(case):
    """stochastic equation + a solver without a stochastic scheme: either a loud error, or - if the
    solver runs - it must not silently return the deterministic result"""
    L = lib()
    np = L["np"]
    from checks._grids import make_grid

    solver, kw, backend = case["solver"], dict(case["kw"]), case["backend"]
    grid = make_grid(case["grid"])
    s0 = make_state(L, grid, "scalar", [0], case["vseed"])
    dt = kw.pop("dt", 0.01)
    label = f"refusal|{solver}|{sorted(case['kw'].items())}|{backend}|{case['cls']}"
    if case["cls"] == "sde":
        eq = L["DecaySDE"](RATE, noise=0.3, rng=np.random.default_rng(0))
    else:
        eq = L["MulSDE"](RATE, g2=0.3, rng=np.random.default_rng(0))
    n = 1
    try:
        res = eq.solve(s0, t_range=0.03, dt=dt, solver=solver, backend=backend, tracker=None, **kw)
    except (RuntimeError, NotImplementedError) as exc:
        return {"v": [], "n": n, "key": label, "out": "refused loudly", "ref": f"{solver} {case['kw']}: {str(exc)[:80]}"}
    det = L["Decay"](RATE).solve(s0, t_range=0.03, dt=dt, solver=solver, backend=backend, tracker=None, **kw)
    n += 1
    if np.array_equal(res.data, det.data):
        return {"v": [{"sig": f"{label}|noise silently dropped",
                       "msg": f"{label}: the solver accepted a stochastic equation and returned the deterministic result",
                       "detail": None}], "n": n, "key": label}
    return {"v": [], "n": n, "key": label, "out": "accepted, result differs from the deterministic one (not checked further)"}


# ----------------------------------------------------------------------------------------------
# mode J: really compiled stochastic steppers, numba's own generator replicated
# ----------------------------------------------------------------------------------------------


def jit_case(case):
    L = lib()
    np = L["np"]
    import numba as nb
    from checks._grids import make_grid
    from pde.solvers.base import SolverBase
    from pde.tools.numba import random_seed

    case = dict(case, backend="numba")
    ns, kind, ranks, solver, interp, dt = case["noise"], case["state"], case["ranks"], case["solver"], case["interp"], case["dt"]
    alpha = ALPHA[interp]
    label = _label(case) + "|jit"
    grid = make_grid(case["grid"])
    V = cell_volumes(np, case["grid"])
    s0 = make_state(L, grid, kind, ranks, case["vseed"], case.get("init", "generic"))
    u0 = s0.data.copy()
    shape = tuple(u0.shape)
    a = full_rates(np, ns, kind, ranks, grid.dim, grid.num_axes)
    b = ns.get("b", 0.0)
    var_of, _ = variance_model(np, case, u0, grid)

    @nb.njit
    def draw():
        return np.random.randn(*shape)

    @nb.njit
    def probe():
        return np.random.randn()

    eq = make_eq(L, case, np.random.default_rng(0))
    scale = 1.0
    for seed in SEEDS:
        random_seed(seed)
        scale = max(scale, oracle(np, u0, V, a, var_of, alpha, solver, dt, [draw() for _ in range(max(STEPS))],
                                  b=b, ret_info=True)[1]["scale"])
    sol = SolverBase.from_name(solver, pde=eq, backend="numba", **iter_args(solver, scale))
    stepper = sol.make_stepper(state=s0.copy(), dt=dt)
    viol, keys, n = [], [], 0
    _MAXREL[:] = [0.0, 0.0]

    def bad(clause, steps, seed, **detail):
        viol.append({"sig": f"{label}|{clause}", "msg": f"{label}: {clause}: dt={dt} steps={steps} seed={seed} {detail}",
                     "detail": detail})

    prev = {}
    for steps in STEPS:
        for seed in SEEDS:
            random_seed(seed)
            xis = [draw() for _ in range(steps)]
            nxt = probe()
            exp, oinfo = oracle(np, u0, V, a, var_of, alpha, solver, dt, xis, b=b, ret_info=True)
            slack = implicit_slack(np, solver, dt, a, u0.size, scale, oinfo["growth"])
            runs = []
            for _ in range(2):
                s = s0.copy()
                random_seed(seed)
                stepper(s, 0.0, steps * dt)
                n += 1
                runs.append((s.data.copy(), probe()))
            got, nxt_got = runs[0]
            ok, err = _close(np, got, exp, slack=slack)
            if not ok:
                bad("increment differs", steps, seed, err=err)
            if nxt_got != nxt:
                bad("generator state after the run is not that of one draw per step", steps, seed)
            if not np.array_equal(runs[1][0], got):
                bad("two runs with the same seed are not bitwise equal", steps, seed)
            if steps in prev and any(np.array_equal(got, o) and not np.array_equal(exp, e) for o, e in prev[steps]):
                bad("different seeds give identical results", steps, seed)
            prev.setdefault(steps, []).append((got, exp))
            keys.append(f"{label}|{dt}|{steps}|{seed}")
    return {"v": viol[:8], "n": n, "keys": keys, "out": "ok: compiled stochastic update matches" if not viol else "violation",
            "maxrel": list(_MAXREL)}


def _by_name(gname):
    return dict(GRIDS + GRIDS_MORE)[gname]


def jit_cases(tier, vseed):
    from checks._grids import geometry

    def mk(gname, kind, nkind, interp, solver, dt, init="generic"):
        spec = _by_name(gname)
        ranks = {**STATE_KINDS, **STATE_KINDS_MORE}[kind]
        ns = next(s for s in noise_specs(kind, ranks, geometry(spec)["dim"], "thorough") if s["kind"] == nkind)
        return {"gname": gname, "grid": spec, "state": kind, "ranks": ranks, "noise": ns, "init": init, "interp": interp,
                "solver": solver, "dt": dt, "vseed": vseed}

    quick = [
        mk("aniso", "scalar", "scalar", "ito", "euler", 0.1),
        mk("polar", "vector", "component", "ito", "euler", 0.01),
        mk("cart", "coll-vs", "field-list", "ito", "euler", 0.1),
        mk("polar", "tensor", "field-dependent", "stratonovich", "euler", 0.1),
        mk("sph-hole", "scalar", "field-dependent", "anti-ito", "euler", 0.01),
        mk("polar", "scalar", "field-dependent", "ito", "milstein", 0.1),
        mk("cyl", "vector", "field-dependent", "stratonovich", "milstein", 0.01),
        mk("sph-hole", "coll-svt", "field-dependent", "anti-ito", "milstein", 0.1),
        mk("sph-hole", "coll-vs", "per-field", "ito", "milstein", 0.1),
        mk("polar", "scalar", "scalar", "ito", "implicit", 0.1),
        mk("cart", "coll-vs", "per-field", "ito", "implicit", 0.01),
        mk("sph-hole", "vector", "component", "stratonovich", "implicit", 0.1),
        # special initial states (the stepper is built from the example state)
        mk("polar", "scalar", "field-dependent-g0g2", "ito", "milstein", 0.1, "zero"),
        mk("cart", "coll-vs", "field-dependent-drift", "stratonovich", "milstein", 0.1, "zero"),
        mk("sph-hole", "vector", "field-dependent-g0g2", "anti-ito", "euler", 0.1, "mixed"),
        mk("aniso", "scalar", "field-dependent-drift", "ito", "implicit", 0.1, "zero"),
    ]
    if tier == "quick":
        return quick
    # thorough: solver x interpretation x {additive, field-dependent} x grid, state kinds rotating
    out = list(quick)
    kinds = ["scalar", "vector", "tensor", "coll-vs", "coll-svt"]
    i = 0
    for solver in SOLVERS:
        for interp in ALPHA:
            for nk in ("scalar", "field-dependent"):
                if solver == "implicit" and nk == "field-dependent" and interp != "ito":
                    continue  # nothing is demanded there
                for gname, _ in GRIDS:
                    out.append(mk(gname, kinds[i % len(kinds)], nk, interp, solver, DTS[i % 2]))
                    i += 1
    for solver in SOLVERS:  # special initial states x variance forms x solver
        for nk in ("field-dependent", "field-dependent-g0g2", "field-dependent-drift"):
            for init in INITS[1:]:
                gname = GRIDS[i % len(GRIDS)][0]
                out.append(mk(gname, kinds[i % len(kinds)], nk, "ito" if solver == "implicit" else list(ALPHA)[i % 3],
                              solver, DTS[i % 2], init))
                i += 1
    seen, uniq = set(), []
    for c in out:
        k = repr(c)
        if k not in seen:
            seen.add(k)
            uniq.append(c)
    return uniq


# ----------------------------------------------------------------------------------------------


def main(run):
    tier = run.tier
    only = getattr(run, "only", None)

    def want(p):
        return not only or p in only

    bounds = BOUNDS[tier]
    maxrel: dict = {}

    def explore(fn, cs, *, key, **kw):
        kw.setdefault("chunksize", 1)  # cases take 0.05-1 s each: no need to batch them
        res = run.explore(fn, cs, collect=True, **kw)
        mr = [r.get("maxrel") or [0.0, 0.0] for _, r in res]
        maxrel[key] = {"within_1e-12": max(m[0] for m in mr),
                       "semi_implicit_fraction_of_derived_bound_used": max(m[1] for m in mr)}

    cases = build_cases(tier, run.seed)  # (each case carries its bounds)
    if want("numpy"):
        explore("checks.c13:sde_case", cases, key="numpy", mode="I",
                part="numpy backend: documented update, replicated generator")
    if want("lib"):
        # (cart-tiny is left out: 4th-order operators on 4e-4 wide cells overflow within a few explicit steps)
        lcases = [
            {"gname": g, "grid": spec, "cls": c, "solver": s, "noise": 0.3, "vseed": run.seed}
            for g, spec in GRIDS + (GRIDS_MORE if tier == "thorough" else [])
            if g != "cart-tiny"
            for c, (_, solvers) in LIB_CLASSES.items()
            for s in solvers
        ]
        explore("checks.c13:lib_case", lcases, key="predefined classes", mode="I", part="predefined stochastic PDE classes",
                chunksize=1)
    if want("refusals"):
        rcases = [
            {"grid": GRIDS[2][1], "solver": s, "kw": kw, "backend": b, "cls": c, "vseed": run.seed}
            for s, kw in REFUSERS
            for b in ("numpy", "numba")
            for c in ("sde", "mul")
        ]
        run.explore("checks.c13:refusal_case", rcases, mode="I", part="solvers without a stochastic scheme", chunksize=1)
    if want("numba-I"):
        # numba backend with its kernels interpreted: same alphabet; the global legacy generator is seeded
        def nb_bounds(c):
            if tier == "thorough":
                return {}
            return {"dts": [0.1], "seeds": [0] if c.get("light") else [0, 1]}

        ncases = [dict(c, backend="numba", **nb_bounds(c))
                  for c in cases if c["noise"]["kind"] not in ("tiny", "field-dependent-nodiff")]
        explore("checks.c13:sde_case", ncases, key="numba interpreted", mode="I",
                part="numba backend (interpreted), legacy global generator")
    if want("jit"):
        jc = jit_cases(tier, run.seed)
        explore("checks.c13:jit_case", jc, key="compiled", mode="J", part="compiled stochastic steppers",
                chunksize=1, limit=1200, nproc=min(16, len(jc)))
    run.assumptions += [
        "deterministic part du/dt = -0.5 u (per-field rates -0.5/-0.25/-0.75 for the PDE class); its Euler / fixed-point map is "
        "computed in closed form; predefined classes use the zero-noise step of the same solver (verified by C06)",
        "semi-implicit scheme run with maxerror=1e-15*max(1, largest |u| of the reference trajectory), maxiter=1000 "
        "('iterations converged'; the criterion of the solver is absolute)",
        "cell volumes recomputed from the grid specification (checked against grid.cell_volumes to 1e-13)",
        "field contents: uniform in +-[0.5, 1.5], derived from VERIF_SEED; the enumerated space does not depend on it",
        "tolerance 1e-12 relative to max(1, |u|): <= 12 flops per step, <= 5 steps, errors grow with the state; the "
        "semi-implicit scheme additionally gets the error its stopping rule admits (sqrt(size) maxerror |z|/(1-|z|) per step, "
        "propagated to the end), which matters only where the state grows by orders of magnitude (cart-tiny, field-dependent)",
        "numba backend: the generator is process-global; seeded with pde.tools.numba.random_seed and replicated draw by draw",
        "semi-implicit + field-dependent variance + non-Ito interpretation: nothing demanded (observed: drift omitted silently)",
    ]
    run.notes["largest_accepted_relative_deviation"] = dict(maxrel, tolerance=TOL)
    run.notes["bounds"] = dict(bounds, special_initial_states=BOUNDS_INIT[tier], solvers=SOLVERS, interpretations=list(ALPHA),
                               numba_interpreted="dt 0.1, seeds 0-1 (special initial states: seed 0)" if tier == "quick" else "as numpy",
                               compiled="one dt per case, steps 1-3, seeds 0-2")
    return (
        "all (grid incl. non-uniform cell volumes, state kind scalar/vector/tensor/mixed-rank collection, noise kind "
        "0/scalar/per-component/per-field array,list,dict/field-dependent v0 u^2 with and without derivative, g0 + g2 u^2, "
        "v0 u^2 with affine drift/1e-15, initial state generic and - for scalar and field-dependent noise - zero/constant/"
        "every-other-entry-zero, interpretation, solver euler/milstein/implicit) x dt x steps x seed: final state vs the "
        "documented update with the "
        "replicated generator, generator state (one draw per step), bitwise reproducibility (re-assigned generator, integer seed, "
        "sequential single-step solves), zero-variance components bitwise deterministic, seeds differ; the same on the numba "
        "backend (interpreted, legacy generator) and for compiled steppers (numba generator); predefined SDE classes; "
        "solvers that must refuse noise.  distinct = (case, dt, steps, seed) with a completed comparison"
    )
