"""C04 - results never depend on what was computed earlier in the process.

Model checking over *histories*: every ordered history (depth 2; depth 3 inside colliding
families) of requests from alphabets built so that attributes collide is executed in a forked child
of a warmed-up interpreter; the value returned by EVERY request of the history must equal - bit for
bit - the value of the same request executed alone in a fresh child (stateless requests) resp. the
value computed in a fresh child from the current contents of the fields involved (stateful family).
See DESIGN.md, C04.
"""

from __future__ import annotations

import hashlib
import itertools
import os
import pickle

PROPERTY = "C04"
LEVEL = "model_checking"

# ----------------------------------------------------------------------------------------------
# universe (objects are created lazily per child and shared by the requests of one history)
# ----------------------------------------------------------------------------------------------

GRIDS = {
    "A": ["unit", [4], [False]],
    "A2": ["unit", [4], [False]],  # a second, equal instance
    "B": ["cart", [[0, 4]], [4], [False]],  # equal bounds, other class
    "C": ["unit", [4], [True]],
    "P": ["polar", 2, 3],
    "S": ["sph", 2, 3],
    "Q": ["polar", [1, 2], 3],
    "D": ["unit", [2, 2], [False, False]],
}
FAMILY = {"A": "line", "A2": "line", "B": "line", "C": "line", "P": "radial", "S": "radial", "Q": "radial", "D": "plane"}

BCS = {
    "v0": {"value": 0},
    "d0": {"derivative": 0},
    "c0": {"curvature": 0},
    "v1": {"value": 1},
    "d1": {"derivative": 1},
    "c1": {"curvature": 1},
    "m0": {"type": "mixed", "value": 0, "const": 0},
    "m1": {"type": "mixed", "value": 1, "const": 1},
    "m1b": {"type": "mixed", "value": 1, "const": 2},  # differs from m1 only in the constant
    "m2": {"type": "mixed", "value": 2, "const": 1},  # differs from m1 only in gamma
    "vf1": {"value": [1.0, 2.0]},  # per-face arrays that differ in one entry
    "vf2": {"value": [1.0, 3.0]},
    "mf1": {"type": "mixed", "value": [1.0, 2.0], "const": [0.5, 0.5]},
    "mf2": {"type": "mixed", "value": [1.0, 2.0], "const": [0.5, 1.5]},
    "ve0": {"value_expression": "0"},
    "ve1": {"value_expression": "1"},
    "de1": {"derivative_expression": "1"},
    "vp1": {"virtual_point": "1"},  # same text as ve1/de1, other target
    "me1": {"type": "mixed_expression", "value": "1", "const": "1"},
    "me1b": {"type": "mixed_expression", "value": "1", "const": "2"},
    "sv0": "value",
    "sd0": "derivative",
    "lvhd": {"x-": {"value": 0}, "x+": {"derivative": 0}},
    "ldhv": {"x-": {"derivative": 0}, "x+": {"value": 0}},
    "rlvhd": {"r-": {"value": 0}, "r+": {"derivative": 0}},
    "rldhv": {"r-": {"derivative": 0}, "r+": {"value": 0}},
    "per": "periodic",
    "aper": {"x": "anti-periodic"},
    "nv0": {"normal_value": 0},
    "nd0": {"normal_derivative": 0},
}


def _data(np, grid, rank):
    shape = (grid.dim,) * rank + tuple(grid.shape)
    n = 1
    for s in shape:
        n *= s
    return (np.arange(1.0, n + 1.0) ** 1.5 / 3.0 + 0.25).reshape(shape)


def _digest(np, x):
    if hasattr(x, "data") and hasattr(x, "grid"):
        x = x.data
    if isinstance(x, (list, tuple)):
        return [_digest(np, v) for v in x]
    if isinstance(x, np.ndarray):
        a = np.ascontiguousarray(x)
        return ["arr", str(a.dtype), list(a.shape), hashlib.sha1(a.tobytes()).hexdigest()[:16], [float(v) for v in a.ravel()[:4].real]]
    if isinstance(x, (float, int, complex, str, bool)) or x is None:
        return ["val", repr(x)]
    return ["val", repr(np.asarray(x).tolist())]


class Env:
    """objects shared by the requests of one history"""

    def __init__(self):
        import numpy as np

        self.np = np
        self.grids, self.eqs, self.fields, self.exprs = {}, {}, {}, {}

    def grid(self, gid):
        from checks._grids import make_grid

        if gid not in self.grids:
            self.grids[gid] = make_grid(GRIDS[gid])
        return self.grids[gid]

    def field(self, gid, rank=0):
        from pde import ScalarField, VectorField

        key = (gid, rank)
        if key not in self.fields:
            g = self.grid(gid)
            self.fields[key] = [ScalarField, VectorField][rank](g, _data(self.np, g, rank))
        return self.fields[key]


def _make_eq(spec, env=None):
    from pde import PDE, CahnHilliardPDE, DiffusionPDE, SwiftHohenbergPDE

    kind = spec[0]
    if kind == "diff":
        return DiffusionPDE(diffusivity=spec[1], bc=BCS[spec[2]])
    if kind == "ch":
        return CahnHilliardPDE(interface_width=spec[1], bc_c=BCS[spec[2]], bc_mu=BCS[spec[3]])
    if kind == "sh":
        return SwiftHohenbergPDE(rate=0.1, kc2=spec[1], bc=BCS[spec[2]], bc_lap=BCS[spec[3]])
    if kind == "pdeuf":  # several equations share ONE user_funcs dict object (as a user would naturally do)
        if not hasattr(env, "user_funcs"):
            env.user_funcs = {"f": lambda x: 2 * x}
        return PDE({"c": spec[1]}, bc=BCS[spec[2]], user_funcs=env.user_funcs)
    if kind == "pde":
        kw = {}
        if len(spec) > 3 and spec[3]:
            kw["bc_ops"] = {k: BCS[v] for k, v in spec[3].items()}
        if len(spec) > 4 and spec[4]:
            kw["consts"] = dict(spec[4])
        return PDE({"c": spec[1]}, bc=BCS[spec[2]], **kw)
    raise ValueError(kind)


def execute(req, env: Env):
    """run one request on the real code; returns a JSON-able digest (bitwise for arrays)"""
    import warnings

    np = env.np
    kind = req[0]
    with warnings.catch_warnings():
        warnings.simplefilter("ignore")
        if kind == "mkop":  # grid.make_operator(op, bc, backend)(data)
            _, gid, op, bcid, backend, rank = req[:6]
            kw = req[6] if len(req) > 6 else {}
            g = env.grid(gid)
            f = g.make_operator(op, BCS[bcid], backend=backend, **kw)
            return _digest(np, f(_data(np, g, rank)))
        if kind in ("opinfo", "opinfo_gc"):
            # user-defined operators passed as OperatorInfo (same name and ranks, other factory).  "opinfo" keeps every
            # factory alive for the whole history; "opinfo_gc" lets it die after use, as a helper function that builds an
            # operator from a local factory would: the next factory is then allocated at the same address (same id()).
            from pde.tools.typing import OperatorInfo

            _, gid, k, bcid, backend = req
            g = env.grid(gid)

            def factory(grid, k=k, **kwargs):
                def op(arr, out):
                    out[...] = k * arr[(slice(1, -1),) * grid.num_axes]

                return op

            if kind == "opinfo":
                if not hasattr(env, "keep"):
                    env.keep = []
                env.keep.append(factory)
            f = g.make_operator(OperatorInfo(factory, 0, 0), BCS[bcid], backend=backend)
            r1 = f(_data(np, g, 0))
            out = np.empty(tuple(g.shape))
            g.make_operator_no_bc(OperatorInfo(factory, 0, 0), backend=backend)(np.pad(_data(np, g, 0), 1, mode="edge"), out)
            res = _digest(np, [r1, out])
            del f, factory
            return res
        if kind == "field":  # field.apply_operator(op, bc)
            _, gid, op, bcid, rank = req
            return _digest(np, env.field(gid, rank).apply_operator(op, bc=BCS[bcid]))
        if kind == "nobc":
            _, gid, op = req
            g = env.grid(gid)
            full = _data(np, g, 0)
            arr = np.pad(full, 1, mode="reflect") if min(g.shape) > 1 else np.pad(full, 1, mode="edge")
            out = np.empty(((g.dim,) if op == "gradient" else ()) + tuple(g.shape))
            g.make_operator_no_bc(op, backend="numba")(arr, out)
            return _digest(np, out)
        if kind == "gridprop":
            _, gid, prop = req
            v = getattr(env.grid(gid), prop)
            return _digest(np, [np.asarray(x) for x in v] if isinstance(v, tuple) else np.asarray(v))
        if kind in ("rate", "rhs", "solve"):
            _, eqid, gid, backend = req
            key = eqid
            if key not in env.eqs:
                env.eqs[key] = _make_eq(EQS[eqid.split("#")[0]], env)
            eq = env.eqs[key]
            state = env.field(gid)
            if backend.endswith("+complex"):  # the same equation object evaluated on a complex copy of the state
                backend = backend.split("+")[0]
                state = state.copy(dtype=complex)
                state.data[...] = state.data * (1 + 0.5j)
            if kind == "rate":
                return _digest(np, eq.evolution_rate(state, 0.5))
            if kind == "rhs":
                return _digest(np, np.array(eq.make_pde_rhs(state, backend=backend)(state.data.copy(), 0.5)))
            return _digest(np, eq.solve(state, t_range=0.02, dt=0.01, backend=backend, tracker=None, solver="euler"))
        if kind == "expr":
            _, eid, args = req
            from pde.tools.expressions import ScalarExpression

            if eid not in env.exprs:
                text, sig, consts = EXPRS[eid.split("#")[0]]
                env.exprs[eid] = ScalarExpression(text, signature=sig, consts=consts)
            e = env.exprs[eid]
            if args == "deriv":
                return _digest(np, [str(e.derivatives), np.asarray(e.derivatives(*([0.7] * len(e.vars))))])
            if args == "numba":
                return _digest(np, float(e.get_function("numba")(*[0.3 + 0.2 * k for k in range(len(e.vars))])))
            return _digest(np, np.asarray(e(*args)))
        if kind == "solve_tr":
            # a simulation observed through an interrupt object / tracker object that earlier simulations of the history
            # have used already (users keep one `tracker=[...]` list or one interrupt object for a series of runs)
            from pde import CallbackTracker, DiffusionPDE
            from pde.trackers import MaterialConservationTracker, SteadyStateTracker
            from pde.trackers import interrupts as I

            _, obj, share, span = req
            if not hasattr(env, "shared"):
                env.shared, env.fired = {}, []
            env.fired.clear()
            fired = env.fired
            mk_int = {"fixed": lambda: I.FixedInterrupts([0.25, 0.5, 0.75, 1.25]), "const": lambda: I.ConstantInterrupts(0.25),
                      "const_ts": lambda: I.ConstantInterrupts(0.25, t_start=0.2), "geo": lambda: I.GeometricInterrupts(0.1, 2),
                      "log": lambda: I.LogarithmicInterrupts(0.1, 2), "list": lambda: [0.25, 0.5, 0.75, 1.25], "num": lambda: 0.25,
                      "steady": lambda: 0.1, "matcons": lambda: 0.1}[obj]

            def mk_tracker(ints):
                if obj == "steady":
                    return SteadyStateTracker(interrupts=ints, atol=0.3, rtol=0.0)
                if obj == "matcons":
                    return MaterialConservationTracker(interrupts=ints, atol=2.0, rtol=0.0)
                return CallbackTracker(lambda st, t: fired.append(float(t)), interrupts=ints)

            if share == "interrupt":
                if ("int", obj) not in env.shared:
                    env.shared["int", obj] = mk_int()
                tr = mk_tracker(env.shared["int", obj])
            else:
                if ("trk", obj) not in env.shared:
                    env.shared["trk", obj] = mk_tracker(mk_int())
                tr = env.shared["trk", obj]
            watch = CallbackTracker(lambda st, t: None, interrupts=100.0)  # keeps the tracker list a list of two
            eq = DiffusionPDE(diffusivity=1.0, bc=BCS["v0"])
            t_range = (0, 1) if span == 0 else (0.5, 1.5)
            res, info = eq.solve(env.field("A"), t_range=t_range, dt=0.05, backend="numpy", solver="euler", tracker=[tr, watch],
                                 ret_info=True)
            return _digest(np, [np.array(fired), res.data, np.array([info["controller"]["t_final"]])])
        # ---------------- stateful family: interpolation vs collections ----------------
        if kind == "interp":
            _, name, point, opt = req
            f = _sfield(env, name)
            return _digest(np, _interp(np, f, point, opt))
        if kind == "link":  # put the named fields into a collection that re-links their data
            from pde import FieldCollection

            env.fields["fc"] = FieldCollection([_sfield(env, n) for n in req[1]], copy_fields=False)
            return ["val", "None"]
        if kind == "copylink":
            from pde import FieldCollection

            env.fields["fc2"] = FieldCollection([_sfield(env, n) for n in req[1]], copy_fields=True)
            return ["val", "None"]
        if kind == "setghost":  # leave other ghost cells (incl. corners) behind, as an earlier use of the field would
            _, name, bcid = req
            _sfield(env, name).set_ghost_cells(BCS[bcid], set_corners=True)
            return ["val", "None"]
        if kind == "lap9":  # the 9-point Laplacian fills the corner ghost cells of the field's own array
            _, name, bcid = req
            return _digest(np, _sfield(env, name).laplace(BCS[bcid], corner_weight=0.3))
        if kind == "setdata":
            _, name, k = req
            f = _sfield(env, name)
            f.data = _data(np, f.grid, 0) * (k + 2) - k
            return ["val", "None"]
        if kind == "interp_member":
            _, idx, point, opt = req
            if "fc" not in env.fields or idx >= len(env.fields["fc"]):
                return ["val", "no such member"]
            return _digest(np, _interp(np, env.fields["fc"][idx], point, opt))
        if kind == "interp_fresh":  # reference: a brand-new field with the given contents
            from pde import ScalarField

            _, gid, values, point, opt = req
            f = ScalarField(env.grid(gid), np.array(values))
            return _digest(np, _interp(np, f, point, opt))
    raise ValueError(req)


def _sfield(env, name):
    from pde import ScalarField

    key = ("s", name)
    if key not in env.fields:
        gid = "C" if name.startswith("p") else ("D" if name.startswith("q") else "A")
        g = env.grid(gid)
        env.fields[key] = ScalarField(g, _data(env.np, g, 0) + (10 if name.endswith("2") else 0))
    return env.fields[key]


def _interp(np, f, point, opt):
    if opt == "plain":
        return f.interpolate(np.array(point))
    if opt == "fill":
        return f.interpolate(np.array(point), fill=-7.0)
    if opt == "bc":
        return f.interpolate(np.array(point), bc={"value": 2.0} if not f.grid.periodic[0] else "periodic")
    raise ValueError(opt)


EQS = {
    "dv0": ["diff", 1.0, "v0"], "dd0": ["diff", 1.0, "d0"], "dc0": ["diff", 1.0, "c0"], "dv1": ["diff", 1.0, "v1"],
    "dd1": ["diff", 1.0, "d1"], "d2v0": ["diff", 2.0, "v0"], "dm1": ["diff", 1.0, "m1"], "dm1b": ["diff", 1.0, "m1b"],
    "ch_vd": ["ch", 1.0, "v0", "d0"], "ch_dv": ["ch", 1.0, "d0", "v0"], "ch_vv": ["ch", 1.0, "v0", "v0"],
    "ch_dd": ["ch", 1.0, "d0", "d0"], "ch_cd": ["ch", 1.0, "c0", "d0"], "ch_v1d1": ["ch", 1.0, "v1", "d1"],
    "sh_vd": ["sh", 1.0, "v0", "d0"], "sh_dv": ["sh", 1.0, "d0", "v0"],
    "p_v0": ["pde", "laplace(c)", "v0"], "p_d0": ["pde", "laplace(c)", "d0"],
    "p_ops": ["pde", "laplace(c) + d_dx(c)", "v0", {"c:laplace": "d0"}],
    "p_ops2": ["pde", "laplace(c) + d_dx(c)", "d0", {"c:laplace": "v0"}],
    "p_k1": ["pde", "k*laplace(c)", "v0", None, {"k": 1.0}], "p_k2": ["pde", "k*laplace(c)", "v0", None, {"k": 2.0}],
    "p_uf_v0": ["pdeuf", "laplace(c) + f(c)", "v0"], "p_uf_d0": ["pdeuf", "laplace(c) + f(c)", "d0"],
    "p_lap2": ["pde", "laplace(laplace(c))", "v0"], "p_lap2d": ["pde", "laplace(laplace(c))", "d0"],
}
EXPRS = {
    "ab": ["a*b + 1", ["a", "b"], None], "ba": ["a*b + 1", ["b", "a"], None], "a2": ["a**2 + b", ["a", "b"], None],
    "k1": ["k*a", ["a"], {"k": 1.5}], "k2": ["k*a", ["a"], {"k": 2.5}], "x": ["a*b + 1", ["a", "b", "c"], None],
}


# ----------------------------------------------------------------------------------------------
# request alphabets per family
# ----------------------------------------------------------------------------------------------


def alphabet(family, tier):
    reqs = []
    quick = tier == "quick"
    if family == "line":
        bcs = ["v0", "d0", "c0", "v1", "d1", "c1", "m0", "m1", "ve0", "ve1", "de1", "sv0", "sd0", "lvhd", "ldhv"]
        bcs += ["m1b", "m2"]
        if quick:
            bcs = ["v0", "d0", "c0", "v1", "d1", "m1", "m1b", "m2", "ve0", "lvhd", "ldhv"]
        for gid in ("A", "A2", "B"):
            for op in ("laplace", "gradient", "d_dx"):
                if quick and gid == "A2" and op != "laplace":
                    continue
                for bc in bcs:
                    reqs.append(["mkop", gid, op, bc, "numba", 0])
                if gid != "A2":
                    for bc in ("v0", "d0", "c0", "v1", "lvhd")[: 3 if quick else 5]:
                        reqs.append(["field", gid, op, bc, 0])
            for bc in ("v0", "d0", "c0", "lvhd"):
                reqs.append(["mkop", gid, "laplace", bc, "scipy", 0])
            reqs.append(["nobc", gid, "laplace"])
        for op in ("laplace", "gradient"):
            for bc in ("per", "aper"):
                reqs.append(["mkop", "C", op, bc, "numba", 0])
        # operator options must be part of every cache key
        for meth in ("central", "forward", "backward"):
            for bc in ("v0", "d0"):
                reqs.append(["mkop", "A", "gradient", bc, "numba", 0, {"method": meth}])
        for bc in ("ve1", "de1", "vp1", "me1", "me1b"):
            if ["mkop", "A", "laplace", bc, "numba", 0] not in reqs:
                reqs.append(["mkop", "A", "laplace", bc, "numba", 0])
        reqs.append(["nobc", "C", "laplace"])
        reqs.append(["gridprop", "A", "cell_volumes"])
        reqs.append(["gridprop", "B", "cell_volumes"])
        for k in (2, 3):
            reqs.append(["opinfo", "A", k, "v0", "numba"])
    elif family == "radial":
        bcs = ["v0", "d0", "c0", "v1", "d1", "m1", "ve0", "rlvhd", "rldhv"]
        bcs += ["m1b"]
        if quick:
            bcs = ["v0", "d0", "c0", "v1", "m1", "m1b", "rlvhd", "rldhv"]
        for gid in ("P", "S", "Q"):
            for op in ("laplace", "gradient", "d_dr")[: 2 if quick else 3]:
                for bc in bcs:
                    reqs.append(["mkop", gid, op, bc, "numba", 0])
                for bc in ("v0", "d0", "c0"):
                    reqs.append(["field", gid, op, bc, 0])
            reqs.append(["nobc", gid, "laplace"])
            reqs.append(["gridprop", gid, "cell_volumes"])
        for cons in (True, False):
            for bc in ("v0", "d0"):
                reqs.append(["mkop", "S", "laplace", bc, "numba", 0, {"conservative": cons}])
    elif family == "plane":
        for bc in ("v0", "d0", "nv0", "nd0", "v1"):
            reqs.append(["mkop", "D", "divergence", bc, "numba", 1])
            reqs.append(["field", "D", "divergence", bc, 1])
        for bc in ("v0", "d0", "v1", "c0", "vf1", "vf2", "mf1", "mf2", "m1", "m1b"):
            reqs.append(["mkop", "D", "laplace", bc, "numba", 0])
            if bc in ("v0", "d0", "v1", "c0", "vf1", "vf2"):
                reqs.append(["mkop", "D", "laplace", bc, "scipy", 0])
    elif family == "pde":
        for eqid in (EQS if not quick else ["dv0", "dd0", "dc0", "dv1", "dm1", "dm1b", "ch_vd", "ch_dv", "ch_cd", "sh_vd", "sh_dv", "p_v0",
                                              "p_d0", "p_ops", "p_ops2", "p_k1", "p_k2", "p_uf_v0", "p_uf_d0"]):
            reqs.append(["rate", eqid, "A", "numpy"])
            reqs.append(["rhs", eqid, "A", "numba"])
        for eqid in ("dv0", "dd0", "ch_vd", "ch_dv", "p_v0", "p_ops", "p_k1", "p_k2")[:: 2 if quick else 1]:
            reqs.append(["solve", eqid, "A", "numba"])
            reqs.append(["solve", eqid, "A", "numpy"])
            reqs.append(["rhs", eqid + "#2", "B", "numba"])  # a second instance on an equal grid of another class
        reqs.append(["mkop", "A", "laplace", "v0", "numba", 0])
        reqs.append(["mkop", "A", "laplace", "d0", "numba", 0])
        # ONE equation object used on states of another grid class / coordinate system / dtype
        for eqid in ("dv0", "p_v0", "ch_vd"):
            for gid in ("B", "P"):
                reqs.append(["rate", eqid, gid, "numpy"])
                reqs.append(["rhs", eqid, gid, "numba"])
            reqs.append(["rate", eqid, "A", "numpy+complex"])
            reqs.append(["rhs", eqid, "A", "numba+complex"])
    elif family == "expr":
        for eid in EXPRS:
            n = len(EXPRS[eid][1])
            reqs.append(["expr", eid, [0.5 + k for k in range(n)]])
            reqs.append(["expr", eid, "deriv"])
            reqs.append(["expr", eid, "numba"])
            reqs.append(["expr", eid + "#2", [1.5 - 0.25 * k for k in range(n)]])
    elif family == "reuse":
        # one interrupt object / one tracker object used by several simulations of the history
        for obj in ("fixed", "const", "const_ts", "geo", "log", "list", "num", "steady", "matcons"):
            for share in ("interrupt", "tracker"):
                for span in (0, 1):
                    reqs.append(["solve_tr", obj, share, span])
    elif family == "idreuse":
        # kept apart from all other requests: a dead factory's id may be reused by ANY later function object
        for k in (2, 3):
            reqs.append(["opinfo_gc", "A", k, "v0", "numba"])
    elif family == "interp":
        pts = [[0.7], [2.0], [3.9]]
        for name in ("f", "f2", "p"):
            for p in pts[: 1 if quick else 2]:
                for opt in ("plain", "fill", "bc")[:: 2 if quick else 1]:
                    reqs.append(["interp", name, p, opt])
        reqs += [["link", ["f", "f2"]], ["link", ["f2", "f"]], ["link", ["p"]], ["copylink", ["f", "f2"]]]
        reqs += [["setdata", "f", 0], ["setdata", "f", 1], ["setdata", "f2", 0], ["setdata", "p", 1]]
        reqs += [["interp_member", 0, [0.7], "plain"], ["interp_member", 1, [2.0], "bc"]]
        # a field with two axes: the corner ghost cells are nobody's boundary condition - whatever an earlier condition,
        # operator or copy left there must not enter an interpolation with bc near a corner
        reqs += [["interp", "q", [0.2, 0.3], "bc"], ["interp", "q", [1.9, 0.1], "bc"], ["interp", "q", [1.0, 1.0], "plain"]]
        reqs += [["setghost", "q", "v1"], ["setghost", "q", "d1"], ["lap9", "q", "v1"], ["setdata", "q", 1]]
    return reqs


FAMILIES = ["line", "radial", "plane", "pde", "expr", "interp", "idreuse", "reuse"]


# ----------------------------------------------------------------------------------------------
# fork machinery
# ----------------------------------------------------------------------------------------------


_WARM = []


def warm_up():
    """import every module a request may need and create the backend singletons - but execute no
    py-pde functionality whose result could be cached (the interpreter stays 'fresh')"""
    if _WARM:
        return
    import importlib
    import pkgutil

    import pde

    skip = ("jax", "torch", "mpi", "modelrunner", "napari", "interactive", "movie", "ffmpeg", "visualization")
    for m in pkgutil.walk_packages(pde.__path__, "pde."):
        if not any(x in m.name for x in skip):
            try:
                importlib.import_module(m.name)
            except Exception:  # noqa: BLE001
                pass
    from pde.backends import get_backend

    for b in ("numpy", "numba", "scipy"):
        get_backend(b)
    import sympy
    from sympy.parsing.sympy_parser import parse_expr
    from sympy.printing.numpy import NumPyPrinter

    e = parse_expr("a*b+1")
    sympy.lambdify(list(e.free_symbols), e, "numpy")
    NumPyPrinter().doprint(sympy.diff(e, list(e.free_symbols)[0]))
    import checks._grids  # noqa: F401

    _WARM.append(True)


def run_in_child(history):
    """execute the history in a forked child of this (warmed-up, idle) interpreter"""
    warm_up()
    r, w = os.pipe()
    pid = os.fork()
    if pid == 0:
        try:
            os.close(r)
            env = Env()
            out = []
            for req in history:
                try:
                    res = execute(req, env)
                except Exception as e:  # noqa: BLE001
                    res = ["exc", type(e).__name__, str(e)[:120]]
                state = None
                if req[0] in ("interp", "interp_member") and res[0] != "exc":
                    try:
                        f = _sfield(env, req[1]) if req[0] == "interp" else env.fields["fc"][req[1]]
                    except (KeyError, IndexError):
                        f = None
                    if f is not None:
                        gid = [k for k, g in env.grids.items() if g is f.grid]
                        state = [gid[0] if gid else ("C" if f.grid.periodic[0] else "A"), f.data.tolist()]
                out.append([res, state])
            payload = pickle.dumps(out)
        except BaseException as e:  # noqa: BLE001
            payload = pickle.dumps([["child-failure", repr(e)[:300]]])
        with os.fdopen(w, "wb") as fh:
            fh.write(payload)
        os._exit(0)
    os.close(w)
    with os.fdopen(r, "rb") as fh:
        data = fh.read()
    os.waitpid(pid, 0)
    return pickle.loads(data)


_REF: dict = {}


def reference(req):
    key = repr(req)
    if key not in _REF:
        _REF[key] = run_in_child([req])[0][0]
    return _REF[key]


def check_history(hist):
    """returns list of violations for one history"""
    res = run_in_child(hist)
    viol = []
    if res and res[0][0] == "child-failure":
        return [{"sig": "child process failed", "msg": str(res), "detail": None}]
    for i, (req, (got, state)) in enumerate(zip(hist, res)):
        if req[0] in ("link", "copylink", "setdata", "setghost", "lap9"):
            continue
        if req[0] in ("interp", "interp_member"):
            if state is None:
                continue
            ref = reference(["interp_fresh", state[0], state[1], req[2], req[3]])
            what = "interpolation differs from a fresh field with the same contents"
            fam = "interpolator cache"
        else:
            ref = reference(req)
            what = "result differs from the same request in a fresh interpreter"
            fam = {"mkop": "operator cache", "field": "operator cache", "nobc": "operator cache", "gridprop": "grid cache",
                   "rate": "pde cache", "rhs": "pde cache", "solve": "pde cache", "expr": "expression cache",
                   "opinfo": "operator cache", "opinfo_gc": "operator cache (id of a dead factory reused)",
                   "solve_tr": f"state left in a reused {req[2]} object ({req[1]})"}[req[0]]
        if got != ref:
            prev = [h for h in hist[:i]]
            viol.append({
                "sig": f"{fam}|{req[0]}|{what}",
                "msg": f"request {req} after {prev}: got {got} expected {ref}",
                "detail": {"history": hist, "index": i, "got": got, "expected": ref},
                "case": {"history": hist},
                "fn": "checks.c04:replay_history",
            })
    return viol


def replay_history(case):
    return {"v": check_history(case["history"])}


def histories(case):
    """all histories of the given depth that start with `first` inside one family"""
    family, first, depth, tier = case["family"], case["first"], case["depth"], case.get("tier", "quick")
    reqs = alphabet(family, tier)
    viol, n, states = [], 0, set()
    trans = 0

    def same_group(a, b):
        # depth-3 histories are restricted to colliding groups: same grid family member and operator,
        # resp. the same family of equations (dv0/dd0/.., ch_*, sh_*, p_*) for the PDE requests
        if a[0] in ("mkop", "field"):
            return a[0] == b[0] and a[1:3] == b[1:3]
        if a[0] in ("rate", "rhs", "solve") and b[0] in ("rate", "rhs", "solve"):
            return a[1].split("_")[0][:2] == b[1].split("_")[0][:2]
        return a[0] == b[0]

    tails = [[]]
    for d in range(1, depth):
        new = []
        for t in tails:
            for r in reqs:
                if d >= 2 and family in ("line", "radial", "pde") and not (same_group(first, r) and same_group(t[-1], r)):
                    continue
                new.append(t + [r])
        tails = new
        for t in tails:
            hist = [first] + t
            v = check_history(hist)
            n += 1
            trans += len(hist)
            states.add(repr(hist))
            if v:
                viol += v
                if len(viol) > 6:
                    break
        if len(viol) > 6:
            break
    return {"v": viol[:6], "n": n, "states": len(states), "transitions": trans, "traces": n,
            "keys": [f"{family}|{first}|d{depth}"], "out": f"{family}"}


def long_history(case):
    hist = case["history"]
    v = check_history(hist)
    for x in v:
        # shrink: the failing request directly after each single earlier request
        i = x["detail"]["index"]
        for j in range(i):
            if check_history([hist[j], hist[i]]):
                x["case"] = {"history": [hist[j], hist[i]]}
                x["msg"] = f"request {hist[i]} after {hist[j]} (shrunk from a long history): " + x["msg"][-200:]
                break
    return {"v": v[:4], "n": 1, "states": 1, "transitions": len(hist), "traces": 1, "key": repr(hist[:2]) + str(len(hist)),
            "out": "long"}


def jit_histories(case):
    """the compiled operator cache under real JIT: ordered pairs of a small colliding set"""
    viol, n = [], 0
    for hist in case["histories"]:
        res = run_in_child(hist)
        n += 1
        for i, (req, (got, _)) in enumerate(zip(hist, res)):
            ref = reference(req)
            ok = got == ref
            if not ok and got[0] == "arr" and ref[0] == "arr":
                # JIT results may differ in the last bits between compilations: compare the printed leading values
                ok = got[2] == ref[2] and all(abs(a - b) <= 1e-12 * (1 + abs(b)) for a, b in zip(got[4], ref[4]))
            if not ok:
                viol.append({"sig": f"operator cache|{req[0]}|compiled result differs from the same request in a fresh interpreter",
                             "msg": f"request {req} after {hist[:i]}: got {got} expected {ref}", "detail": {"history": hist},
                             "case": {"histories": [hist]}, "fn": "checks.c04:jit_histories"})
    return {"v": viol[:4], "n": n, "states": n, "transitions": 2 * n, "traces": n, "keys": [repr(h) for h in case["histories"]]}


def main(run):
    cases = []
    for fam in FAMILIES:
        for first in alphabet(fam, run.tier):
            depth = 2
            if run.tier == "thorough" or fam == "interp":
                depth = 3
            cases.append({"family": fam, "first": first, "depth": depth, "tier": run.tier})
    run.explore("checks.c04:histories", cases, mode="I", part="histories (interpreted)", chunksize=1, limit=3000)
    # long histories over the full (thorough) alphabet: every rotation of the alphabet and of its reverse - each request is
    # preceded by many others, which exposes first-writer-wins caches at negligible cost
    lcases = []
    for fam in FAMILIES:
        al = alphabet(fam, "thorough")
        n = len(al)
        for k in range(0, n, max(1, n // (8 if run.tier == "quick" else 32))):
            lcases.append({"history": al[k:] + al[:k]})
            lcases.append({"history": (al[k:] + al[:k])[::-1]})
    run.explore("checks.c04:long_history", lcases, mode="I", part="long histories", chunksize=1, limit=3000)
    # mode J: pairs around the compiled-operator cache
    sel = [["mkop", "A", "laplace", b, "numba", 0] for b in ("v0", "d0", "c0", "v1")] + [["mkop", "B", "laplace", "v0", "numba", 0],
           ["rhs", "ch_vd", "A", "numba"], ["rhs", "ch_dv", "A", "numba"], ["mkop", "P", "laplace", "v0", "numba", 0],
           ["mkop", "S", "laplace", "v0", "numba", 0]]
    pairs = [list(p) for p in itertools.permutations(sel, 2)]
    if run.tier == "quick":
        pairs = [p for p in pairs if p[0][1] == p[1][1] or {p[0][1], p[1][1]} in ({"P", "S"}, {"A", "B"})]
    chunks = [pairs[i::16] for i in range(16)]
    run.explore("checks.c04:jit_histories", [{"histories": c} for c in chunks if c], mode="J", part="histories (compiled)",
                chunksize=1, limit=3000)
    run.assumptions += [
        "every history runs in a forked child of an interpreter that has imported pde but executed nothing; the reference of a "
        "request is its value alone in such a child (no knowledge about which caches exist is used)",
        "global configuration is held fixed; depth 3 for operator families is restricted to requests on the same grid and operator",
        "mode I results are compared bit for bit; compiled results to 1e-12",
    ]
    return (
        "all ordered histories (depth 2; depth 3 inside colliding groups / small families) over request alphabets with colliding "
        "attributes: make_operator/field operators for 15 BC kinds on equal grids of different instance/class/coordinate system, "
        "PDE rates/rhs/solve for equations differing only in BCs, bc_ops, constants or backend, expressions, a stateful "
        "family (interpolate / link into collections / change data), user-defined operators and simulations sharing one "
        "interrupt/tracker object; states = histories, transitions = requests executed"
    )
