"""C12 - grid geometry and coordinate transformations are self-consistent.

Bounded-exhaustive exploration (no sampling): every grid configuration of an explicit alphabet
(class x shape x bounds x inner radius x periodicity) is built for real and, per grid, *every* point
of a lattice in cell coordinates (all combinations across the axes) is pushed through the real
``transform`` / ``contains_point`` / ``normalize_point`` / ``difference_vector`` / ``distance`` /
``get_random_point`` code as a single point and as batches of shape ``(n, d)`` and ``(m, n, d)``.
The oracle is the small reference model :class:`Ref` below, written from the property statement
(``x_min + (i + 1/2) dx``, closed-form shell volumes, ``[0, N]`` containment, whole periods, half a
period), not from py-pde's formulas.  See DESIGN.md, C12.

One *case* = one grid configuration; the worker loops over all clause families and lattice points.
Signatures are ``<grid class>|<flag>|<function>|<clause>``; every violation carries a minimal replay
case for :func:`replay_one` (the grid plus the failing point / pair / draws), verified to reproduce
in isolation before it is reported.  The known defect D3 (the z-period of ``CylindricalSymGrid`` is
applied to the Cartesian *y* component by ``difference_vector``) surfaces as
``CylindricalSymGrid|periodic_z=True|difference_vector|<clause>``.  Points whose coordinates are whole
numbers are additionally presented as python ints, ``np.int64`` and ``np.float32`` (family
``<class>|<flag>|<function>|integer-typed points|<clause>`` resp. ``float32-typed points``): the
result has to be the one obtained for the same points as float64 (defect fixed in 24adc85: the wrapped
difference was truncated to the integer dtype of the points).

Tolerances (``EPS = 2**-52``; nothing is tuned): a float result may differ from the reference by
``K = 16`` roundings *at the scale of the operands of the formula* (``|x_min|``, ``|x_max|``, ``|x|``;
divided by ``dx`` when the result is a cell coordinate).  Volumes use ``KV = 32`` roundings at the
scale of the *full ball/disc of the upper face radius*, because the exact shell volume
``F(r_h) - F(r_l)`` is a difference of two such numbers (round-off scale x condition number).
``normalize_point`` idempotence uses the 1e-12 (relative to the axis scale) named in the property and
``contains_point`` is not decided for points closer than 0.5e-9 cells to a face (the lattice points
at +-1e-9 *are* decided).  All tolerances are > 1e5 times smaller than the smallest lattice offset.
"""

from __future__ import annotations

import collections
import itertools
import json
import math
import random
from fractions import Fraction

import numpy as np

PROPERTY = "C12"
LEVEL = "exploration"

EPS = 2.0**-52
K = 16.0
KV = 32.0
FACE = 0.5e-9
DRAWS = [0.0, 2.0**-53, 0.5, 1.0 - 2.0**-53]  # enumerated outputs of Generator.random()
FN = "checks.c12:replay_one"

BOUND_KINDS = {
    "unit": (0.0, 1.0),
    "negative": (-3.0, -1.0),
    "milli": (-1e-3, 2e-3),
    "mega": (-1e6, 3e6),
    "asym": (-1.0, 2.0),
    "halfint": (0.0, 4.5),  # non-integer period with integer-valued points inside
}
KIND_NAMES = list(BOUND_KINDS)


# ----------------------------------------------------------------------------------------------
# lattices (cell coordinates)
# ----------------------------------------------------------------------------------------------


def _dedupe(vals):
    out = []
    for v in vals:
        v = float(v)
        if v not in out:
            out.append(v)
    return out


def axis_lattice(n):
    """points of one axis in cell coordinates, simplest first"""
    return _dedupe(
        [0.5, n - 0.5, 0.0, n, 0.3, n / 2, 1e-9, -1e-9, n - 1e-9, n + 1e-9, -0.7, n + 1.2, -3.7 * n, 4.3 * n]
    )


def pair_axis_lattice(n, size):
    """per-axis lattice of the point pairs (the first two values define the single-call subset);
    (0.3, n/2 + 0.3) are exactly half a period apart, 0.1 / n - 0.1 straddle the periodic seam"""
    return _dedupe([0.3, n - 0.1, n / 2 + 0.3, n + 1.2, 0.1, n / 2, -0.7][:size])


def lattice(shape):
    return np.array(list(itertools.product(*[axis_lattice(n) for n in shape])), dtype=float)


# ----------------------------------------------------------------------------------------------
# reference model (knows nothing about py-pde)
# ----------------------------------------------------------------------------------------------


class Ref:
    """geometry of one grid configuration, from the property statement only"""

    def __init__(self, cfg):
        self.cfg = cfg
        cls = self.cls = cfg["cls"]
        if cls == "UnitGrid":
            shape = [int(n) for n in cfg["shape"]]
            bounds = [(0.0, float(n)) for n in shape]
            per = [bool(p) for p in cfg["periodic"]]
            self.kind = "cart"
            self.flag = f"dim={len(shape)}"
        elif cls == "CartesianGrid":
            shape = [int(n) for n in cfg["shape"]]
            bounds = [(float(a), float(b)) for a, b in cfg["bounds"]]
            per = [bool(p) for p in cfg["periodic"]]
            self.kind = "cart"
            self.flag = f"dim={len(shape)}"
        elif cls in ("PolarSymGrid", "SphericalSymGrid"):
            shape = [int(cfg["shape"])]
            bounds = [(float(cfg["radius"][0]), float(cfg["radius"][1]))]
            per = [False]
            self.kind = "polar" if cls == "PolarSymGrid" else "sph"
            self.flag = f"hole={bounds[0][0] > 0}"
        elif cls == "CylindricalSymGrid":
            shape = [int(n) for n in cfg["shape"]]
            bounds = [
                (float(cfg["radius"][0]), float(cfg["radius"][1])),
                (float(cfg["bounds_z"][0]), float(cfg["bounds_z"][1])),
            ]
            per = [False, bool(cfg["periodic_z"])]
            self.kind = "cyl"
            self.flag = f"periodic_z={per[1]}"
        else:
            raise ValueError(cls)
        self.na = len(shape)
        self.dim = {"cart": self.na, "polar": 2, "sph": 3, "cyl": 3}[self.kind]
        self.shape = tuple(shape)
        self.N = np.array(shape, dtype=float)
        self.lo = np.array([b[0] for b in bounds])
        self.hi = np.array([b[1] for b in bounds])
        self.L = self.hi - self.lo
        self.dx = self.L / self.N
        self.scale = np.maximum(np.maximum(np.abs(self.lo), np.abs(self.hi)), self.L)
        self.per = per
        self.radial = self.kind != "cart"  # axis 0 is a radius
        # exact rationals of the float inputs
        self.qlo = [Fraction(b[0]) for b in bounds]
        self.qhi = [Fraction(b[1]) for b in bounds]
        self.qdx = [(h - l) / n for l, h, n in zip(self.qlo, self.qhi, shape)]
        # Cartesian component belonging to a periodic grid axis
        if self.kind == "cart":
            self.cart_of_axis = {ax: ax for ax in range(self.na)}
        elif self.kind == "cyl":
            self.cart_of_axis = {1: 2}
        else:
            self.cart_of_axis = {}
        self.per_axes = [ax for ax in range(self.na) if per[ax]]
        self.key = json.dumps(cfg, sort_keys=True)

    # -- points --------------------------------------------------------------------------------
    def grid_of_cell(self, cells):
        return self.lo + cells * self.dx

    def project(self, g):
        """symmetry projection: a (formally) negative radius denotes the point at |r|"""
        if not self.radial:
            return g
        out = np.array(g, dtype=float, copy=True)
        out[..., 0] = np.abs(out[..., 0])
        return out

    def to_cart(self, g, ang):
        """Cartesian position of grid coordinates; ``ang`` = angles of the symmetric axes"""
        if self.kind == "cart":
            return np.array(g, dtype=float, copy=True)
        r = g[..., 0]
        if self.kind == "polar":
            return np.stack([r * math.cos(ang[0]), r * math.sin(ang[0])], axis=-1)
        if self.kind == "cyl":
            return np.stack([r * math.cos(ang[0]), r * math.sin(ang[0]), g[..., 1]], axis=-1)
        th, ph = ang
        return np.stack(
            [r * math.sin(th) * math.cos(ph), r * math.sin(th) * math.sin(ph), r * math.cos(th)], axis=-1
        )

    def from_cart(self, x):
        if self.kind == "cart":
            return np.array(x, dtype=float, copy=True)
        if self.kind == "polar":
            return np.sqrt(x[..., 0] ** 2 + x[..., 1] ** 2)[..., None]
        if self.kind == "cyl":
            return np.stack([np.sqrt(x[..., 0] ** 2 + x[..., 1] ** 2), x[..., 2]], axis=-1)
        return np.sqrt(x[..., 0] ** 2 + x[..., 1] ** 2 + x[..., 2] ** 2)[..., None]

    # -- measures (closed forms, exact rational part) --------------------------------------------
    def _radial(self, q_lo, q_hi):
        """measure of the shell r_lo..r_hi (exact rational part, float prefactor)"""
        if self.kind == "sph":
            return 4.0 * math.pi / 3.0 * float(q_hi**3 - q_lo**3)
        return math.pi * float(q_hi**2 - q_lo**2)

    def cell_volume(self, idx):
        v, sc = 1.0, 1.0
        for ax, i in enumerate(idx):
            lo = self.qlo[ax] + i * self.qdx[ax]
            hi = self.qlo[ax] + (i + 1) * self.qdx[ax]
            if self.radial and ax == 0:
                v *= self._radial(lo, hi)
                sc *= self._radial(Fraction(0), hi)
            else:
                v *= float(hi - lo)
                sc *= float(hi - lo)
        return v, sc

    def measure(self, axes):
        """measure of the full range of the given axes and its round-off scale"""
        v, sc = 1.0, 1.0
        for ax in axes:
            if self.radial and ax == 0:
                v *= self._radial(self.qlo[0], self.qhi[0])
                sc *= self._radial(Fraction(0), self.qhi[0])
            else:
                v *= float(self.qhi[ax] - self.qlo[ax])
                sc *= float(self.qhi[ax] - self.qlo[ax])
        return v, sc


def build(cfg):
    """the real grid"""
    from pde.grids import CartesianGrid, CylindricalSymGrid, PolarSymGrid, SphericalSymGrid, UnitGrid

    cls = cfg["cls"]
    if cls == "UnitGrid":
        return UnitGrid([int(n) for n in cfg["shape"]], periodic=[bool(p) for p in cfg["periodic"]])
    if cls == "CartesianGrid":
        return CartesianGrid(
            [[float(a), float(b)] for a, b in cfg["bounds"]],
            [int(n) for n in cfg["shape"]],
            periodic=[bool(p) for p in cfg["periodic"]],
        )
    ri, ro = (float(v) for v in cfg["radius"])
    radius = ro if ri == 0 else (ri, ro)
    if cls == "PolarSymGrid":
        return PolarSymGrid(radius, int(cfg["shape"]))
    if cls == "SphericalSymGrid":
        return SphericalSymGrid(radius, int(cfg["shape"]))
    return CylindricalSymGrid(
        radius,
        (float(cfg["bounds_z"][0]), float(cfg["bounds_z"][1])),
        [int(n) for n in cfg["shape"]],
        periodic_z=bool(cfg["periodic_z"]),
    )


class EnumRng(np.random.Generator):
    """numpy Generator whose uniform draws are an enumerated sequence (owned nondeterminism)"""

    def __init__(self, seq):
        super().__init__(np.random.PCG64(0))
        self.seq = [float(v) for v in seq]
        self.used = 0

    def _next(self):
        v = self.seq[self.used % len(self.seq)]
        self.used += 1
        return v

    def random(self, size=None, *args, **kwargs):
        if size is None:
            return self._next()
        num = int(np.prod(size))
        return np.array([self._next() for _ in range(num)]).reshape(size)

    def uniform(self, low=0.0, high=1.0, size=None):
        return low + (high - low) * self.random(size)  # numpy's own formula


# ----------------------------------------------------------------------------------------------
# collecting results
# ----------------------------------------------------------------------------------------------


class Col:
    def __init__(self, R):
        self.R = R
        self.viol = {}  # sig -> violation (first = simplest occurrence) with candidates
        self.n = 0
        self.fams = set()
        self.outs = set()
        self.refs = set()
        self.info = collections.Counter()
        self.examples = {}

    def count(self, fam, k=1):
        k = int(k)
        if k > 0:
            self.n += k
            self.fams.add(fam)
            self.info["n:" + fam] += k

    def fail(self, fn, clause, msg, detail, candidates):
        sig = f"{self.R.cls}|{self.R.flag}|{fn}|{clause}"
        if sig in self.viol:
            self.viol[sig]["detail"]["further_failing_inputs_on_this_grid"] += 1
            return
        detail = dict(detail)
        detail["further_failing_inputs_on_this_grid"] = 0
        self.viol[sig] = {
            "sig": sig,
            "msg": f"{msg} on {self.R.cls}({_short(self.R.cfg)})",
            "detail": detail,
            "candidates": candidates,
        }

    def check(self, fam, fn, clause, bad, describe, rcase):
        """``bad``: boolean array over the lattice (first axis); records the first failing entry"""
        bad = np.asarray(bad)
        if bad.ndim == 0:
            bad = bad.reshape(1)
        self.count(fam, bad.shape[0])
        rows = bad.reshape(bad.shape[0], -1).any(axis=1)
        if rows.any():
            idx = np.flatnonzero(rows)
            i = int(idx[0])
            msg, detail = describe(i)
            detail = dict(detail)
            detail["failing_inputs_on_this_grid"] = int(len(idx))
            self.info[f"fail:{fn}|{clause}"] += int(len(idx))
            self.fail(fn, clause, msg, detail, rcase(i))
        return not rows.any()


def _short(cfg):
    return ", ".join(f"{k}={v}" for k, v in cfg.items() if k != "cls")


def _f(x):
    return np.asarray(x, dtype=float).tolist()


# ----------------------------------------------------------------------------------------------
# family: static geometry (bounds, dx, centres, volumes, integrate, project)
# ----------------------------------------------------------------------------------------------


def _subsets(n):
    for k in range(1, n + 1):
        yield from itertools.combinations(range(n), k)


def fam_static(G, R, col, seed):
    from pde import ScalarField

    rc = lambda i=0: [{"grid": R.cfg, "family": "static", "seed": seed}]  # noqa: E731
    na = R.na
    # ---- structure, bounds, dx, centres ----
    ok = (
        tuple(G.shape) == R.shape
        and G.num_axes == na
        and G.dim == R.dim
        and [bool(p) for p in G.periodic] == R.per
    )
    col.check(
        "geometry", "grid", "shape/num_axes/dim/periodic differ from the constructor arguments", not ok,
        lambda i: ("grid structure differs", {"shape": list(G.shape), "periodic": list(G.periodic), "dim": G.dim}), rc,
    )
    for ax in range(na):
        lo, hi = (float(v) for v in G.axes_bounds[ax])
        tol = 2 * EPS * R.scale[ax]
        col.check(
            "geometry", "axes_bounds", "bounds differ from the given bounds",
            abs(lo - R.lo[ax]) > tol or abs(hi - R.hi[ax]) > tol,
            lambda i: (f"axes_bounds[{ax}]=({lo!r},{hi!r})", {"expected": [R.lo[ax], R.hi[ax]]}), rc,
        )
        dx_ref = float(R.qdx[ax])
        dx = float(G.discretization[ax])
        col.check(
            "geometry", "discretization", "dx differs from (x_max-x_min)/N", abs(dx - dx_ref) > 4 * EPS * dx_ref,
            lambda i: (f"discretization[{ax}]={dx!r}, expected {dx_ref!r}", {"axis": ax}), rc,
        )
        cen = np.asarray(G.axes_coords[ax], dtype=float)
        exp = np.array([float(R.qlo[ax] + (Fraction(2 * i + 1, 2)) * R.qdx[ax]) for i in range(R.shape[ax])])
        if cen.shape != exp.shape:
            col.check("geometry", "axes_coords", "wrong number of cell centres", True,
                      lambda i: (f"axes_coords[{ax}] has shape {cen.shape}", {}), rc)
        else:
            col.check(
                "geometry", "axes_coords", "cell centres differ from x_min+(i+1/2)dx",
                np.abs(cen - exp) > 8 * EPS * R.scale[ax],
                lambda i: (f"axes_coords[{ax}][{i}]={cen[i]!r}, expected {exp[i]!r}", {"axis": ax, "i": i}), rc,
            )
    # ---- centres <-> index + 1/2 ----
    idx = np.array(list(np.ndindex(*R.shape)), dtype=float).reshape(-1, na)
    half = idx + 0.5
    centres = R.lo + half * R.dx
    tol_c = K * EPS * ((R.scale + np.abs(centres)) / R.dx + half + 1.0)
    cc = np.asarray(G.cell_coords, dtype=float).reshape(-1, na)
    col.check(
        "geometry", "cell_coords", "cell_coords differ from x_min+(i+1/2)dx", np.abs(cc - centres) > 8 * EPS * R.scale,
        lambda i: (f"cell_coords{tuple(int(v) for v in idx[i])}={_f(cc[i])}", {"expected": _f(centres[i])}), rc,
    )
    for src, pts in (("grid", cc), ("cartesian", np.asarray(G.transform(cc.copy(), "grid", "cartesian")))):
        back = np.asarray(G.transform(pts.copy(), src, "cell"), dtype=float)
        col.check(
            "transform", "transform", f"cell centres ({src}) do not map to index+1/2", np.abs(back - half) > tol_c,
            lambda i: (f"centre of cell {tuple(int(v) for v in idx[i])} -> cell coordinates {_f(back[i])}",
                       {"expected": _f(half[i])}), rc,
        )
    fwd = np.asarray(G.transform(half.copy(), "cell", "grid"), dtype=float)
    col.check(
        "transform", "transform", "index+1/2 (cell) does not map to the cell centre",
        np.abs(fwd - centres) > K * EPS * R.scale,
        lambda i: (f"cell coordinates {_f(half[i])} -> {_f(fwd[i])}", {"expected": _f(centres[i])}), rc,
    )
    # ---- cell volumes ----
    cv = np.asarray(G.cell_volumes, dtype=float)
    ref = np.array([R.cell_volume(tuple(int(v) for v in i)) for i in idx])
    vol_ref, vol_sc = R.measure(range(na))
    ncell = int(np.prod(R.shape))
    if cv.shape != R.shape:
        col.check("volumes", "cell_volumes", "wrong shape", True, lambda i: (f"cell_volumes.shape={cv.shape}", {}), rc)
    else:
        cvf = cv.reshape(-1)
        col.check(
            "volumes", "cell_volumes", "cell volume differs from the exact closed form",
            np.abs(cvf - ref[:, 0]) > KV * EPS * ref[:, 1],
            lambda i: (f"cell_volumes{tuple(int(v) for v in idx[i])}={cvf[i]!r}, exact {ref[i, 0]!r}",
                       {"rel_err": float(abs(cvf[i] - ref[i, 0]) / ref[i, 0])}), rc,
        )
        tot = float(cv.sum())
        gv = float(G.volume)
        col.check(
            "volumes", "cell_volumes", "cell volumes do not sum to grid.volume",
            abs(tot - gv) > KV * EPS * (ncell + 2) * vol_sc,
            lambda i: (f"sum(cell_volumes)={tot!r}, grid.volume={gv!r}", {}), rc,
        )
        col.check(
            "volumes", "volume", "grid.volume differs from the exact closed form", abs(gv - vol_ref) > KV * EPS * vol_sc,
            lambda i: (f"grid.volume={gv!r}, exact {vol_ref!r}", {}), rc,
        )
    # ---- integrate(1) over all axes and every subset ----
    forms = {"scalar": 1, "ones": np.ones(R.shape), "ones_rank1": np.ones((2, *R.shape))}
    axes_forms = [(None, tuple(range(na)))]
    for sub in _subsets(na):
        axes_forms += [(tuple(sub), sub), (list(sub), sub)]
        if len(sub) == 1:
            axes_forms.append((int(sub[0]), sub))
    for fname, data in forms.items():
        for arg, sub in axes_forms:
            try:
                res = np.asarray(G.integrate(data, axes=arg), dtype=float)
            except NotImplementedError:
                col.refs.add("integrate over selected axes: NotImplementedError")
                col.outs.add("integrate:refused")
                continue
            m_ref, m_sc = R.measure(sub)
            rest = tuple(R.shape[a] for a in range(na) if a not in sub)
            shape_exp = ((2,) if fname == "ones_rank1" else ()) + rest
            nsum = int(np.prod([R.shape[a] for a in sub]))
            if res.shape != shape_exp:
                bad = True
            else:
                bad = bool(np.any(np.abs(res - m_ref) > KV * EPS * (nsum + 2) * m_sc))
            col.check(
                "integrate", "integrate",
                "integral of 1 differs from the measure" + ("" if arg is None else " (selected axes)"), bad,
                lambda i: (f"integrate({fname}, axes={arg!r}) = {_f(res)!r}, expected {m_ref!r} with shape {shape_exp}",
                           {"axes": sub}), rc,
            )
            col.outs.add("integrate:all" if len(sub) == na else "integrate:subset")
    one = ScalarField(G, 1.0)
    val = float(one.integral)
    col.check("integrate", "integrate", "ScalarField(1).integral differs from the volume",
              abs(val - vol_ref) > KV * EPS * (ncell + 2) * vol_sc,
              lambda i: (f"ScalarField(grid, 1).integral={val!r}, exact volume {vol_ref!r}", {}), rc)
    # ---- project preserves the integral ----
    data = np.random.default_rng(seed).uniform(0.5, 1.5, size=R.shape)
    f = ScalarField(G, data)
    i_ref = float((data.reshape(-1) * ref[:, 0]).sum())
    tol_i = KV * EPS * (ncell + 2) * 1.5 * vol_sc
    i0 = float(f.integral)
    col.check("integrate", "integrate", "integral of a field differs from sum(data*exact volume)", abs(i0 - i_ref) > tol_i,
              lambda i: (f"integral={i0!r}, expected {i_ref!r}", {}), rc)
    names = list(G.axes)
    for sub in _subsets(na):
        sel = [names[a] for a in sub]
        for arg in ([sel] if len(sel) > 1 else [sel, sel[0]]):
            try:
                p = f.project(arg)
            except NotImplementedError as e:
                col.refs.add(f"project: NotImplementedError {e}")
                col.outs.add("project:refused")
                continue
            except ValueError as e:
                if len(sub) == na:  # nothing would be left: there is no grid without axes
                    col.refs.add(f"project over all axes: ValueError {e}")
                    col.outs.add("project:refused(all axes)")
                    continue
                raise
            ip = float(p.integral)
            col.check(
                "project", "project", "projection does not preserve the integral", abs(ip - i0) > 2 * tol_i,
                lambda i: (f"project({arg!r}).integral={ip!r}, field integral {i0!r}", {"axes": sel}), rc,
            )
            col.outs.add("project:ok")


# ----------------------------------------------------------------------------------------------
# family: lattice points (transform, contains_point, normalize_point)
# ----------------------------------------------------------------------------------------------


def _call_forms(col, fam, fn, what, f, arr, tol, rcase, is_bool=False, skip=None, scalar=False):
    """call ``f`` on every row (single points) and on the batches (n,d) and (2,n,d) [(and scalars
    on 1-axis grids)]; batches must agree with the single-point results.  Returns the stacked
    single-point results."""
    n = len(arr)
    single = np.array([np.asarray(f(arr[i].copy())) for i in range(n)])
    forms = [("(n,d)", np.asarray(f(arr.copy())), single)]
    b3 = np.asarray(f(np.stack([arr, arr[::-1]])))
    if b3.shape[:1] == (2,) and b3.shape[1:] == single.shape:
        forms.append(("(m,n,d)", b3[0], single))
        forms.append(("(m,n,d)", b3[1], single[::-1]))
    else:
        forms.append(("(m,n,d)", b3, None))
    if scalar:
        sc = np.array([np.asarray(f(float(arr[i, 0]))) for i in range(n)])
        forms.append(("scalar", sc.reshape(single.shape) if sc.size == single.size else sc, single))
    for name, got, exp in forms:
        if exp is None or got.shape != exp.shape:
            col.check(fam, fn, f"batch {name} has the wrong shape", True,
                      lambda i: (f"{what}: batch {name} result has shape {got.shape}, single points {single.shape}", {}),
                      rcase)
            continue
        if is_bool:
            bad = got != exp
        else:
            t = tol if exp is single else tol[::-1]
            bad = np.abs(got - exp) > t
        if skip is not None:
            s = skip if exp is single else skip[::-1]
            bad = bad & ~(s.reshape(s.shape + (1,) * (bad.ndim - 1)))
        col.check(
            fam, fn, f"batch {name} differs from single points", bad,
            lambda i: (f"{what}: batch {name} entry {i} = {_f(got[i])}, single point {_f(exp[i])}", {}), rcase,
        )
    return single


def fam_points(G, R, col, cells, ang):
    cells = np.asarray(cells, dtype=float).reshape(-1, R.na)
    n, na = cells.shape
    g = R.grid_of_cell(cells)
    gp = R.project(g)
    cp = (gp - R.lo) / R.dx
    X = R.to_cart(g, ang)
    tol_g = K * EPS * (R.scale + np.abs(cells) * R.dx)
    tol_c = K * EPS * ((R.scale + np.abs(g)) / R.dx + np.abs(cells) + 1.0)
    tol_x = K * EPS * (np.sqrt((X * X).sum(-1, keepdims=True)) + R.scale.max()) * np.ones((1, R.dim))

    def rc(i):
        one = {"grid": R.cfg, "family": "points", "cells": [cells[i].tolist()], "ang": list(ang)}
        two = dict(one, cells=cells[max(0, i - 1) : i + 2].tolist())
        return [one, two, {"grid": R.cfg, "family": "points", "ang": list(ang)}]

    def desc(name, inp, got, exp):
        return lambda i: (
            f"{name}: input {_f(inp[i])} (cell coordinates {_f(cells[i])}) -> {_f(got[i])}, expected {_f(exp[i])}",
            {"cell": _f(cells[i]), "input": _f(inp[i]), "got": _f(got[i]), "expected": _f(exp[i])},
        )

    def T(src, dst):
        return lambda p: G.transform(p, src, dst)

    # ---- every conversion against the reference ----
    S = {}
    spec = [
        ("cell", "grid", cells, tol_g),
        ("grid", "cell", g, tol_c),
        ("cell", "cartesian", cells, tol_x),
        ("grid", "cartesian", g, tol_x),
        ("cartesian", "grid", X, 2 * tol_g),
        ("cartesian", "cell", X, 2 * tol_c),
    ]
    for src, dst, inp, tol in spec:
        S[src, dst] = _call_forms(
            col, "transform", "transform", f"transform {src}->{dst}", T(src, dst), inp, tol, rc,
        )
    col.check("transform", "transform", "cell->grid differs from x_min+c*dx", np.abs(S["cell", "grid"] - g) > tol_g,
              desc("cell->grid", cells, S["cell", "grid"], g), rc)
    col.check("transform", "transform", "grid->cell differs from (x-x_min)/dx", np.abs(S["grid", "cell"] - cells) > tol_c,
              desc("grid->cell", g, S["grid", "cell"], cells), rc)
    for src, inp in (("cell", cells), ("grid", g)):
        out = S[src, "cartesian"]
        if out.shape != (n, R.dim):
            col.check("transform", "transform", f"{src}->cartesian has the wrong shape", True,
                      lambda i: (f"shape {out.shape}", {}), rc)
            continue
        back = R.from_cart(out)  # radius/height of the Cartesian image (independent of the chosen ray)
        col.check("transform", "transform", f"{src}->cartesian is not a point with these grid coordinates",
                  np.abs(back - gp) > 2 * tol_g, desc(f"{src}->cartesian (radius/height)", inp, back, gp), rc)
    col.check("transform", "transform", "cartesian->grid differs from the symmetry projection",
              np.abs(S["cartesian", "grid"] - gp) > 2 * tol_g, desc("cartesian->grid", X, S["cartesian", "grid"], gp), rc)
    col.check("transform", "transform", "cartesian->cell differs from the cell coordinate of the projection",
              np.abs(S["cartesian", "cell"] - cp) > 2 * tol_c, desc("cartesian->cell", X, S["cartesian", "cell"], cp), rc)
    # ---- compositions of the real conversions are mutually inverse ----
    def comp(first, second, expect, tol, label):
        mid = S[first]
        out = np.array([np.asarray(G.transform(mid[i].copy(), *second)) for i in range(n)])
        if second[1] == "cartesian":
            out = R.from_cart(out)
        col.check("transform", "transform", f"{label} is not the identity (modulo symmetry)", np.abs(out - expect) > tol,
                  desc(label, cells, out, expect), rc)

    comp(("cell", "grid"), ("grid", "cell"), cells, 2 * tol_c, "cell->grid->cell")
    comp(("grid", "cell"), ("cell", "grid"), g, 2 * tol_g, "grid->cell->grid")
    comp(("cell", "cartesian"), ("cartesian", "cell"), cp, 3 * tol_c, "cell->cartesian->cell")
    comp(("grid", "cartesian"), ("cartesian", "grid"), gp, 3 * tol_g, "grid->cartesian->grid")
    comp(("cartesian", "grid"), ("grid", "cartesian"), gp, 3 * tol_g, "cartesian->grid->cartesian")
    comp(("cartesian", "cell"), ("cell", "cartesian"), gp, 3 * tol_g, "cartesian->cell->cartesian")
    if np.any(g[:, 0] < 0) and R.radial:
        col.outs.add("transform:negative radius projected")

    # ---- contains_point <=> all cell coordinates in [0, N] ----
    def near_face(c):
        return np.any((np.abs(c) < FACE) | (np.abs(c - R.N) < FACE), axis=-1)

    for co, inp, cref in (("cell", cells, cells), ("grid", g, cells), ("cartesian", X, cp)):
        inside = np.all((cref >= 0) & (cref <= R.N), axis=1)
        skip = np.zeros(n, dtype=bool) if co == "cell" else near_face(cref)
        got = _call_forms(
            col, "contains", "contains_point", f"contains_point(coords={co})",
            lambda p, co=co: G.contains_point(p, coords=co), inp, None, rc, is_bool=True, skip=skip,
        )
        if got.shape != (n,):
            col.check("contains", "contains_point", "result has the wrong shape", True,
                      lambda i: (f"shape {got.shape}", {}), rc)
            continue
        col.check(
            "contains", "contains_point", "differs from: all cell coordinates in [0,N]", (got != inside) & ~skip,
            lambda i: (f"contains_point({_f(inp[i])}, coords={co!r})={bool(got[i])}, cell coordinates {_f(cref[i])}",
                       {"cell": _f(cref[i]), "coords": co}), rc,
        )
        col.outs.update(
            {f"contains:{'inside' if v else 'outside'}" for v in set(inside[~skip].tolist())}
            | ({"contains:face(not decided)"} if skip.any() else set())
        )

    # ---- normalize_point ----
    tol_q = K * EPS * (np.abs(g) + R.scale)
    for reflect in (False, True):
        name = "normalize_point" + ("(reflect)" if reflect else "")
        Q = _call_forms(
            col, "normalize", "normalize_point", name, lambda p, r=reflect: G.normalize_point(p, reflect=r), g,
            tol_q, rc, scalar=na == 1,
        )
        if Q.shape != g.shape:
            col.check("normalize", "normalize_point", "result has the wrong shape", True,
                      lambda i: (f"shape {Q.shape}", {}), rc)
            continue
        expect_inside = np.ones(n, dtype=bool)
        for ax in range(na):
            q, x, lo, hi, L = Q[:, ax], g[:, ax], R.lo[ax], R.hi[ax], R.L[ax]
            t = tol_q[:, ax]
            d_ = lambda i, ax=ax: (  # noqa: E731
                f"{name}({_f(g[i])}) = {_f(Q[i])} (axis {ax}, bounds [{lo!r},{hi!r}], periodic={R.per[ax]})",
                {"point": _f(g[i]), "result": _f(Q[i]), "axis": ax, "reflect": reflect},
            )
            if R.per[ax]:
                col.check("normalize", "normalize_point", "periodic axis: result outside the domain",
                          (q < lo - t) | (q > hi + t), d_, rc)
                k = (q - x) / L
                col.check("normalize", "normalize_point", "periodic axis: not moved by a whole number of periods",
                          np.abs(k - np.rint(k)) > t / L, d_, rc)
                col.outs.update({"normalize:wrapped" if v else "normalize:periodic unchanged" for v in set((np.rint(k) != 0).tolist())})
            elif not reflect:
                col.check("normalize", "normalize_point", "non-periodic axis changed", q != x, d_, rc)
                c = cells[:, ax]
                expect_inside &= (c >= FACE) & (c <= R.N[ax] - FACE)
            else:
                col.check("normalize", "normalize_point", "reflect: result outside the domain",
                          (q < lo - t) | (q > hi + t), d_, rc)
                k1 = (q - x) / (2 * L)
                k2 = (q + x - 2 * lo) / (2 * L)
                dev = np.minimum(np.abs(k1 - np.rint(k1)), np.abs(k2 - np.rint(k2)))
                col.check("normalize", "normalize_point", "reflect: result is not a mirror image of the point",
                          dev > t / L, d_, rc)
                col.outs.update({"normalize:reflected" if v else "normalize:reflect unchanged" for v in set((np.abs(q - x) > t).tolist())})
        # idempotent
        Q2 = np.array([np.asarray(G.normalize_point(Q[i].copy(), reflect=reflect)) for i in range(n)])
        col.check(
            "normalize", "normalize_point", "not idempotent", np.abs(Q2 - Q) > 1e-12 * R.scale,
            lambda i: (f"{name}: {_f(g[i])} -> {_f(Q[i])} -> {_f(Q2[i])}", {"point": _f(g[i]), "reflect": reflect}), rc,
        )
        # the normalised point is reported as contained (where it has to be inside and is not on a face)
        cq = (Q - R.lo) / R.dx
        inside_ref = np.all((cq >= -tol_c) & (cq <= R.N + tol_c), axis=1)
        col.check(
            "normalize", "normalize_point", "result does not lie inside the domain", expect_inside & ~inside_ref,
            lambda i: (f"{name}({_f(g[i])}) = {_f(Q[i])} has cell coordinates {_f(cq[i])}", {"reflect": reflect}), rc,
        )
        cont = np.asarray(G.contains_point(Q.copy(), coords="grid"))
        decide = expect_inside & ~near_face(cq)
        col.check(
            "normalize", "normalize_point", "result is not reported as contained", decide & ~cont,
            lambda i: (f"contains_point({name}({_f(g[i])}) = {_f(Q[i])}) is False", {"reflect": reflect}), rc,
        )


# ----------------------------------------------------------------------------------------------
# family: get_random_point with enumerated draws
# ----------------------------------------------------------------------------------------------


def random_settings(R):
    lmin = float(R.L.min())
    bds = [0.0, 0.1 * lmin, 0.45 * lmin, 0.5 * lmin]
    avoid = [False, True] if R.radial else [None]
    return [(co, bd, av) for co in ("cartesian", "grid", "cell") for bd in bds for av in avoid]


def fam_random(G, R, col, only=None):
    for co, bd, av in random_settings(R):
        if only is not None and [co, bd, av] != [only["co"], only["bd"], only["avoid"]]:
            continue
        kw = {"boundary_distance": bd, "coords": co}
        if av is not None:
            kw["avoid_center"] = av
        probe = EnumRng([0.5])
        try:
            G.get_random_point(rng=probe, **kw)
        except RuntimeError as e:
            if "too close to boundary" not in str(e):
                raise
            col.refs.add("get_random_point: RuntimeError Random points would be too close to boundary")
            col.outs.add("random:refused")
            col.info["random:refused settings"] += 1
            continue
        k = probe.used
        combos = [tuple(only["draws"])] if only is not None else itertools.product(DRAWS, repeat=k)
        for draws in combos:
            rng = EnumRng(draws)
            p = np.asarray(G.get_random_point(rng=rng, **kw), dtype=float)
            rcase = lambda i=0, draws=draws: [  # noqa: E731
                {"grid": R.cfg, "family": "random", "co": co, "bd": bd, "avoid": av, "draws": list(draws)}
            ]
            what = f"get_random_point({', '.join(f'{a}={b!r}' for a, b in kw.items())}) with draws {list(draws)}"
            shape_exp = (R.dim,) if co == "cartesian" else (R.na,)
            if p.shape != shape_exp or rng.used != k:
                col.check("random", "get_random_point", "wrong shape or number of draws", True,
                          lambda i: (f"{what}: shape {p.shape}, {rng.used} draws (expected {shape_exp}, {k})", {}), rcase)
                continue
            if co == "cell":
                c = p
                gq = R.grid_of_cell(p)
            else:
                gq = R.from_cart(p) if co == "cartesian" else p
                c = (gq - R.lo) / R.dx
            tol = 2 * K * EPS * ((R.scale + np.abs(gq)) / R.dx + R.N + 1.0)
            col.check(
                "random", "get_random_point", "generated point lies outside the grid",
                bool(np.any((c < -tol) | (c > R.N + tol))),
                lambda i: (f"{what} = {_f(p)} has cell coordinates {_f(c)}", {"point": _f(p), "cell": _f(c)}), rcase,
            )
            on_face = bool(np.any((np.abs(c) < FACE) | (np.abs(c - R.N) < FACE)))
            cont = bool(G.contains_point(p.copy(), coords=co))
            if on_face:
                col.outs.add("random:on a face (contains_point not decided)")
                if not cont:
                    col.outs.add("random:on a face and reported outside")
                    side = "upper" if bool(np.any(c > R.N)) else "lower"
                    key = f"doubtful:random point on the {side} face reported as not contained|{R.cls}"
                    col.info[key] += 1
                    col.examples.setdefault(
                        key, {"grid": R.cfg, "call": what, "point": _f(p), "cell": [repr(float(v)) for v in c]}
                    )
            else:
                col.check(
                    "random", "get_random_point", "generated point is not reported as contained", not cont,
                    lambda i: (f"contains_point({what} = {_f(p)}, coords={co!r}) is False; cell coordinates {_f(c)}",
                               {"point": _f(p), "cell": _f(c)}), rcase,
                )
                col.outs.add("random:interior contained")


# ----------------------------------------------------------------------------------------------
# family: difference_vector / distance on point pairs
# ----------------------------------------------------------------------------------------------


def pair_lattice(R, size):
    pts = np.array(list(itertools.product(*[pair_axis_lattice(n, size) for n in R.shape])), dtype=float)
    m = len(pts)
    c1 = np.repeat(pts, m, axis=0)
    c2 = np.tile(pts, (m, 1))
    first_two = [pair_axis_lattice(n, size)[:2] for n in R.shape]
    in_sub = np.all([np.isin(pts[:, ax], first_two[ax]) for ax in range(R.na)], axis=0)
    single_rows = np.flatnonzero(np.repeat(in_sub, m))
    return c1, c2, single_rows


def fam_pairs(G, R, col, c1, c2, ang1, ang2, single_rows):
    c1 = np.asarray(c1, dtype=float).reshape(-1, R.na)
    c2 = np.asarray(c2, dtype=float).reshape(-1, R.na)
    n = len(c1)
    ray = (0.0, 0.0)
    per_comps = [(R.cart_of_axis[ax], ax) for ax in R.per_axes]
    free = [c for c in range(R.dim) if c not in [pc for pc, _ in per_comps]]
    componentwise_all = R.kind == "cart"

    def rep(cells, co, ang):
        if co == "cell":
            return cells.copy()
        g = R.grid_of_cell(cells)
        return g if co == "grid" else R.to_cart(g, ang)

    def rc(i):
        return [
            {"grid": R.cfg, "family": "pairs", "c1": [c1[i].tolist()], "c2": [c2[i].tolist()],
             "ang1": list(ang1), "ang2": list(ang2)},
            {"grid": R.cfg, "family": "pairs", "ang1": list(ang1), "ang2": list(ang2)},
        ]

    for co in ("grid", "cell", "cartesian"):
        P1, P2 = rep(c1, co, ang1), rep(c2, co, ang2)
        X1 = R.to_cart(R.grid_of_cell(c1), ang1 if co == "cartesian" else ray)
        X2 = R.to_cart(R.grid_of_cell(c2), ang2 if co == "cartesian" else ray)
        D = X2 - X1
        mag = np.sqrt((X1 * X1).sum(-1)) + np.sqrt((X2 * X2).sum(-1)) + float(R.L.max())
        tol = K * EPS * mag
        dv = np.asarray(G.difference_vector(P1.copy(), P2.copy(), coords=co), dtype=float)
        dvr = np.asarray(G.difference_vector(P2.copy(), P1.copy(), coords=co), dtype=float)
        d12 = np.asarray(G.distance(P1.copy(), P2.copy(), coords=co), dtype=float)
        d21 = np.asarray(G.distance(P2.copy(), P1.copy(), coords=co), dtype=float)

        def d_(extra=None, P1=P1, P2=P2, dv=dv, d12=d12, D=D, co=co):
            return lambda i: (
                f"p1={_f(P1[i])}, p2={_f(P2[i])} (coords={co!r}): difference_vector={_f(dv[i])}, "
                f"distance={float(d12[i])!r}, plain Cartesian difference {_f(D[i])}"
                + ("" if extra is None else "; " + extra(i)),
                {"p1": _f(P1[i]), "p2": _f(P2[i]), "coords": co, "difference_vector": _f(dv[i]),
                 "distance": float(d12[i]), "cell1": _f(c1[i]), "cell2": _f(c2[i])},
            )

        if dv.shape != (n, R.dim) or d12.shape != (n,) or dvr.shape != dv.shape or d21.shape != d12.shape:
            col.check("distance", "difference_vector", "result has the wrong shape", True,
                      lambda i: (f"shapes {dv.shape} / {d12.shape} for {n} pairs of dimension {R.dim}", {}), rc)
            continue
        # -- the vector is the plain difference, moved by whole periods along periodic axes only
        if free:
            if componentwise_all or co == "cartesian":
                bad = np.abs(dv[:, free] - D[:, free]) > tol[:, None]
            else:  # grid/cell coordinates of a symmetric grid: the ray is a convention, compare lengths
                bad = np.abs(np.sqrt((dv[:, free] ** 2).sum(-1)) - np.sqrt((D[:, free] ** 2).sum(-1))) > tol
            col.check("distance", "difference_vector", "non-periodic component differs from the plain difference", bad,
                      d_(), rc)
        for pc, ax in per_comps:
            L = R.L[ax]
            k = (dv[:, pc] - D[:, pc]) / L
            col.check("distance-periodic", "difference_vector", "periodic component is not the plain difference plus whole periods",
                      np.abs(k - np.rint(k)) > tol / L, d_(), rc)
            col.check("distance-periodic", "difference_vector", "periodic component exceeds half a period",
                      np.abs(dv[:, pc]) > L / 2 + tol,
                      d_(lambda i, pc=pc, L=L: f"|component {pc}| = {abs(float(dv[i, pc]))!r} > L/2 = {float(L) / 2!r}"), rc)
            col.outs.update({"distance:wrapped" if v else "distance:periodic plain" for v in set((np.rint(k) != 0).tolist())})
            if np.any(np.abs(np.abs(dv[:, pc]) - L / 2) <= tol):
                col.outs.add("distance:exactly half a period")
        if not per_comps:
            col.outs.add("distance:no periodic axis")
        # -- distance is the length of the vector; symmetry
        col.check("distance", "difference_vector", "distance is not the length of the difference vector",
                  np.abs(d12 - np.sqrt((dv * dv).sum(-1))) > tol, d_(), rc)
        col.check("distance", "difference_vector", "distance is not symmetric", np.abs(d12 - d21) > tol,
                  d_(lambda i: f"distance(p2,p1)={float(d21[i])!r}"), rc)

        def differs(a, b):
            """component-wise comparison; a component of +-L/2 (exactly half a period) has no sign"""
            bad = np.abs(a - b) > tol[:, None]
            for pc, ax in per_comps:
                h = R.L[ax] / 2
                tie = (np.abs(np.abs(a[:, pc]) - h) <= tol) & (np.abs(np.abs(b[:, pc]) - h) <= tol)
                bad[:, pc] &= ~tie
            return bad

        col.check("distance", "difference_vector", "vector is not antisymmetric", differs(dv, -dvr),
                  d_(lambda i: f"difference_vector(p2,p1)={_f(dvr[i])}"), rc)
        # -- invariance under period shifts of either point
        for pc, ax in per_comps:
            for which in (1, 2):
                for s in (1, -1, 3):
                    Q1, Q2 = P1.copy(), P2.copy()
                    Q = Q1 if which == 1 else Q2
                    if co == "cell":
                        Q[:, ax] += s * R.N[ax]
                    elif co == "grid":
                        Q[:, ax] += s * R.L[ax]
                    else:
                        Q[:, pc] += s * R.L[ax]
                    tol_s = tol + K * EPS * abs(s) * R.L[ax]
                    dvs = np.asarray(G.difference_vector(Q1.copy(), Q2.copy(), coords=co), dtype=float)
                    ds = np.asarray(G.distance(Q1.copy(), Q2.copy(), coords=co), dtype=float)
                    ex = lambda i, s=s, which=which, ax=ax, dvs=dvs, ds=ds: (  # noqa: E731
                        f"after shifting p{which} by {s} period(s) along axis {ax}: "
                        f"difference_vector={_f(dvs[i])}, distance={float(ds[i])!r}"
                    )
                    col.check("distance-periodic", "difference_vector", "distance not invariant under a period shift",
                              np.abs(ds - d12) > tol_s, d_(ex), rc)
                    bad = differs(dvs, dv) & (np.abs(dvs - dv) > tol_s[:, None])
                    col.check("distance-periodic", "difference_vector", "vector not invariant under a period shift",
                              bad, d_(ex), rc)
        # -- single-point calls agree with the batch
        for i in single_rows:
            i = int(i)
            sv = np.asarray(G.difference_vector(P1[i].copy(), P2[i].copy(), coords=co), dtype=float)
            sd = np.asarray(G.distance(P1[i].copy(), P2[i].copy(), coords=co), dtype=float)
            bad = sv.shape != (R.dim,) or sd.shape != () or bool(np.any(np.abs(sv - dv[i]) > tol[i])) or abs(sd - d12[i]) > tol[i]
            col.check("distance", "difference_vector", "single-point call differs from the batch", bad,
                      lambda j, i=i, sv=sv, sd=sd: (
                          f"p1={_f(P1[i])}, p2={_f(P2[i])} (coords={co!r}): single {_f(sv)} / {float(sd)!r}, "
                          f"batch {_f(dv[i])} / {float(d12[i])!r}", {}),
                      lambda j, i=i: rc(i))
        # (m,n,d) batches
        if n >= 1:
            B1, B2 = np.stack([P1, P1[::-1]]), np.stack([P2, P2[::-1]])
            bv = np.asarray(G.difference_vector(B1, B2, coords=co), dtype=float)
            bd = np.asarray(G.distance(B1.copy(), B2.copy(), coords=co), dtype=float)
            if bv.shape != (2, n, R.dim) or bd.shape != (2, n):
                bad = np.ones(1, dtype=bool)
            else:
                bad = (
                    (np.abs(bv[0] - dv) > tol[:, None]).any(-1)
                    | (np.abs(bv[1] - dv[::-1]) > tol[::-1, None]).any(-1)[::-1]
                    | (np.abs(bd[0] - d12) > tol)
                    | (np.abs(bd[1] - d12[::-1]) > tol[::-1])[::-1]
                )
            col.check("distance", "difference_vector", "batch (m,n,d) differs from batch (n,d)", bad,
                      lambda i: (f"shapes {bv.shape} / {bd.shape}; pair {i}", {}), rc)


# ----------------------------------------------------------------------------------------------
# family: integer-valued points presented as python ints, int64 arrays and float32 arrays
# ----------------------------------------------------------------------------------------------

EPS32 = 2.0**-23
TYPED_FORMS = [
    # (family name in the signature, description, converter of a float64 array, round-off of the form)
    ("integer-typed points", "python list of ints", lambda a: a.astype(np.int64).tolist(), EPS),
    ("integer-typed points", "np.int64 array", lambda a: a.astype(np.int64), EPS),
    ("float32-typed points", "np.float32 array", lambda a: a.astype(np.float32), EPS32),
]


def _ints(vals, limit):
    out = []
    for v in vals:
        v = int(v)
        if abs(v) < 2**24 and v not in out:  # exactly representable as float32
            out.append(v)
    return out[:limit]


def integer_points(R):
    """integer-valued points of every coordinate system (all combinations across the axes): inside,
    on/near the bounds, outside, several periods away.  Returns {coords: float64 array (n, k)}"""
    limit = {1: 7, 2: 6, 3: 5}[R.na]
    cell_ax, grid_ax = [], []
    for ax in range(R.na):
        n, lo, hi, L = R.shape[ax], R.lo[ax], R.hi[ax], R.L[ax]
        cell_ax.append(_ints([0, n, 1, -1, n + 2, -2 * n, 3 * n + 1], limit))
        grid_ax.append(
            _ints(
                [math.ceil(lo), math.floor(hi), math.ceil(lo) + 1, math.floor(lo) - 1, math.ceil(hi) + 2,
                 round(lo - 2.2 * L), round(hi + 2.8 * L)],
                limit,
            )
        )
    prod = lambda axes: np.array(list(itertools.product(*axes)), dtype=float)  # noqa: E731
    if R.kind == "cart":
        cart_ax = grid_ax
    elif R.kind == "polar":
        cart_ax = [grid_ax[0], [0, 1, -2]]
    elif R.kind == "cyl":
        cart_ax = [grid_ax[0][:4], [0, 1, -2], grid_ax[1]]
    else:
        cart_ax = [grid_ax[0], [0, 1], [0, -2]]
    return {"cell": prod(cell_ax), "grid": prod(grid_ax), "cartesian": prod(cart_ax)}


def fam_typed(G, R, col, only=None):
    """every point-taking API must give the same result for integer-valued points whether they are
    given as float64 arrays (the form validated by the other families) or as ints / int64 / float32"""
    pts = integer_points(R)
    dxmin = float(R.dx.min())

    def phys(P, src):  # magnitude of the operands in physical units, per point
        a = np.abs(np.asarray(P, dtype=float))
        m = (a * R.dx).max(-1) if src == "cell" else a.max(-1)
        return m + float(R.scale.max())

    def tol_for(P, src, out, out_kind, eps):
        t = K * eps * (P if src is None else phys(P, src))
        if out_kind == "cell":
            t = t / dxmin
        t = t.reshape(t.shape + (1,) * (out.ndim - t.ndim))
        return t + K * eps * np.abs(out)

    unary = []
    for src, dst in itertools.permutations(("cell", "grid", "cartesian"), 2):
        unary.append(("transform", f"{src}->{dst}", src, dst, lambda p, s=src, d=dst: G.transform(p, s, d)))
    for co in ("cell", "grid", "cartesian"):
        unary.append(("contains_point", f"coords={co}", co, "bool", lambda p, c=co: G.contains_point(p, coords=c)))
    for reflect in (False, True):
        unary.append(("normalize_point", f"reflect={reflect}", "grid", "grid",
                      lambda p, r=reflect: G.normalize_point(p, reflect=r)))
    binary = []
    for co in ("cell", "grid", "cartesian"):
        binary.append(("difference_vector", f"coords={co}", co, "cartesian",
                       lambda a, b, c=co: G.difference_vector(a, b, coords=c)))
        binary.append(("distance", f"coords={co}", co, "cartesian", lambda a, b, c=co: G.distance(a, b, coords=c)))

    def face_skip(P, src, eps):
        """points whose containment is not decided at the round-off ``eps`` of the form (float32 only)"""
        P = np.asarray(P, dtype=float)
        gq = R.grid_of_cell(P) if src == "cell" else (R.from_cart(P) if src == "cartesian" else P)
        c = (gq - R.lo) / R.dx
        t = (K * eps * phys(P, src) / dxmin)[..., None] + FACE
        return np.any((np.abs(c) < t) | (np.abs(c - R.N) < t), axis=-1)

    def compare(api, variant, fam, form, shape_name, got, exp, tol, inputs, rc):
        """got: result of the typed form (or the exception), exp: float64 result"""
        what = f"{api}({variant}) with {form}, {shape_name}"
        if isinstance(got, Exception):
            if (isinstance(got, TypeError) and api == "contains_point" and variant == "coords=cell"
                    and form == "python list of ints"):
                # loud refusal (decision of the lead): cell->cell is the identity, so a python list reaches the
                # comparison unconverted; arrays and lists in the other coordinate systems are accepted
                col.refs.add('contains_point(<python list>, coords="cell"): TypeError (list compared with int)')
                col.outs.add("typed:python list refused by contains_point(coords=cell)")
                return
            col.check("typed", api, f"{fam}|raises {type(got).__name__} ({form})", True,
                      lambda i: (f"{what}: input {inputs(0)} raises {type(got).__name__}: {str(got)[:200]}",
                                 {"form": form}), rc)
            return
        got = np.asarray(got)
        if got.shape != exp.shape:
            col.check("typed", api, f"{fam}|result has another shape than for float64 points", True,
                      lambda i: (f"{what}: shape {got.shape}, float64 points give {exp.shape}", {"form": form}), rc)
            return
        if exp.dtype == bool:
            bad = got != exp
            if tol is not None:  # float32 form: mask of undecided points
                bad = bad & ~tol
        else:
            bad = np.abs(got.astype(float) - exp) > tol
            if fam.startswith("float32") and np.any(np.abs(got.astype(float) - exp) > tol * (EPS / EPS32)):
                col.outs.add("typed:float32 result carries float32 round-off (allowed)")
        if bad.ndim == 0:
            bad = bad.reshape(1)
        col.check(
            "typed", api, f"{fam}|differs from the result for the same points as float64", bad,
            lambda i: (f"{what}: input {inputs(i)} -> {_f(got.reshape(bad.shape[0], -1)[i])}, "
                       f"float64 points give {_f(exp.reshape(bad.shape[0], -1)[i])}", {"form": form}),
            rc,
        )

    def safe(f, *args):
        try:
            return f(*args)
        except Exception as e:  # noqa: BLE001
            return e

    # ---- APIs taking one point array ----
    for api, variant, src, out_kind, f in unary:
        if only is not None and (only["api"], only["variant"]) != (api, variant):
            continue
        P = np.array(only["points"], dtype=float) if only is not None else pts[src]
        n = len(P)
        exp_single = np.array([np.asarray(f(P[i].copy())) for i in range(n)])
        exp_batch = np.asarray(f(P.copy()))
        P3 = np.stack([P, P[::-1]])
        exp_b3 = np.asarray(f(P3.copy()))
        if exp_single.dtype != bool:
            exp_single, exp_batch, exp_b3 = (np.asarray(a, dtype=float) for a in (exp_single, exp_batch, exp_b3))

        def rc(i, api=api, variant=variant, P=P):
            return [
                {"grid": R.cfg, "family": "typed", "api": api, "variant": variant, "points": [P[i].tolist()]},
                {"grid": R.cfg, "family": "typed", "api": api, "variant": variant, "points": P.tolist()},
            ]

        for fam, form, conv, eps in TYPED_FORMS:
            if out_kind == "bool":
                t1 = face_skip(P, src, eps) if eps == EPS32 else None
            else:
                t1 = tol_for(P, src, exp_single, out_kind, eps)
            got = [safe(f, conv(P[i])) for i in range(n)]
            errs = [i for i, g_ in enumerate(got) if isinstance(g_, Exception)]
            if errs:
                i0 = errs[0]
                compare(api, variant, fam, form, "single point", got[i0], None, None,
                        lambda i, i0=i0: repr(conv(P[i0])), lambda i, i0=i0: rc(i0))
            else:
                compare(api, variant, fam, form, "single points", np.array([np.asarray(g_) for g_ in got]), exp_single, t1,
                        lambda i: repr(conv(P[i])), rc)
            compare(api, variant, fam, form, "batch (n,d)", safe(f, conv(P)), exp_batch, t1,
                    lambda i: repr(conv(P[i])), rc)
            if out_kind == "bool":
                t3 = face_skip(P3, src, eps) if eps == EPS32 else None
            else:
                t3 = tol_for(P3, src, exp_b3, out_kind, eps)
            compare(api, variant, fam, form, "batch (m,n,d)", safe(f, conv(P3)), exp_b3, t3,
                    lambda i: repr(conv(P3[i])), lambda i: rc(0)[1:])
            col.outs.add(f"typed:{form}")
    # ---- APIs taking two point arrays: all ordered pairs of the first points of each axis ----
    for api, variant, src, out_kind, f in binary:
        if only is not None and (only["api"], only["variant"]) != (api, variant):
            continue
        if only is not None:
            P1, P2 = np.array(only["points"], dtype=float), np.array(only["points2"], dtype=float)
        else:
            base = pts[src]
            keep = np.ones(len(base), dtype=bool)
            for c in range(base.shape[1]):  # at most the first 4 values of every coordinate
                keep &= np.isin(base[:, c], _dedupe(base[:, c])[:4])
            base = base[keep]
            m = len(base)
            P1, P2 = np.repeat(base, m, axis=0), np.tile(base, (m, 1))
        n = len(P1)
        exp_batch = np.asarray(f(P1.copy(), P2.copy()), dtype=float)
        nsingle = n if only is not None else min(n, 64)
        rows = np.unique(np.linspace(0, n - 1, nsingle).astype(int))  # fixed, evenly spread subset of single calls
        exp_single = np.array([np.asarray(f(P1[i].copy(), P2[i].copy()), dtype=float) for i in rows])
        mag = phys(P1, src) + phys(P2, src)

        def rc(i, api=api, variant=variant, P1=P1, P2=P2):
            return [
                {"grid": R.cfg, "family": "typed", "api": api, "variant": variant,
                 "points": [P1[i].tolist()], "points2": [P2[i].tolist()]},
                {"grid": R.cfg, "family": "typed", "api": api, "variant": variant},
            ]

        for fam, form, conv, eps in TYPED_FORMS:
            tb = tol_for(mag, None, exp_batch, out_kind, eps)
            compare(api, variant, fam, form, "batch (n,d)", safe(f, conv(P1), conv(P2)), exp_batch, tb,
                    lambda i: f"{conv(P1[i])!r}, {conv(P2[i])!r}", rc)
            got = [safe(f, conv(P1[i]), conv(P2[i])) for i in rows]
            errs = [j for j, g_ in enumerate(got) if isinstance(g_, Exception)]
            if errs:
                j0 = errs[0]
                compare(api, variant, fam, form, "single points", got[j0], None, None,
                        lambda i, j0=j0: f"{conv(P1[rows[j0]])!r}, {conv(P2[rows[j0]])!r}",
                        lambda i, j0=j0: rc(int(rows[j0])))
            else:
                ts = tol_for(mag[rows], None, exp_single, out_kind, eps)
                compare(api, variant, fam, form, "single points", np.array([np.asarray(g_) for g_ in got]), exp_single, ts,
                        lambda i: f"{conv(P1[rows[i]])!r}, {conv(P2[rows[i]])!r}", lambda i: rc(int(rows[i])))
            # one typed, one float64 argument
            compare(api, variant, fam, form, "batch (n,d), second point float64", safe(f, conv(P1), P2.copy()), exp_batch, tb,
                    lambda i: f"{conv(P1[i])!r}, {P2[i]!r}", rc)


# ----------------------------------------------------------------------------------------------
# workers
# ----------------------------------------------------------------------------------------------


def angles(seed):
    """generic angles of the symmetric axes for the Cartesian representation of points"""
    rnd = random.Random(1000 + int(seed))
    a1 = (0.4 + 0.9 * rnd.random(), 0.3 + 2.5 * rnd.random())  # polar/cyl use [0]; spherical (theta, phi)
    a2 = (1.7 + 0.9 * rnd.random(), 3.4 + 2.5 * rnd.random())
    return a1, a2


def _run_family(G, R, col, case):
    fam = case["family"]
    seed = int(case.get("seed", 0))
    a1, a2 = angles(seed)
    if fam == "static":
        fam_static(G, R, col, seed)
    elif fam == "points":
        cells = np.array(case["cells"], dtype=float) if "cells" in case else lattice(R.shape)
        fam_points(G, R, col, cells, tuple(case.get("ang", a1)))
    elif fam == "random":
        fam_random(G, R, col, only=case if "draws" in case else None)
    elif fam == "pairs":
        if "c1" in case:
            c1, c2, rows = np.array(case["c1"], dtype=float), np.array(case["c2"], dtype=float), None
            rows = range(len(c1))
        else:
            c1, c2, rows = pair_lattice(R, int(case.get("pair_size", 7)))
        fam_pairs(G, R, col, c1, c2, tuple(case.get("ang1", a1)), tuple(case.get("ang2", a2)), rows)
    elif fam == "typed":
        fam_typed(G, R, col, only=case if "api" in case else None)
    else:
        raise ValueError(fam)


def replay_one(case):
    """re-execute one clause family of one grid, restricted to the recorded point(s)"""
    R = Ref(case["grid"])
    G = build(case["grid"])
    col = Col(R)
    _run_family(G, R, col, case)
    return {"v": [{"sig": v["sig"], "msg": v["msg"], "detail": v["detail"]} for v in col.viol.values()], "n": col.n}


def grid_worker(case):
    """all clause families on one grid configuration"""
    cfg, seed = case["grid"], int(case.get("seed", 0))
    R = Ref(cfg)
    G = build(cfg)
    col = Col(R)
    for fam in ("static", "points", "random", "pairs", "typed"):
        _run_family(G, R, col, {"grid": cfg, "family": fam, "seed": seed, "pair_size": case.get("pair_size", 7)})
    viol = []
    for v in col.viol.values():
        chosen = None
        for cand in v.pop("candidates"):
            cand = dict(cand, seed=seed, pair_size=case.get("pair_size", 7))
            try:
                again = replay_one(cand)
            except Exception:  # noqa: BLE001
                continue
            if any(w["sig"] == v["sig"] for w in again["v"]):
                chosen = cand
                break
        if chosen is None:  # not reproducible in isolation: replay the whole grid
            v["detail"]["replay_not_minimised"] = True
            v["fn"], v["case"] = "checks.c12:grid_worker", case
        else:
            v["fn"], v["case"] = FN, chosen
        viol.append(v)
    return {
        "v": viol,
        "n": col.n,
        "keys": [f"{R.key}|{fam}" for fam in sorted(col.fams)],
        "outs": sorted(col.outs),
        "ref": sorted(col.refs),
        "info": {"counts": dict(col.info), "examples": col.examples},
    }


# ----------------------------------------------------------------------------------------------
# enumeration of the grid configurations
# ----------------------------------------------------------------------------------------------


def enumerate_grids(tier, seed):
    quick = tier == "quick"
    s = int(seed)
    n1 = [1, 2, 3, 4, 7] if quick else [1, 2, 3, 4, 5, 6, 7, 8, 9, 12, 16]
    s2 = (
        [(1, 1), (1, 3), (3, 1), (2, 3), (4, 2)]
        if quick
        else [(a, b) for a in (1, 2, 3, 4, 5) for b in (1, 2, 3, 4, 5)] + [(7, 2), (2, 7)]
    )
    s3 = [(1, 1, 1), (2, 1, 3), (1, 3, 2), (3, 2, 1), (2, 2, 2)] if quick else [
        (1, 1, 1), (2, 1, 3), (1, 3, 2), (3, 2, 1), (2, 2, 2), (4, 3, 2), (1, 1, 5), (2, 4, 1)]
    kinds = KIND_NAMES
    # 3d bounds: covering design (every kind on every axis), rotated by the seed; thorough adds the
    # complete product for the two smallest shapes
    nk = len(kinds)
    rot = [tuple(kinds[(i + j * (1 + s % 4)) % nk] for j in range(3)) for i in range(nk)]
    out = {c: [] for c in ("CartesianGrid", "CylindricalSymGrid", "UnitGrid", "PolarSymGrid", "SphericalSymGrid")}

    def flags(d):
        return [list(p) for p in itertools.product([False, True], repeat=d)]

    for n in n1:
        for per in flags(1):
            out["UnitGrid"].append({"cls": "UnitGrid", "shape": [n], "periodic": per})
            for k in kinds:
                out["CartesianGrid"].append(
                    {"cls": "CartesianGrid", "bounds": [list(BOUND_KINDS[k])], "shape": [n], "periodic": per}
                )
    for sh in s2:
        for per in flags(2):
            out["UnitGrid"].append({"cls": "UnitGrid", "shape": list(sh), "periodic": per})
            for k in itertools.product(kinds, repeat=2):
                out["CartesianGrid"].append(
                    {"cls": "CartesianGrid", "bounds": [list(BOUND_KINDS[x]) for x in k], "shape": list(sh), "periodic": per}
                )
    for j, sh in enumerate(s3):
        triples = rot
        if not quick and j < 2:  # complete product of the first five kinds + covering design with (0, 4.5)
            triples = list(itertools.product(kinds[:5], repeat=3)) + [t for t in rot if "halfint" in t]
        for per in flags(3):
            out["UnitGrid"].append({"cls": "UnitGrid", "shape": list(sh), "periodic": per})
            for k in triples:
                out["CartesianGrid"].append(
                    {"cls": "CartesianGrid", "bounds": [list(BOUND_KINDS[x]) for x in k], "shape": list(sh), "periodic": per}
                )
    widths = [1.0, 2.3] if quick else [1.0, 2.3, 0.01]
    radii = [
        [ri * sc, (ri + w) * sc] for ri in (0.0, 0.5, 1.0) for w in widths for sc in (1.0, 1e-3, 1e6)
    ]
    for cls in ("PolarSymGrid", "SphericalSymGrid"):
        for n in ([1, 2, 3, 5, 8] if quick else n1):
            for rad in radii:
                out[cls].append({"cls": cls, "radius": rad, "shape": n})
    radii_c = [[ri * sc, (ri + w) * sc] for ri in (0.0, 0.5, 1.0) for w in ([1.0] if quick else [1.0, 2.3]) for sc in (1.0, 1e-3, 1e6)]
    for sh in s2:
        for rad in radii_c:
            for k in kinds:
                for pz in (False, True):
                    out["CylindricalSymGrid"].append(
                        {"cls": "CylindricalSymGrid", "radius": rad, "bounds_z": list(BOUND_KINDS[k]),
                         "shape": list(sh), "periodic_z": pz}
                    )
    return out


def main(run):
    grids = enumerate_grids(run.tier, run.seed)
    totals = collections.Counter()
    examples = {}
    only = getattr(run, "only", None)
    for cls, cfgs in grids.items():
        if only and cls not in only:
            continue
        # heavy (many axes, many cells) first: better packing of the pool; evaluation order is irrelevant
        cfgs = sorted(cfgs, key=lambda c: -float(np.prod([len(axis_lattice(n)) for n in np.atleast_1d(c["shape"])])))
        cases = [
            {"grid": cfg, "seed": run.seed,
             "pair_size": 6 if (run.tier == "quick" and len(np.atleast_1d(cfg["shape"])) == 3) else 7}
            for cfg in cfgs
        ]
        res = run.explore("checks.c12:grid_worker", cases, mode="I", part=cls, chunksize=1, limit=900, collect=True)
        for _, r in res:
            info = r.get("info") or {}
            totals.update(info.get("counts", {}))
            for k, v in info.get("examples", {}).items():
                examples.setdefault(k, v)
    run.notes["oracle_evaluations_by_family"] = {k[2:]: v for k, v in sorted(totals.items()) if k.startswith("n:")}
    run.notes["failing_inputs_by_clause"] = {k[5:]: v for k, v in sorted(totals.items()) if k.startswith("fail:")}
    run.notes["doubtful_not_violations"] = {
        k[9:]: {"count": v, "first_example": examples.get(k)} for k, v in sorted(totals.items()) if k.startswith("doubtful:")
    }
    run.notes["grid_configurations"] = {k: len(v) for k, v in grids.items()}
    run.notes["point_lattice_per_axis"] = "cell coordinates {0.5, N-0.5, 0, N, 0.3, N/2, +-1e-9, N+-1e-9, -0.7, N+1.2, -3.7N, 4.3N}, all combinations across axes"
    run.notes["pair_lattice_per_axis"] = "{0.3, N-0.1, N/2+0.3, N+1.2, 0.1, N/2, -0.7} (without -0.7 for 3-d grids in the quick tier), all ordered pairs of all combinations across axes"
    run.notes["random_draws"] = [repr(v) for v in DRAWS]
    run.notes["typed_points"] = (
        "integer-valued points of every coordinate system (cell: {0,N,1,-1,N+2,-2N,3N+1}; grid/cartesian: whole numbers "
        "inside, next to and several periods outside the bounds; all combinations across axes) are given to transform (6 "
        "directions), contains_point (3 coords), normalize_point (reflect on/off), difference_vector and distance (3 coords, "
        "all ordered pairs of the first 4 values per coordinate) as python lists of ints, np.int64 arrays and np.float32 "
        "arrays - single points, batches (n,d) and (m,n,d) - and must reproduce the float64 result (int forms: float64 "
        "tolerance; float32: the same expression with 2**-23); the bounds kind (0, 4.5) gives a non-integer period"
    )
    run.notes["tolerances"] = (
        f"{K:g} roundings (2**-52) at operand scale for coordinates, {KV:g} at the scale of the full ball of the upper "
        "face radius for volumes/integrals, 1e-12 relative for idempotence, contains_point undecided within 0.5e-9 cells of a face"
    )
    run.assumptions += [
        "NUMBA_DISABLE_JIT=1: the grid geometry code contains no compiled code",
        "VERIF_SEED only selects the field contents of the projection test, the angles used to place points of "
        "symmetric grids in Cartesian space and the rotation of the covering design of 3-d bounds",
        "get_random_point: numpy's Generator is replaced by a subclass whose random()/uniform() return every "
        "combination of the draws {0, 2**-53, 0.5, 1-2**-53}; generated points that lie within 0.5e-9 cells of a face "
        "are only required to be inside to round-off (contains_point is not decided there; counted as doubtful)",
        "a formally negative radius (cell coordinate < 0 on a radial axis) denotes the point at |r| (symmetry projection)",
        "difference vectors of points given in grid/cell coordinates of symmetric grids are compared by length in the "
        "symmetric plane (which ray represents the point is a convention) and component-wise otherwise",
    ]
    return (
        "one case = one grid configuration of the complete product class x shape x bounds{unit,negative,1e-3,1e6,asymmetric,(0,4.5)} "
        "x inner radius{0,0.5,1} x scale x periodicity flags (3-d bounds: covering design, complete product in thorough for two "
        "shapes); per grid every point of the full lattice (all combinations across axes) and every ordered pair of the pair "
        "lattice is executed as single points and as batches (n,d), (m,n,d); evaluations = individual oracle comparisons; "
        "distinct = (grid configuration, clause family) for which the oracle compared at least one value"
    )
