"""C11 helpers that never touch sympy / pde / numpy: the expression grammar (enumerated completely)
and the oracle (Python ``eval`` of the written text over numbers that carry a running rounding-error
bound and forward-mode partial derivatives).

Semantics of the written formula = Python semantics of the same text: only ``+ - * / **`` (true
division, ``**`` right-associative and binding tighter than unary minus), function calls and
indexing occur in the grammar; ``^`` and ``//`` never do; every infix or negated child is
parenthesised by the generator, so no precedence question is left to the oracle.
"""

from __future__ import annotations

import math

U = 2.0**-53  # unit round-off
BIG = 1e8  # a sub-expression beyond this magnitude makes the point 'not well-conditioned'
NEAR = 1e-3  # distance to a singularity / branch point / jump below which a point is skipped
NV = 4  # partial derivatives carried: a, b, arr[0], arr[1]
ZERO = (0.0,) * NV

K_VALUE = 1.25  # scalar constant `k`
V_VALUE = (0.75, -2.5)  # array constant `v`
H0 = 0.5  # value of heaviside(0): sympy's Heaviside(x) carries H0=1/2, py-pde prints it as
#           `Heaviside(x, 1/2)` and maps the name to numpy.heaviside(x, 0.5)


def user_f(x, y):
    """the user function `f` (asymmetric, polynomial: works on floats, arrays, oracle numbers, numba)"""
    return x - 2.0 * y + 0.5 * x * y


class Ill(Exception):
    """the point is not well-conditioned for this expression (skipped and counted)"""


class _Ctx:
    nodiff = None  # reason why derivatives are undefined/ill-conditioned at this point (value is fine)


CTX = _Ctx()


def _chk(v):
    if v != v or abs(v) > BIG:
        raise Ill("sub-expression exceeds 1e8")
    return v


class X:
    """value v, bound e on its accumulated rounding error, partials d and bounds de on their errors"""

    __slots__ = ("v", "e", "d", "de")

    def __init__(self, v, e=0.0, d=ZERO, de=ZERO):
        self.v, self.e, self.d, self.de = _chk(float(v)), e, d, de

    # -- arithmetic -------------------------------------------------------------------------
    def __neg__(self):
        return X(-self.v, self.e, tuple(-x for x in self.d), self.de)

    def __pos__(self):
        return self

    def __abs__(self):
        return _abs(self)

    def __add__(self, o):
        o = lift(o)
        v = self.v + o.v
        d = tuple(x + y for x, y in zip(self.d, o.d))
        return X(v, self.e + o.e + U * abs(v), d, tuple(x + y + U * abs(z) for x, y, z in zip(self.de, o.de, d)))

    __radd__ = __add__

    def __sub__(self, o):
        return self + (-lift(o))

    def __rsub__(self, o):
        return lift(o) + (-self)

    def __mul__(self, o):
        o = lift(o)
        v = self.v * o.v
        e = abs(o.v) * self.e + abs(self.v) * o.e + U * abs(v)
        d, de = [], []
        for xd, xde, yd, yde in zip(self.d, self.de, o.d, o.de):
            t1, t2 = self.v * yd, o.v * xd
            d.append(t1 + t2)
            de.append(self.e * abs(yd) + abs(self.v) * yde + o.e * abs(xd) + abs(o.v) * xde + 2 * U * (abs(t1) + abs(t2)))
        return X(v, e, tuple(d), tuple(de))

    __rmul__ = __mul__

    def __truediv__(self, o):
        return self * _recip(lift(o))

    def __rtruediv__(self, o):
        return lift(o) * _recip(self)

    def __pow__(self, o):
        return _pow(self, o)

    def __rpow__(self, o):
        return _pow(o, self)


def lift(x):
    if isinstance(x, X):
        return x
    if isinstance(x, (int, float)):
        return X(x)
    raise TypeError(f"oracle cannot handle {type(x).__name__}")


def _fun(x, f, f1, f2, g_abs=0.0):
    """elementary function with first and second derivative; the library value is good to ~1 ulp.
    g_abs: absolute uncertainty of f' in its customary closed forms (tanh' = 1 - tanh^2 cancels)"""
    x = lift(x)
    try:
        v, g, h = f(x.v), f1(x.v), f2(x.v)
    except OverflowError:
        raise Ill("sub-expression exceeds 1e8") from None
    if abs(g) > 1e12 or abs(h) > 1e16:
        raise Ill("derivative of a sub-expression exceeds 1e12")
    e = abs(g) * x.e + 2 * U * abs(v)
    d = tuple(g * xd for xd in x.d)
    de = tuple(abs(h) * x.e * abs(xd) + abs(g) * xde + (3 * U * abs(g) + g_abs) * abs(xd) for xd, xde in zip(x.d, x.de))
    return X(v, e, d, de)


def _recip(x):
    if abs(x.v) < NEAR:
        raise Ill("division by a value within 1e-3 of 0")
    return _fun(x, lambda t: 1.0 / t, lambda t: -1.0 / t**2, lambda t: 2.0 / t**3)


def _abs(x):
    x = lift(x)
    if abs(x.v) < NEAR:
        CTX.nodiff = "abs within 1e-3 of its kink"
    s = 1.0 if x.v > 0 else (-1.0 if x.v < 0 else 0.0)
    return X(abs(x.v), x.e, tuple(s * t for t in x.d), x.de)


def _ipow(x, n):
    if n == 0:
        return X(1.0)
    if n == 1:
        return x
    if n < 0 and abs(x.v) < NEAR:
        raise Ill("negative power of a value within 1e-3 of 0")
    return _fun(x, lambda t: t**n, lambda t: n * t ** (n - 1), lambda t: n * (n - 1) * t ** (n - 2))


def _pow(x, y):
    if not isinstance(y, X):
        y = float(y)
        if not isinstance(x, X):
            return X(x**y)
        if y.is_integer():
            return _ipow(x, int(y))
        if x.v < NEAR:
            raise Ill("fractional power of a base that is not > 1e-3")
        return _fun(x, lambda t: t**y, lambda t: y * t ** (y - 1), lambda t: y * (y - 1) * t ** (y - 2))
    # general power with a variable exponent: positive base only
    if isinstance(x, X):
        if x.v < NEAR:
            raise Ill("variable power of a base that is not > 1e-3")
        return _exp(y * _log(x))
    if x < NEAR:
        raise Ill("variable power of a base that is not > 1e-3")
    lg = X(math.log(x), U * abs(math.log(x)) if x not in (1, 1.0) else 0.0)
    return _exp(y * lg)


def _exp(x):
    return _fun(x, math.exp, math.exp, math.exp)


def _log(x):
    x = lift(x)
    if x.v < NEAR:
        raise Ill("log of a value that is not > 1e-3")
    return _fun(x, math.log, lambda t: 1 / t, lambda t: -1 / t**2)


def _sqrt(x):
    x = lift(x)
    if x.v < NEAR:
        raise Ill("sqrt of a value that is not > 1e-3")
    return _fun(x, math.sqrt, lambda t: 0.5 / math.sqrt(t), lambda t: -0.25 / t**1.5)


def _tan(x):
    x = lift(x)
    if abs(math.cos(x.v)) < NEAR:
        raise Ill("tan within 1e-3 of a pole")
    return _fun(x, math.tan, lambda t: 1 + math.tan(t) ** 2, lambda t: 2 * math.tan(t) * (1 + math.tan(t) ** 2))


_C_ERF = 2.0 / math.sqrt(math.pi)


def _sech2(t):
    """1/cosh(t)^2 without cancellation (1 - tanh^2) or overflow (cosh)"""
    q = math.exp(-2.0 * abs(t))
    return 4.0 * q / (1.0 + q) ** 2


def _heaviside(x, h0=H0):
    x = lift(x)
    if x.v == 0.0:
        if x.e > 0.0:
            raise Ill("heaviside of an inexactly computed zero")
        CTX.nodiff = "heaviside at its jump"
        return X(float(h0))
    if abs(x.v) < NEAR:
        raise Ill("heaviside within 1e-3 of its jump")
    if abs(x.v) < 1e6 * x.e:
        raise Ill("heaviside of a value that is not resolved from 0")
    return X(1.0 if x.v > 0 else 0.0)


def _hypot(x, y):
    x, y = lift(x), lift(y)
    h = math.hypot(x.v, y.v)
    if h < NEAR:
        # value is fine (hypot(0, 0) = 0 exactly when both are exact), the gradient is not defined
        CTX.nodiff = "hypot within 1e-3 of the origin"
        if x.e > 0 or y.e > 0:
            raise Ill("hypot of inexact values near the origin")
        return X(h)
    return _sqrt(x * x + y * y)


FUNCS = {
    "sin": lambda x: _fun(x, math.sin, math.cos, lambda t: -math.sin(t)),
    "cos": lambda x: _fun(x, math.cos, lambda t: -math.sin(t), lambda t: -math.cos(t)),
    "tan": _tan,
    "exp": _exp,
    "log": _log,
    "sqrt": _sqrt,
    "abs": _abs,
    "tanh": lambda x: _fun(x, math.tanh, _sech2, lambda t: -2 * math.tanh(t) * _sech2(t), g_abs=4 * U),
    "sinh": lambda x: _fun(x, math.sinh, math.cosh, math.sinh),
    "cosh": lambda x: _fun(x, math.cosh, math.sinh, math.cosh),
    "atan": lambda x: _fun(x, math.atan, lambda t: 1 / (1 + t * t), lambda t: -2 * t / (1 + t * t) ** 2),
    "erf": lambda x: _fun(x, math.erf, lambda t: _C_ERF * math.exp(-t * t), lambda t: -2 * t * _C_ERF * math.exp(-t * t)),
    "heaviside": _heaviside,
    "Heaviside": _heaviside,
    "hypot": _hypot,
    "f": user_f,
}

VAR_INDEX = {"a": 0, "b": 1, "arr[0]": 2, "arr[1]": 3}


def _unit(i):
    return tuple(1.0 if j == i else 0.0 for j in range(NV))


class Oracle:
    """compiled text + evaluation at points.  ``names`` maps the names used in the text for the two
    scalar variables to the slots a/b (aliases), e.g. {"alpha": "a", "b": "b"}."""

    def __init__(self, text, names=None, extra=None):
        self.text = text
        self.code = compile(text, "<c11>", "eval")
        self.names = names or {"a": "a", "b": "b"}
        self.has_v = "v" in self.code.co_names
        self.extra = extra or {}

    def _eval1(self, pt, vel):
        ns = dict(FUNCS)
        ns["__builtins__"] = {}
        ns["pi"] = X(math.pi, U * math.pi)
        ns["k"] = X(K_VALUE)
        ns["v"] = X(vel)
        for name, slot in self.names.items():
            ns[name] = X(pt[slot], 0.0, _unit(VAR_INDEX[slot]))
        if "arr" in pt:
            ns["arr"] = [X(pt["arr"][0], 0.0, _unit(2)), X(pt["arr"][1], 0.0, _unit(3))]
        for name, val in self.extra.items():
            ns[name] = val
        CTX.nodiff = None
        r = lift(eval(self.code, ns))  # noqa: S307 - the text is generated by this module
        return r, CTX.nodiff

    def at(self, pt):
        """returns None if ill-conditioned (reason in self.why) else dict(v, e, d, de, nodiff); for
        array-constant expressions each entry is a list over the elements of `v`"""
        try:
            res = [self._eval1(pt, vel) for vel in (V_VALUE if self.has_v else V_VALUE[:1])]
        except Ill as exc:
            self.why = str(exc)
            return None
        except (ZeroDivisionError, OverflowError, ValueError) as exc:
            self.why = f"oracle {type(exc).__name__}"
            return None
        nodiff = next((n for _, n in res if n), None)
        if self.has_v:
            return {
                "v": [r.v for r, _ in res],
                "e": [r.e for r, _ in res],
                "d": [[r.d[i] for r, _ in res] for i in range(NV)],
                "de": [[r.de[i] for r, _ in res] for i in range(NV)],
                "nodiff": nodiff,
            }
        r = res[0][0]
        return {"v": r.v, "e": r.e, "d": list(r.d), "de": list(r.de), "nodiff": nodiff}


# ----------------------------------------------------------------------------------------------
# grammar
# ----------------------------------------------------------------------------------------------

ATOMS = ["a", "b", "2", "0.5", "(-1.5)", "k", "v", "arr[0]", "arr[1]", "pi"]
ATOMS_R = ["a", "b", "0.5"]  # atom set of the inner level of depth-2 expressions (thorough)
ATOMS_V = ["a", "b"]  # atom set of the inner level (quick), of siblings and of the deep levels (thorough)

# name -> (template, kind): kind "call" never needs parentheses as a child, "infix" always gets them
UNARY = {
    "neg": ("-{0}", "infix"),
    "sin": ("sin({0})", "call"),
    "cos": ("cos({0})", "call"),
    "tan": ("tan({0})", "call"),
    "exp": ("exp({0})", "call"),
    "log1": ("log({0}**2+1)", "call"),
    "sqrt1": ("sqrt({0}**2+1)", "call"),
    "abs": ("abs({0})", "call"),
    "tanh": ("tanh({0})", "call"),
    "sinh": ("sinh({0})", "call"),
    "cosh": ("cosh({0})", "call"),
    "atan": ("atan({0})", "call"),
    "erf": ("erf({0})", "call"),
    "heaviside": ("heaviside({0})", "call"),
    "Heaviside": ("Heaviside({0})", "call"),
    "heaviside2": ("heaviside({0},0.25)", "call"),
    "pow2": ("{0}**2", "infix"),
    "pow3": ("{0}**3", "infix"),
    "powm1": ("{0}**(-1)", "infix"),
    "powf": ("({0}**2+1)**0.75", "infix"),
}
BINARY = {
    "add": ("{0}+{1}", "infix", True),
    "sub": ("{0}-{1}", "infix", False),
    "mul": ("{0}*{1}", "infix", True),
    "div": ("{0}/({1}**2+1)", "infix", False),
    "pow": ("({0}**2+1)**{1}", "infix", False),
    "hypot": ("hypot({0},{1})", "call", True),
    "Hdiff": ("Heaviside({0}-{1})", "call", False),
    "userf": ("f({0},{1})", "call", False),
}
# positions whose child may stand without parentheses even if it is infix (pure argument slots)
_ARG_SLOT = {"sin", "cos", "tan", "exp", "abs", "tanh", "sinh", "cosh", "atan", "erf", "heaviside", "Heaviside",
             "heaviside2", "hypot", "userf"}


def is_atom(t):
    return isinstance(t, str)


def text(t, ren=None):
    """the written formula of tree t = atom | [op, child, ...]; ren renames atoms"""
    if is_atom(t):
        return (ren or {}).get(t, t)
    op = t[0]
    tpl = (UNARY.get(op) or BINARY.get(op))[0]
    parts = []
    for c in t[1:]:
        s = text(c, ren)
        infix = (not is_atom(c)) and (UNARY.get(c[0]) or BINARY.get(c[0]))[1] == "infix"
        if infix and op not in _ARG_SLOT:
            s = f"({s})"
        parts.append(s)
    return tpl.format(*parts)


def _sk(t, depth):
    if is_atom(t) or depth == 0:
        return "·"
    op = t[0]
    tpl = (UNARY.get(op) or BINARY.get(op))[0]
    parts = []
    for c in t[1:]:
        s = _sk(c, depth - 1)
        if s != "·" and (UNARY.get(c[0]) or BINARY.get(c[0]))[1] == "infix" and op not in _ARG_SLOT:
            s = f"({s})"
        parts.append(s)
    return tpl.format(*parts)


def shape(t):
    """shape class: the outer operator and the operators of its children, everything below is `·`"""
    return _sk(t, 2)


def depth(t):
    return 0 if is_atom(t) else 1 + max(depth(c) for c in t[1:])


def level1(atoms):
    out = [[u, x] for u in UNARY for x in atoms]
    for o, (_, _, comm) in BINARY.items():
        for i, x in enumerate(atoms):
            for j, y in enumerate(atoms):
                if comm and j < i:
                    continue  # commutative twin
                out.append([o, x, y])
    return out


def wrap(inner, siblings, both_sides=True):
    """all one-level extensions of the trees `inner`: u(e), o(e, s), o(s, e) for s in siblings"""
    out = []
    for e in inner:
        for u in UNARY:
            out.append([u, e])
        for o, (_, _, comm) in BINARY.items():
            for s in siblings:
                out.append([o, e, s])
                if not comm and both_sides:
                    out.append([o, s, e])
    return out


def enumerate_trees(tier):
    """the complete, deterministic, simplest-first enumeration of the tier's grammar"""
    trees = list(ATOMS) + level1(ATOMS)
    trees += wrap(level1(ATOMS_R if tier == "thorough" else ATOMS_V), ATOMS_V)
    if tier == "thorough":
        l1v = level1(ATOMS_V)
        # both children non-atomic
        for o, (_, _, comm) in BINARY.items():
            for i, x in enumerate(l1v):
                for j, y in enumerate(l1v):
                    if comm and j < i:
                        continue
                    trees.append([o, x, y])
        # depth 3: every operator triple, nested child in either position, innermost over (a) / (a, b),
        # siblings b
        l1c = [[u, "a"] for u in UNARY] + [[o, "a", "b"] for o in BINARY]
        l2c = wrap(l1c, ["b"])
        trees += wrap(l2c, ["b"])
    seen, out = set(), []
    for t in trees:
        s = text(t)
        if s not in seen:
            seen.add(s)
            out.append(t)
    return out


def atoms_of(t, acc=None):
    acc = set() if acc is None else acc
    if is_atom(t):
        acc.add(t)
    else:
        for c in t[1:]:
            atoms_of(c, acc)
    return acc


def ops_of(t, acc=None):
    acc = set() if acc is None else acc
    if not is_atom(t):
        acc.add(t[0])
        for c in t[1:]:
            ops_of(c, acc)
    return acc
