"""C11 - compiling an expression preserves its meaning.

The quantifier over *programs* is enumerated exhaustively: every expression of a depth-bounded grammar
(see ``_c11_oracle.enumerate_trees``) is pushed through every route py-pde offers for turning text
into numbers (``ScalarExpression.__call__``, ``get_function("numpy"|"numba")``, ``single_arg``, array
arguments with broadcasting, ``differentiate`` / ``derivatives``, tensor expressions, field
constructors on Cartesian / polar / cylindrical / spherical grids, signature aliases, coordinate
aliases, ``explicit_symbols``, ``evaluate``, ``parse_number``) and compared with an oracle that never
touches sympy: Python ``eval`` of the *same text* over numbers carrying a running rounding-error
bound and forward-mode partial derivatives.  See DESIGN.md, C11.

Convention stated: ``heaviside(0) = Heaviside(0) = 1/2`` (sympy's ``Heaviside(x)`` has H0 = 1/2, the
printers emit ``Heaviside(x, 1/2)`` and py-pde maps that name to ``numpy.heaviside``);
``heaviside(x, h)`` has the value h at 0.
"""

from __future__ import annotations

import collections
import random
import re

from checks import _c11_oracle as O
from checks._grids import geometry, grid_name, make_grid

PROPERTY = "C11"
LEVEL = "exploration"

RTOL = 1e-9  # relative tolerance (the statement's 'value of the written formula')
EFAC = 1e3  # times the running rounding-error bound of the written formula (covers re-arrangements)
FLOOR = 1e-290  # magnitudes below are 0 (underflow is ignored like in the test-suite)
CLAUSE_V = "value differs from the written formula"
CLAUSE_D = "derivative differs from the derivative of the written formula"
CLAUSE_O = "generated code overflows where the written formula is finite (nan/inf or OverflowError instead of the value)"
FN = "checks.c11:"

SPECIAL_POINTS = [
    {"name": "zero-a", "a": 0.0, "b": -1.25, "arr": [0.0, 0.5]},
    {"name": "zero-b", "a": 1.5, "b": 0.0, "arr": [0.75, 0.0]},
    {"name": "negative", "a": -0.75, "b": -2.5, "arr": [-1.25, -0.5]},
    {"name": "large", "a": 1000.0, "b": -37.5, "arr": [250.0, 3.0]},
]


def make_points(seed):
    """3 generic points (derived from VERIF_SEED) + the fixed special points"""
    rng = random.Random(f"C11-{seed}")

    def g():
        x = round(rng.uniform(0.3, 2.2), 3)
        return x if rng.random() < 0.5 else -x

    pts = [{"name": f"generic{i}", "a": g(), "b": g(), "arr": [g(), g()]} for i in range(3)]
    return pts + [dict(p) for p in SPECIAL_POINTS]


def _has(text, fname):
    return re.search(r"(?<![A-Za-z_])" + re.escape(fname) + r"\(", text) is not None


OPAQUE = ("hypot", "f", "abs", "heaviside", "Heaviside")


def refusal(route, text, exc, jit):
    """loud refusals that are errors, not mistranslations (DESIGN.md C11); None = unexpected"""
    name, msg = type(exc).__name__, str(exc)
    if name == "RuntimeError" and "_Dummy_" in msg and "not defined in expression signature" in msg:
        # sympy 1.14: simplify(-sinh(a - 2*sinh(a))/2 + sinh(a + 2*sinh(a))/2) = I*sin(2*_Dummy*sinh(a))*cosh(a) leaks a Dummy
        # (reached through the second simplify of `derivatives`); py-pde then rejects the unknown symbol loudly
        return "sympy.simplify leaks a Dummy symbol (hyperbolic rewriting); rejected as undefined argument (RuntimeError)"
    if (name == "NameError" or (jit and name == "TypingError")) and ("'re'" in msg or "'im'" in msg) and _has(text, "abs"):
        # sympy symbols are complex by default: simplify turns Abs(exp(a)) into exp(re(a)); the generated
        # code calls `re`, which the numpy namespace does not have.  Loud (NameError at call time).
        return "abs(exp(x)) is simplified to exp(re(x)) and `re` is not defined in the generated code (NameError)"
    if jit and route.startswith(("numba", "tensor-numba", "array-fn")) and _has(text, "erf") and name == "TypingError":
        return "numba backend cannot type scipy.special.erf (TypingError)"
    if route.startswith(("diff", "derivatives", "tensor-diff", "tensor-derivatives")):
        if any(_has(text, o) for o in OPAQUE):
            if name == "PrintMethodNotImplementedError":
                return "derivative of an opaque function (hypot / user function / abs): PrintMethodNotImplementedError"
            if name == "NameError" and "DiracDelta" in msg:
                return "derivative of heaviside: DiracDelta is not defined (NameError)"
            if name == "ValueError" and "_print_Derivative" in msg:
                return "derivative of an opaque function: _print_Derivative ValueError"
            if name == "RecursionError" and route.startswith("diff:arr"):
                return "derivative of an opaque function with respect to an indexed variable: RecursionError in the printer"
        if name == "RuntimeError" and "indexed variables" in msg:
            return "gradient of an expression with indexed variables (RuntimeError)"
    if route.startswith("array-fn") and name == "NameError":
        return "_make_expression_array: name not in its numpy namespace (NameError)"
    if route.startswith("array-fn") and name == "TypeError" and "heaviside()" in msg and "eaviside(" in text:
        return "_make_expression_array: str(sympy) gives Heaviside(x) with one argument for numpy.heaviside (TypeError)"
    if jit and route.startswith("array-fn") and name == "TypingError":
        return "_make_expression_array: numba cannot type the generated code (TypingError)"
    if route.startswith("evaluate") and name == "NotImplementedError" and _has(text, "hypot"):
        return "evaluate(): hypot is taken for a grid operator (NotImplementedError)"
    if route == "parse_number" and name == "TypeError" and any(_has(text, o) for o in ("hypot", "f", "heaviside")):
        return "parse_number: function unknown to plain sympy (TypeError)"
    return None


def _strict(np, fn, args):
    """the symbolic derivative is evaluated with underflow raised as well: an intermediate that drops into the denormal
    range loses digits silently (e.g. d/db (sin(b)**2+1)**(-a) is printed as -2**(a+1)*a*(3-cos(2*b))**(-a-1)*sin(2*b);
    at a = 1000 the power is 9.66e-319 and the product is off by 1e-6) -> FloatingPointError -> point skipped, like overflow"""
    with np.errstate(under="raise"):
        return fn(*args)


def _deriv_fpe(route, exc):
    """the symbolic derivative is a different formula than the written one: its intermediates may overflow
    (e.g. cosh(a)**(-2) for 1 - tanh(a)**2 at a = 1000) where the written formula is well-conditioned; the
    harness runs numpy with seterr(all='raise'), so this surfaces as FloatingPointError -> point skipped"""
    return route.startswith(("diff", "derivatives", "tensor-diff", "tensor-derivatives")) and isinstance(
        exc, (FloatingPointError, OverflowError))


class Rec:
    """accumulator of one worker call"""

    def __init__(self, case):
        self.case = case
        self.viol, self.refs, self.keys = [], collections.Counter(), []
        self.outs = collections.Counter()
        self.n = self.compared = self.skipped = 0
        self.sigs = set()
        self.t_last, self.slow = None, (0.0, "")

    def bad(self, route, shape, clause, text, msg, replay, fn):
        sig = f"{route}|{shape}|{clause}"
        if sig in self.sigs:
            return
        self.sigs.add(sig)
        self.viol.append({"sig": sig, "msg": f"`{text}` route={route}: {msg}", "detail": replay, "case": replay, "fn": FN + fn})

    def result(self):
        # one defect fails many routes: report the first two failing routes per clause (value / derivative / overflow /
        # raises X), so that a (known) family of one clause cannot push a violation of another clause out of the report
        per_clause, viol = collections.Counter(), []
        for v in self.viol:
            clause = v["sig"].rsplit("|", 1)[-1]
            per_clause[clause] += 1
            if per_clause[clause] <= 2:
                viol.append(v)
        return {
            "v": viol,
            "n": self.n,
            "keys": self.keys,
            "nt": bool(self.keys),
            "outs": sorted(self.outs),
            "ref": sorted(self.refs.elements()),
            "info": {"compared": self.compared, "skipped": self.skipped, "refs": dict(self.refs), "slow": list(self.slow)},
        }


def _close(np, got, ref, err):
    """None if got equals ref within RTOL*|ref| + EFAC*err, else a description"""
    ref = np.asarray(ref, dtype=float)
    err = np.asarray(err, dtype=float)
    try:
        g = np.asarray(got)
        if g.dtype == object:
            g = np.asarray(got.tolist() if hasattr(got, "tolist") else got, dtype=float)
        if np.iscomplexobj(g):
            if np.any(np.abs(g.imag) > FLOOR):
                return f"complex result {g!r}"
            g = g.real
        g = np.broadcast_to(g.astype(float), ref.shape)
    except (ValueError, TypeError) as exc:
        return f"result of shape {getattr(np.asarray(got, dtype=object), 'shape', '?')} does not fit {ref.shape} ({exc})"
    mask = ~np.isnan(ref)
    tol = RTOL * np.abs(ref) + EFAC * err + FLOOR
    with np.errstate(all="ignore"):
        ok = np.abs(g - ref) <= tol
    ok = ok | ~mask
    if np.all(ok):
        return None
    idx = tuple(int(i) for i in np.argwhere(~ok)[0])
    return f"got {float(g[idx])!r} expected {float(ref[idx])!r} (tolerance {float(tol[idx]):.3g}) at index {idx}"


# ----------------------------------------------------------------------------------------------
# worker 1: scalar expressions of one shape class through all routes
# ----------------------------------------------------------------------------------------------

ROUTES_I = ["call", "numpy", "numpy-array", "numpy-bcast", "numpy-single", "numba", "numba-array", "numba-bcast",
            "numba-single", "diff", "derivatives"]


# measured CPU per deep expression: value routes 0.03 s, differentiate (2 variables) 0.13 s, derivatives 0.13-0.18 s (it
# simplifies twice); with `derivatives` the thorough tier would need ~22 min on 16 idle cores
ROUTES_DEEP = ["call", "numpy-array", "numba", "numba-array", "diff"]


def _args(np, pt, has_arr):
    return (pt["a"], pt["b"]) + ((np.array(pt["arr"], dtype=float),) if has_arr else ())


def expr_chunk(case):
    """case: {"shape", "exprs": [text...], "seed" | "pts": [point...], "routes": [...]}"""
    import numpy as np
    from mc import core
    from pde.tools.expressions import ScalarExpression

    jit = core.mode() == "J"
    rec = Rec(case)
    shape = case["shape"]
    pts = case.get("pts") or make_points(case.get("seed", 0))
    routes = [r.split(":")[0] for r in (case.get("routes") or ROUTES_I)]  # a replay names the sub-route, e.g. diff:b

    import time

    for text in case["exprs"]:
        if rec.t_last is not None:
            rec.slow = max(rec.slow, (time.process_time() - rec.t_last[0], rec.t_last[1]))
        rec.t_last = (time.process_time(), text)
        orc = O.Oracle(text)
        R = [orc.at(p) for p in pts]
        kept = [(p, r) for p, r in zip(pts, R) if r is not None]
        rec.skipped += len(pts) - len(kept)
        if not kept:
            rec.outs["no well-conditioned point"] += 1
            continue
        has_arr, has_v = "arr[" in text, orc.has_v
        consts = {}
        if _has_name(text, "k"):
            consts["k"] = O.K_VALUE
        if has_v:
            consts["v"] = np.array(O.V_VALUE)
        kw = {"signature": ["a", "b"] + (["arr"] if has_arr else []), "consts": _with_unused(consts),
              "user_funcs": {"f": O.user_f} if _has(text, "f") else None, "allow_indexed": has_arr}

        def replay(route, plist, _text=text):
            return {"shape": shape, "exprs": [_text], "pts": plist, "routes": [route]}

        def guarded(route, plist, fn, _text=text):
            """run fn(); classify exceptions; returns (ok, value)"""
            try:
                rec.n += 1
                return True, fn()
            except Exception as exc:  # noqa: BLE001
                if type(exc).__name__ == "CaseTimeout":
                    raise
                why = refusal(route, _text, exc, jit)
                if why:
                    rec.refs[why] += 1
                    rec.outs["refused: " + why.split(":")[0].split("(")[0].strip()] += 1
                elif _deriv_fpe(route, exc):
                    rec.skipped += 1
                    rec.outs["symbolic derivative over/underflows at a point (skipped)"] += 1
                elif (isinstance(exc, FloatingPointError) and "overflow" in str(exc)) or isinstance(exc, OverflowError):
                    # e.g. 1/(1+exp(-a)) is simplified to exp(a)/(exp(a)+1): inf/inf = nan at a = 1000.  The harness runs
                    # numpy with seterr(all="raise"); what a user gets is the result under numpy's default error state:
                    # a finite result goes on to the normal comparison (b/(2*cosh(2*a)) -> b/inf = 0 is harmless, only a
                    # RuntimeWarning), nan/inf or a Python OverflowError is the finding
                    got = None
                    if isinstance(exc, FloatingPointError):
                        try:
                            with np.errstate(all="ignore"):
                                got = np.asarray(fn(), dtype=float)
                        except Exception:  # noqa: BLE001
                            got = None
                    if got is not None and np.all(np.isfinite(got)):
                        rec.outs["intermediate overflow, finite result under numpy's default error state (warning only)"] += 1
                        return True, got
                    rec.bad(route, shape, CLAUSE_O, _text, f"{exc} at {[_pt(p) for p in plist][-1:]}, result under numpy's default "
                            f"error state: {None if got is None else got.tolist()}; the written formula is finite there (all "
                            "sub-expressions <= 1e8)", replay(route, plist), "expr_chunk")
                else:
                    rec.bad(route, shape, f"raises {type(exc).__name__}", _text,
                            f"{type(exc).__name__}: {str(exc)[:200]} at {[_pt(p) for p in plist][:2]}",
                            replay(route, plist), "expr_chunk")
                return False, None

        def compare(route, plist, got, ref, err, clause=CLAUSE_V, _text=text):
            rec.compared += 1
            why = _close(np, got, ref, err)
            if why:
                rec.bad(route, shape, clause, _text, f"{why}; arguments {[_pt(p) for p in plist]}", replay(route, plist),
                        "expr_chunk")
            return why is None

        ok, e = guarded("construct", [kept[0][0]], lambda: ScalarExpression(text, **kw))
        if not ok:
            continue
        if list(e.vars) != kw["signature"]:
            rec.bad("construct", shape, "variables differ from the signature", text, f"{e.vars}", replay("call", [kept[0][0]]),
                    "expr_chunk")

        def scalar_route(route, fn, single=False):
            for p, r in kept:
                args = (np.array([p["a"], p["b"]]),) if single else _args(np, p, has_arr)
                ok, got = guarded(route, [p], lambda: fn(*args))
                if not ok or not compare(route, [p], got, r["v"], r["e"]):
                    return False
            return True

        def array_route(route, fn, single=False):
            """all kept points at once (element-wise); with the array constant the arguments get a
            trailing axis of length 1 so that the result is (n, 2)"""
            plist = [p for p, _ in kept]
            tail = (1,) if has_v else ()
            A = np.array([p["a"] for p in plist]).reshape((-1,) + tail)
            B = np.array([p["b"] for p in plist]).reshape((-1,) + tail)
            ref = np.array([r["v"] for _, r in kept], dtype=float)
            err = np.array([r["e"] for _, r in kept], dtype=float)
            if single:
                args = (np.array([A, B]),)
            else:
                args = (A, B) + ((np.array([[p["arr"][i] for p in plist] for i in (0, 1)]).reshape((2, -1) + tail),) if has_arr else ())
            ok, got = guarded(route, plist, lambda: fn(*args))
            return ok and compare(route, plist, got, ref, err)

        def bcast_route(route, fn):
            """array for one variable, scalar for the other (both orders)"""
            p0 = kept[0][0]
            for which in ("a", "b"):
                mixed = []
                for p, _ in kept:
                    q = dict(p0)
                    q[which] = p[which]
                    q["name"] = f"{p0['name']}+{which}:{p['name']}"
                    r = orc.at(q)
                    if r is not None:
                        mixed.append((q, r))
                if not mixed:
                    continue
                plist = [q for q, _ in mixed]
                tail = (1,) if has_v else ()
                arr = np.array([q[which] for q in plist]).reshape((-1,) + tail)
                args = (arr, p0["b"]) if which == "a" else (p0["a"], arr)
                if has_arr:
                    args += (np.array(p0["arr"], dtype=float),)
                ok, got = guarded(route, plist, lambda: fn(*args))
                if not ok or not compare(route, plist, got, [r["v"] for _, r in mixed], [r["e"] for _, r in mixed]):
                    return False
            return True

        if "call" in routes:
            scalar_route("call", e)
        for backend in ("numpy", "numba"):
            want = [r for r in routes if r.startswith(backend)]
            if not want:
                continue
            if {backend, backend + "-array", backend + "-bcast"} & set(want):
                ok, fn = guarded(backend, [kept[0][0]], lambda: e.get_function(backend))
                if ok:
                    if backend in want:
                        scalar_route(backend, fn)
                    if backend + "-array" in want:
                        array_route(backend + "-array", fn)
                    if backend + "-bcast" in want:
                        bcast_route(backend + "-bcast", fn)
            if backend + "-single" in want and not has_arr:
                ok, fn = guarded(backend + "-single", [kept[0][0]], lambda: e.get_function(backend, single_arg=True))
                if ok and scalar_route(backend + "-single", fn, single=True) and not has_v:
                    array_route(backend + "-single", fn, single=True)
        dkept = [(p, r) for p, r in kept if not r["nodiff"] and all(_finite(x) for x in _flat(r["d"]))]
        if case.get("deep") and _has(text, "abs"):
            # differentiating through abs is always refused (PrintMethodNotImplementedError: sympy symbols are complex,
            # d|z|/dz is left as Derivative(re(..))), which is established on the depth <= 1 expressions; for nested
            # arguments sympy needs up to 80 CPU-seconds per expression to arrive at the same refusal
            dkept = []
            rec.refs["derivative through abs(...) of a nested expression: not attempted (refused at depth <= 1)"] += 1
        if "diff" in routes and dkept:
            for var in ["a", "b"] + (["arr[0]"] if has_arr else []):
                i = O.VAR_INDEX[var]
                route = f"diff:{var}"
                ok, d = guarded(route, [dkept[0][0]], lambda: e.differentiate(var))
                if not ok:
                    continue
                for p, r in dkept:
                    ok, got = guarded(route, [p], lambda: _strict(np, d, _args(np, p, has_arr)))
                    if not ok or not compare(route, [p], got, r["d"][i], r["de"][i], CLAUSE_D):
                        break
        if "derivatives" in routes and dkept:
            ok, d = guarded("derivatives", [dkept[0][0]], lambda: e.derivatives)
            if ok:
                nv = 2
                for p, r in dkept:
                    if has_arr:
                        break  # refused above (indexed variables); nothing to compare if it ever passes
                    ok, got = guarded("derivatives", [p], lambda: _strict(np, d, _args(np, p, has_arr)))
                    if not ok:
                        break
                    if len(got) != nv:
                        rec.bad("derivatives", shape, "number of derivatives differs from the number of variables", text,
                                f"{got!r}", replay("derivatives", [p]), "expr_chunk")
                        break
                    # per variable: a derivative that does not depend on the array constant may be a scalar
                    if not all(compare("derivatives", [p], got[i], r["d"][i], r["de"][i], CLAUSE_D) for i in range(nv)):
                        break
        rec.keys.append(text)
        rec.outs["compared"] += 1
    if rec.t_last is not None:
        rec.slow = max(rec.slow, (time.process_time() - rec.t_last[0], rec.t_last[1]))
    return rec.result()


UNUSED_CONST = {"zz": 7.0}  # an unused constant given FIRST: insertion order (zz, ...) differs from every sorted order


def _with_unused(consts):
    """constants of an expression, preceded by one it does not use (None stays None)"""
    return {**UNUSED_CONST, **consts} if consts else None


def _has_name(text, name):
    return re.search(r"(?<![A-Za-z_0-9\]])" + re.escape(name) + r"(?![A-Za-z_0-9\[(])", text) is not None


def _pt(p):
    return {k: v for k, v in p.items() if k != "name"}


def _finite(x):
    return x == x and abs(x) <= 1e12


def _flat(x):
    for y in x:
        if isinstance(y, (list, tuple)):
            yield from _flat(y)
        else:
            yield y


# ----------------------------------------------------------------------------------------------
# worker 2: signature aliases, coordinate aliases (repl), explicit symbols
# ----------------------------------------------------------------------------------------------

VARIANTS = {
    # name: (rename of the atoms a/b in the text, constructor keywords, canonical variables)
    "alias-first": ({"a": "alpha"}, {"signature": [["a", "alpha"], "b"]}, ["a", "b"]),
    "alias-second": ({"b": "beta"}, {"signature": ["a", ["b", "beta"]]}, ["a", "b"]),
    "alias-both": ({"a": "alpha", "b": "beta"}, {"signature": [["a", "alpha"], ["b", "beta", "bb"]]}, ["a", "b"]),
    "alias-third": ({"b": "bb"}, {"signature": [["a", "alpha"], ["b", "beta", "bb"]]}, ["a", "b"]),
    "repl": ({"a": "radius", "b": "phi"}, {"signature": ["r", "φ"], "repl": {"radius": "r", "phi": "φ"}}, ["r", "φ"]),
    "repl-half": ({"a": "r", "b": "phi"}, {"signature": ["r", "φ"], "repl": {"radius": "r", "phi": "φ"}}, ["r", "φ"]),
    "explicit-symbols": ({"b": "gamma"}, {"signature": None, "explicit_symbols": ["gamma"]}, None),
    "reserved-names": ({"a": "E", "b": "N"}, {"signature": ["E", "N"]}, ["E", "N"]),
    "swapped-signature": ({}, {"signature": ["b", "a"]}, ["b", "a"]),
}


def variant_chunk(case):
    """case: {"variant", "shape", "exprs": [text (already renamed)...], "seed"|"pts", "routes"}"""
    import numpy as np
    from mc import core
    from pde.tools.expressions import ScalarExpression

    jit = core.mode() == "J"
    rec = Rec(case)
    variant, shape = case["variant"], case["shape"]
    ren, kw0, canon = VARIANTS[variant]
    names = {ren.get("a", "a"): "a", ren.get("b", "b"): "b"}
    pts = case.get("pts") or make_points(case.get("seed", 0))
    routes = [r.split(":")[0] for r in (case.get("routes") or ["call", "numpy", "numba", "numpy-array", "diff", "derivatives"])]
    for text in case["exprs"]:
        orc = O.Oracle(text, names=names)
        kept = [(p, r) for p in pts for r in [orc.at(p)] if r is not None]
        rec.skipped += len(pts) - len(kept)
        if not kept:
            rec.outs["no well-conditioned point"] += 1
            continue
        kw = dict(kw0)
        kw["consts"] = _with_unused({"k": O.K_VALUE}) if _has_name(text, "k") else None
        kw["user_funcs"] = {"f": O.user_f} if _has(text, "f") else None

        def replay(route, plist, _text=text):
            return {"variant": variant, "shape": shape, "exprs": [_text], "pts": plist, "routes": [route]}

        def guarded(route, plist, fn, _text=text):
            try:
                rec.n += 1
                return True, fn()
            except Exception as exc:  # noqa: BLE001
                if type(exc).__name__ == "CaseTimeout":
                    raise
                why = refusal(route, _text, exc, jit)
                if why:
                    rec.refs[why] += 1
                elif _deriv_fpe(route, exc):
                    rec.skipped += 1
                else:
                    rec.bad(f"{variant}/{route}", shape, f"raises {type(exc).__name__}", _text,
                            f"{type(exc).__name__}: {str(exc)[:200]}", replay(route, plist), "variant_chunk")
                return False, None

        def compare(route, plist, got, ref, err, clause=CLAUSE_V, _text=text):
            rec.compared += 1
            why = _close(np, got, ref, err)
            if why:
                rec.bad(f"{variant}/{route}", shape, clause, _text, f"{why}; arguments {[_pt(p) for p in plist]}",
                        replay(route, plist), "variant_chunk")
            return why is None

        ok, e = guarded("construct", [kept[0][0]], lambda: ScalarExpression(text, **kw))
        if not ok:
            continue
        present = [n for n, slot in (("a", "a"), ("b", "b")) if _has_name(text, ren.get(n, n))]
        if canon is None:
            # no signature: the variables are those that occur; called by keyword
            order = list(e.vars)
            exp_vars = sorted(ren.get(n, n) for n in present)
            # (simplification may remove a variable, e.g. a-a)
            if not set(order) <= set(exp_vars) or order != sorted(order):
                rec.bad(f"{variant}/construct", shape, "variables differ from the symbols of the text", text,
                        f"{order} != {exp_vars}", replay("call", [kept[0][0]]), "variant_chunk")
                continue
            slot_of = {ren.get(n, n): n for n in present}

            def args_of(p):
                return tuple(p[slot_of[v]] for v in order)
        else:
            if list(e.vars) != canon:
                rec.bad(f"{variant}/construct", shape, "variables differ from the signature", text, f"{e.vars} != {canon}",
                        replay("call", [kept[0][0]]), "variant_chunk")
                continue
            if variant == "swapped-signature":
                def args_of(p):
                    return (p["b"], p["a"])
            else:
                def args_of(p):
                    return (p["a"], p["b"])
        nslots = [("b", 1), ("a", 0)] if variant == "swapped-signature" else [("a", 0), ("b", 1)]
        if canon is None:
            nslots = [(slot_of[v], O.VAR_INDEX[slot_of[v]]) for v in order]

        for route in routes:
            if route == "call":
                for p, r in kept:
                    if canon is None and not kw["consts"]:
                        call = lambda: e(**dict(zip(order, args_of(p))))  # noqa: E731
                    else:
                        # (keyword arguments are not accepted once constants are bound: the numpy backend
                        # wraps the function in `result(*args)` -> TypeError; positional in the advertised order)
                        call = lambda: e(*args_of(p))  # noqa: E731
                    ok, got = guarded(route, [p], call)
                    if not ok or not compare(route, [p], got, r["v"], r["e"]):
                        break
            elif route in ("numpy", "numba"):
                ok, fn = guarded(route, [kept[0][0]], lambda: e.get_function(route))
                if ok:
                    for p, r in kept:
                        ok, got = guarded(route, [p], lambda: fn(*args_of(p)))
                        if not ok or not compare(route, [p], got, r["v"], r["e"]):
                            break
            elif route in ("numpy-array", "numba-array"):
                ok, fn = guarded(route, [kept[0][0]], lambda: e.get_function(route.split("-")[0]))
                if ok:
                    plist = [p for p, _ in kept]
                    cols = list(zip(*[args_of(p) for p in plist]))
                    args = tuple(np.array(c, dtype=float) for c in cols)
                    ok, got = guarded(route, plist, lambda: fn(*args))
                    if ok:
                        compare(route, plist, got, [r["v"] for _, r in kept], [r["e"] for _, r in kept])
            elif route == "diff":
                dk = [(p, r) for p, r in kept if not r["nodiff"] and all(_finite(x) for x in r["d"])]
                for (slot, i), var in zip(nslots, list(e.vars)):
                    if not dk:
                        break
                    ok, d = guarded(f"diff:{slot}", [dk[0][0]], lambda: e.differentiate(var))
                    if not ok:
                        continue
                    for p, r in dk:
                        ok, got = guarded(f"diff:{slot}", [p], lambda: d(*args_of(p)))
                        if not ok or not compare(f"diff:{slot}", [p], got, r["d"][i], r["de"][i], CLAUSE_D):
                            break
            elif route == "derivatives":
                dk = [(p, r) for p, r in kept if not r["nodiff"] and all(_finite(x) for x in r["d"])]
                if dk:
                    ok, d = guarded("derivatives", [dk[0][0]], lambda: e.derivatives)
                    if ok:
                        for p, r in dk:
                            ok, got = guarded("derivatives", [p], lambda: d(*args_of(p)))
                            if not ok or not compare("derivatives", [p], got, [r["d"][i] for _, i in nslots],
                                                     [r["de"][i] for _, i in nslots], CLAUSE_D):
                                break
        rec.keys.append(f"{variant}|{text}")
        rec.outs[variant] += 1
    return rec.result()


def mixed_alias_chunk(case):
    """an expression that uses a variable AND its alias: refused loudly or evaluated correctly"""
    import numpy as np
    from pde.tools.expressions import ScalarExpression

    rec = Rec(case)
    pts = case.get("pts") or make_points(case.get("seed", 0))
    for text in case["exprs"]:
        orc = O.Oracle(text, names={"a": "a", "alpha": "a", "b": "b"})
        rec.n += 1
        try:
            e = ScalarExpression(text, signature=[["a", "alpha"], "b"], user_funcs={"f": O.user_f} if _has(text, "f") else None)
        except RuntimeError as exc:
            if "not defined in expression signature" in str(exc):
                rec.refs["variable and its alias in one expression (RuntimeError)"] += 1
                rec.outs["refused"] += 1
                continue
            raise
        for p in pts:
            r = orc.at(p)
            if r is None:
                rec.skipped += 1
                continue
            rec.n += 1
            rec.compared += 1
            why = _close(np, e(p["a"], p["b"]), r["v"], r["e"])
            if why:
                rec.bad("alias-mixed/call", case["shape"], CLAUSE_V, text, f"{why}; arguments {_pt(p)}",
                        {"shape": case["shape"], "exprs": [text], "pts": [p]}, "mixed_alias_chunk")
                break
        rec.keys.append(text)
        rec.outs["accepted"] += 1
    return rec.result()


# ----------------------------------------------------------------------------------------------
# worker 3: tensor expressions
# ----------------------------------------------------------------------------------------------

FILL1 = ["a*b", "b"]
FILL2 = ["a", "b", "b*a", "2"]


def tensor_text(text, rank, pos):
    if rank == 1:
        items = list(FILL1)
        items[pos % 2] = text
        return "[" + ", ".join(items) + "]", items
    items = list(FILL2)
    items[pos % 4] = text
    return f"[[{items[0]}, {items[1]}], [{items[2]}, {items[3]}]]", items


def tensor_chunk(case):
    """case: {"shape", "exprs": [[text, rank, pos]...], "seed"|"pts", "routes"}"""
    import numpy as np
    from mc import core
    from pde.backends.numba import numba_backend
    from pde.tools.expressions import ScalarExpression, TensorExpression

    jit = core.mode() == "J"
    rec = Rec(case)
    shape = case["shape"]
    pts = case.get("pts") or make_points(case.get("seed", 0))
    routes = case.get("routes") or ["call", "call-array", "call-array2", "tensor-numba", "array-fn", "array-fn-single", "tensor-diff",
                                    "tensor-derivatives", "getitem"]
    routes = [r.split(":")[0] for r in routes]
    for text, rank, pos in case["exprs"]:
        ttext, items = tensor_text(text, rank, pos)
        orcs = [O.Oracle(t) for t in items]
        tshape = (2,) * rank
        kept = []
        for p in pts:
            rs = [o.at(p) for o in orcs]
            if any(r is None for r in rs):
                rec.skipped += 1
                continue
            kept.append((p, rs))
        if not kept:
            rec.outs["no well-conditioned point"] += 1
            continue
        kw = {"signature": ["a", "b"], "consts": _with_unused({"k": O.K_VALUE}) if _has_name(text, "k") else None,
              "user_funcs": {"f": O.user_f} if _has(text, "f") else None}

        const_row = [False]

        def replay(route, plist, _e=[text, rank, pos]):
            return {"shape": shape, "exprs": [_e], "pts": plist, "routes": [route]}

        def guarded(route, plist, fn, _text=ttext):
            try:
                rec.n += 1
                return True, fn()
            except Exception as exc:  # noqa: BLE001
                if type(exc).__name__ == "CaseTimeout":
                    raise
                why = refusal(route, _text, exc, jit)
                if why is None and route.startswith("call-array") and rank == 2 and type(exc).__name__ == "ValueError" \
                        and "broadcast" in str(exc) and const_row[0]:
                    # same family as the silent case below (fixed in /repo 6c3e0fc): rows were broadcast one by one
                    rec.bad(f"rank2/{route}", "constant row", "arrays cannot be broadcast (ValueError)", _text,
                            f"ValueError: {str(exc)[:200]}", replay(route, plist), "tensor_chunk")
                    return False, None
                if why:
                    rec.refs[why] += 1
                elif _deriv_fpe(route, exc):
                    rec.skipped += 1
                else:
                    rec.bad(f"rank{rank}/{route}", shape, f"raises {type(exc).__name__}", _text,
                            f"{type(exc).__name__}: {str(exc)[:200]}", replay(route, plist), "tensor_chunk")
                return False, None

        def compare(route, plist, got, ref, err, clause=CLAUSE_V, _text=ttext):
            rec.compared += 1
            why = _close(np, got, ref, err)
            if why:
                rec.bad(f"rank{rank}/{route}", shape, clause, _text, f"{why}; arguments {[_pt(p) for p in plist]}",
                        replay(route, plist), "tensor_chunk")
            return why is None

        def val(rs, key="v"):
            return np.array([r[key] for r in rs], dtype=float).reshape(tshape)

        ok, te = guarded("construct", [kept[0][0]], lambda: TensorExpression(ttext, **kw))
        if not ok:
            continue
        if rank == 2:
            # classification only (which refusal / finding family applies): a row without variables after simplification
            const_row[0] = any(not ({str(x) for x in te._sympy_expr[i].free_symbols} - {"k"}) for i in range(2))
        if tuple(te.shape) != tshape or te.rank != rank:
            rec.bad(f"rank{rank}/construct", shape, "shape/rank of the tensor expression", ttext, f"{te.shape}",
                    replay("call", [kept[0][0]]), "tensor_chunk")
        plist = [p for p, _ in kept]
        A = np.array([p["a"] for p in plist])
        B = np.array([p["b"] for p in plist])
        ref_arr = np.stack([val(rs) for _, rs in kept], axis=-1)
        err_arr = np.stack([val(rs, "e") for _, rs in kept], axis=-1)
        for route in routes:
            if route == "call":
                for p, rs in kept:
                    ok, got = guarded(route, [p], lambda: te(p["a"], p["b"]))
                    if not ok or not compare(route, [p], got, val(rs), val(rs, "e")):
                        break
            elif route == "call-array":
                ok, got = guarded(route, plist, lambda: te(A, B))
                if ok:
                    compare(route, plist, got, ref_arr, err_arr)
            elif route == "call-array2" and len(kept) >= 2:
                # arrays whose length equals the length of a row of the tensor
                ok, got = guarded(route, plist[:2], lambda: te(A[:2], B[:2]))
                if ok:
                    rec.compared += 1
                    why = _close(np, got, ref_arr[..., :2], err_arr[..., :2])
                    if why and rank == 2 and const_row[0]:
                        rec.bad("rank2/call-array2", "constant row", "array of length 2 is broadcast along the wrong axis", ttext,
                                f"{why}; arguments {[_pt(p) for p in plist[:2]]}", replay(route, plist[:2]), "tensor_chunk")
                    elif why:
                        rec.bad(f"rank{rank}/{route}", shape, CLAUSE_V, ttext, f"{why}; arguments {[_pt(p) for p in plist[:2]]}",
                                replay(route, plist[:2]), "tensor_chunk")
            elif route == "tensor-numba":
                ok, fn = guarded(route, [kept[0][0]], lambda: te.get_function("numba"))
                if ok:
                    for p, rs in kept:
                        ok, got = guarded(route, [p], lambda: fn(p["a"], p["b"]))
                        if not ok or not compare(route, [p], got, val(rs), val(rs, "e")):
                            break
            elif route in ("array-fn", "array-fn-single"):
                single = route.endswith("single")
                ok, fn = guarded(route, [kept[0][0]], lambda: numba_backend._make_expression_array(te, single_arg=single))
                if ok:
                    for p, rs in kept:
                        args = (np.array([p["a"], p["b"]]),) if single else (p["a"], p["b"])
                        ok, got = guarded(route, [p], lambda: fn(*args))
                        if not ok or not compare(route, [p], got, val(rs), val(rs, "e")):
                            break
                    else:
                        args = (np.array([A, B]),) if single else (A, B)
                        ok, got = guarded(route, plist, lambda: fn(*args))
                        if ok:
                            compare(route, plist, got, ref_arr, err_arr)
            elif route in ("tensor-diff", "tensor-derivatives"):
                dk = [(p, rs) for p, rs in kept if not any(r["nodiff"] for r in rs) and all(_finite(x) for r in rs for x in r["d"])]
                if not dk:
                    continue
                if route == "tensor-diff":
                    for var, i in (("a", 0), ("b", 1)):
                        ok, d = guarded(route, [dk[0][0]], lambda: te.differentiate(var))
                        if not ok:
                            continue
                        for p, rs in dk:
                            ok, got = guarded(route, [p], lambda: d(p["a"], p["b"]))
                            ref = np.array([r["d"][i] for r in rs]).reshape(tshape)
                            err = np.array([r["de"][i] for r in rs]).reshape(tshape)
                            if not ok or not compare(f"{route}:{var}", [p], got, ref, err, CLAUSE_D):
                                break
                else:
                    ok, d = guarded(route, [dk[0][0]], lambda: te.derivatives)
                    if ok:
                        for p, rs in dk:
                            ok, got = guarded(route, [p], lambda: d(p["a"], p["b"]))
                            ref = np.array([[r["d"][i] for r in rs] for i in (0, 1)]).reshape((2,) + tshape)
                            err = np.array([[r["de"][i] for r in rs] for i in (0, 1)]).reshape((2,) + tshape)
                            if not ok or not compare(route, [p], got, ref, err, CLAUSE_D):
                                break
            elif route == "getitem":
                idx = (pos % 2,) if rank == 1 else divmod(pos % 4, 2)
                ok, sub = guarded(route, [kept[0][0]], lambda: te[idx if rank == 2 else idx[0]])
                if ok:
                    if not isinstance(sub, ScalarExpression):
                        rec.bad(f"rank{rank}/getitem", shape, "component is not a ScalarExpression", ttext, repr(sub),
                                replay(route, [kept[0][0]]), "tensor_chunk")
                        continue
                    k = pos % (2**rank)
                    for p, rs in kept:
                        ok, got = guarded(route, [p], lambda: sub(p["a"], p["b"]))
                        if not ok or not compare(route, [p], got, rs[k]["v"], rs[k]["e"]):
                            break
        rec.keys.append(ttext)
        rec.outs[f"rank{rank}"] += 1
    return rec.result()


# ----------------------------------------------------------------------------------------------
# worker 4: fields from expressions, evaluate(), parse_number
# ----------------------------------------------------------------------------------------------

GRIDS = {
    "cart2": ["cart", [[0, 1], [-1, 3]], [2, 3], [False, False]],
    "unit1": ["unit", [3], [False]],
    "polar": ["polar", [0.5, 2], 3],
    "sph": ["sph", 2, 3],
    "cyl": ["cyl", [0.5, 2], [-1, 2], [2, 3], False],
}
# text names of the atoms a / b on each grid (one-axis grids: canonical name and its alias)
GRID_NAMES = {"cart2": ("x", "y"), "unit1": ("x", "x"), "polar": ("r", "radius"), "sph": ("radius", "r"), "cyl": ("r", "z")}


def _w_values(np, shape):
    n = int(np.prod(shape))
    return (0.35 + 0.45 * np.arange(n) * (-1.0) ** np.arange(n)).reshape(shape)


def field_chunk(case):
    """case: {"grid", "kind": scalar|vector|tensor|evaluate, "shape", "exprs": [[text, pos]...]}"""
    import numpy as np
    from mc import core
    from pde import ScalarField, Tensor2Field, VectorField
    from pde.tools.expressions import evaluate

    jit = core.mode() == "J"
    rec = Rec(case)
    gname, kind, shape = case["grid"], case["kind"], case["shape"]
    spec = GRIDS[gname]
    geo = geometry(spec)
    grid = make_grid(spec)
    na, nb = GRID_NAMES[gname]
    one_axis = geo["num_axes"] == 1
    gshape = tuple(geo["shape"])
    w = _w_values(np, gshape)
    dim = geo["dim"]
    fillers = {"x": ["x*y", "y", "x", "2"], "r": ["r", "2", "r*r", "r+1"], "c": ["r*z", "z", "r", "2", "r+z", "z*z", "1", "r*r", "z-r"]}[
        "x" if gname == "cart2" else ("c" if gname == "cyl" else "r")]
    fa_vals = 0.3 + 0.37 * np.arange(int(np.prod(gshape))).reshape(gshape) * (-1.0) ** np.arange(int(np.prod(gshape))).reshape(gshape)
    fb_vals = -1.1 + 0.53 * np.arange(int(np.prod(gshape))).reshape(gshape)

    def cell_point(idx):
        if kind == "evaluate":
            return {"a": float(fa_vals[idx]), "b": float(fb_vals[idx])}
        c = [geo["centres"][ax][i] for ax, i in enumerate(idx)]
        return {"a": c[0], "b": c[0] if one_axis else c[1]}

    def expected(text):
        names = {"a": "a", "b": "b"} if kind == "evaluate" else {na: "a", nb: "b"}
        orc = O.Oracle(text, names=names)
        ref = np.full(gshape, np.nan)
        err = np.zeros(gshape)
        for idx in np.ndindex(*gshape):
            p = cell_point(idx)
            extra = {"w": O.X(float(w[idx]))}
            if gname == "cart2":
                extra["cartesian"] = [O.X(p["a"], 0.0, O._unit(0)), O.X(p["b"], 0.0, O._unit(1))]
            orc.extra = extra
            r = orc.at(p)
            if r is None:
                rec.skipped += 1
            else:
                ref[idx], err[idx] = r["v"], r["e"]
        return ref, err

    for text, pos in case["exprs"]:
        consts = {}
        if _has_name(text, "k"):
            consts["k"] = O.K_VALUE
        if _has_name(text, "w"):
            consts["w"] = w
        kw = {"consts": _with_unused(consts), "user_funcs": {"f": O.user_f} if _has(text, "f") else None}
        replay = {"grid": gname, "kind": kind, "shape": shape, "exprs": [[text, pos]]}
        route = f"{kind}-field/{gname}" if kind != "evaluate" else "evaluate"
        try:
            if kind == "scalar":
                texts = [text]
                rec.n += 1
                data = ScalarField.from_expression(grid, text, **kw).data[None]
            elif kind == "vector":
                texts = fillers[:dim]
                texts[pos % dim] = text
                rec.n += 1
                data = VectorField.from_expression(grid, texts, **kw).data
            elif kind == "tensor":
                texts = (fillers * 3)[: dim * dim]
                texts[pos % (dim * dim)] = text
                rec.n += 1
                data = Tensor2Field.from_expression(grid, [texts[i * dim:(i + 1) * dim] for i in range(dim)], **kw).data
                data = data.reshape((dim * dim,) + gshape)
            else:
                texts = [text]
                fields = {"a": ScalarField(grid, fa_vals), "b": ScalarField(grid, fb_vals)}
                datas = []
                for backend in ("numpy", "numba"):
                    rec.n += 1
                    datas.append(evaluate(text, fields, backend=backend, **kw).data)
                data = np.array(datas)
                texts = [text, text]
        except Exception as exc:  # noqa: BLE001
            why = refusal(route, text, exc, jit)
            if why:
                rec.refs[why] += 1
            elif isinstance(exc, FloatingPointError) and any(np.any(np.isnan(expected(t)[0])) for t in texts):
                rec.outs["a cell is not well-conditioned and numpy raises (skipped)"] += 1
            else:
                rec.bad(route, shape, f"raises {type(exc).__name__}", text, f"{type(exc).__name__}: {str(exc)[:200]}", replay,
                        "field_chunk")
            continue
        any_cmp = False
        for comp, t in enumerate(texts):
            ref, err = expected(t)
            if np.all(np.isnan(ref)):
                continue
            any_cmp = True
            rec.compared += 1
            why = _close(np, data[comp], ref, err)
            if why:
                rec.bad(route, shape, CLAUSE_V if t == text else "a neighbouring component changed", text,
                        f"component {comp} `{t}` of {texts}: {why}; grid {grid_name(spec)}", replay, "field_chunk")
                break
        if any_cmp:
            rec.keys.append(f"{gname}|{kind}|{text}")
            rec.outs[f"{kind} on {gname}"] += 1
        else:
            rec.outs["no well-conditioned cell"] += 1
    return rec.result()


# ----------------------------------------------------------------------------------------------
# worker 5: expressions that cannot take arrays (Piecewise, scalar-only user functions): the cell-by-cell
# fallback of ScalarField.from_expression / FieldCollection.from_scalar_expressions
# ----------------------------------------------------------------------------------------------

PW_GRIDS = {
    # no cell centre lies within 1e-3 of a break point (1, 2)
    "line": ["cart", [[0, 3]], [6], [False]],  # centres 0.25 ... 2.75
    "plane": ["cart", [[0, 3], [0, 3]], [4, 3], [False, False]],  # x: 0.375 ... 2.625, y: 0.5, 1.5, 2.5
    "disk": ["polar", [0, 3], 4],  # r: 0.375 ... 2.625
}
PW_VALUES = ["0", "1", "2", "0.5", "{v} - 1", "3 - {v}", "{v}**2", "sin({v})"]  # int constants, a float constant, ramps, ...
PW_VALUES3 = ["0", "1", "0.5", "{v} - 1", "3 - {v}"]


def _pw_kind(val):
    return "int" if val in ("0", "1", "2") else ("float" if val == "0.5" else "expr")


def u_first(x):
    """scalar-only user functions (an `if` on the argument): integer constant in the first / last / middle branch"""
    if x < 1:
        return 0
    return x - 1


def u_last(x):
    if x < 2:
        return x / 2
    return 1


def u_mid(x):
    if x < 1:
        return x
    if x < 2:
        return 1
    return 3 - x


def u_float(x):
    return 0.0 if x < 1 else x - 1.0


def u_bool(x):
    if x < 1:
        return False
    return x - 0.5


def u_two(x, y):
    if x < y:
        return 1
    return x - y + 0.25


PW_USER = {"u_first": u_first, "u_last": u_last, "u_mid": u_mid, "u_float": u_float, "u_bool": u_bool, "u_two": u_two}


def piecewise_programs(var, other=None):
    """the complete list [(shape, text)] of the programs of this part in the variable `var`"""
    v = lambda t: t.format(v=var)  # noqa: E731
    out = []
    for a in PW_VALUES:
        for b in PW_VALUES:
            if a == b:
                continue
            ka, kb = _pw_kind(a), _pw_kind(b)
            # the first cell (var < 1) takes the first branch ...
            out.append((f"Piecewise(({ka}, ·<1), ({kb}, True))", f"Piecewise(({v(a)}, {var} < 1), ({v(b)}, True))"))
            # ... or the default branch
            out.append((f"Piecewise(({ka}, ·>1), ({kb}, True))", f"Piecewise(({v(a)}, {var} > 1), ({v(b)}, True))"))
    for a in PW_VALUES3:
        for b in PW_VALUES3:
            for c in PW_VALUES3:
                if len({a, b, c}) < 3:
                    continue
                out.append((f"Piecewise(({_pw_kind(a)}, ·<1), ({_pw_kind(b)}, ·<2), ({_pw_kind(c)}, True))",
                            f"Piecewise(({v(a)}, {var} < 1), ({v(b)}, {var} < 2), ({v(c)}, True))"))
    base = f"Piecewise((0, {var} < 1), ({var} - 1, True))"
    out += [("Piecewise*expr+float", f"{base}*sin({var}) + 0.5"), ("int*Piecewise", f"2*{base}"), ("Piecewise+expr", f"{base} + {var}"),
            ("Piecewise**2", f"{base}**2"), ("sin(Piecewise)", f"sin({base})"),
            ("Piecewise in Piecewise", f"Piecewise((0, {var} < 1), (Piecewise((1, {var} < 2), (3 - {var}, True)), True))")]
    out += [("comparison", f"{var} > 1"), ("comparison", f"{var} < 1"), ("comparison", f"{var} <= 2"), ("sign", f"sign({var} - 1)"),
            ("floor", f"floor({var})"), ("floor", f"floor({var})/2"), ("Max", f"Max({var}, 1)"), ("Min", f"Min({var}, 1.5)")]
    for name in ("u_first", "u_last", "u_mid", "u_float", "u_bool"):
        out += [(f"{name}(·)", f"{name}({var})"), (f"{name}(·)*float", f"{name}({var})*0.5"), (f"{name}(·)+expr", f"{name}({var}) + {var}")]
    if other:
        out += [("u_two(·,·)", f"u_two({var}, {other})"), ("u_two(·,·)", f"u_two({other}, {var})"),
                ("Piecewise((int, ·<·), (expr, True))", f"Piecewise((0, {var} < {other}), ({var}*{other}, True))"),
                ("Piecewise((expr, ·<·), (int, True))", f"Piecewise(({var} - {other}, {var} > {other}), (2, True))"),
                ("Piecewise((int, ·<1), (expr, True))", f"Piecewise((1, {var} < 1), ({var}*{other}, True))")]
    return out


def _pw_namespace():
    import math

    def piecewise(*pairs):
        for val, cond in pairs:
            if cond:
                return val
        raise ValueError("no branch of Piecewise applies")

    ns = {"Piecewise": piecewise, "sin": math.sin, "floor": math.floor, "Max": max, "Min": min, "True": True,
          "sign": lambda t: (t > 0) - (t < 0), "__builtins__": {}}
    ns.update(PW_USER)
    return ns


def piecewise_chunk(case):
    """case: {"grid", "var", "other", "shape", "exprs": [[text, pos]...], "routes": [...]}"""
    import numpy as np
    from pde import FieldCollection, ScalarField, VectorField

    rec = Rec(case)
    gname, shape = case["grid"], case["shape"]
    spec = PW_GRIDS[gname]
    geo = geometry(spec)
    grid = make_grid(spec)
    gshape = tuple(geo["shape"])
    axes = {"line": ["x"], "plane": ["x", "y"], "disk": ["r"]}[gname]
    routes = case.get("routes") or ["scalar", "collection", "vector"]
    ns0 = _pw_namespace()

    def expected(text):
        code = compile(text, "<c11-piecewise>", "eval")
        ref = np.full(gshape, np.nan)
        for idx in np.ndindex(*gshape):
            c = [geo["centres"][ax][i] for ax, i in enumerate(idx)]
            if any(abs(x - bp) < O.NEAR for x in c for bp in (1.0, 2.0)) or (len(c) == 2 and abs(c[0] - c[1]) < O.NEAR):
                rec.skipped += 1
                continue
            ns = dict(ns0)
            ns.update(dict(zip(axes, c)))
            if gname == "disk":
                ns["radius"] = c[0]
            ref[idx] = float(eval(code, ns))  # noqa: S307 - the text is generated by this module
        return ref

    def refused(route, text, exc):
        name, msg = type(exc).__name__, str(exc)
        if route == "vector" and name == "ValueError" and "truth value of an array" in msg:
            return "VectorField.from_expression has no cell-by-cell fallback (ValueError: truth value of an array)"
        if name == "TypeError" and ("Max(" in text or "Min(" in text):
            return "Max/Min are printed as the builtin max/min, which numpy's namespace shadows (TypeError)"
        return None

    for text, pos in case["exprs"]:
        uf = {k: f for k, f in PW_USER.items() if _has(text, k)} or None
        ref = expected(text)
        tol = 1e-12 * (1.0 + np.abs(np.nan_to_num(ref)))  # a handful of flops per cell
        for route in routes:
            replay = {"grid": gname, "var": case.get("var"), "shape": shape, "exprs": [[text, pos]], "routes": [route]}
            sigroute = f"fallback-field/{gname}/{route}"
            filler = " + ".join(axes)
            try:
                rec.n += 1
                if route == "scalar":
                    fields = [(text, ScalarField.from_expression(grid, text, user_funcs=uf))]
                elif route == "collection":
                    texts = [filler, filler]
                    texts[pos % 2] = text
                    fc = FieldCollection.from_scalar_expressions(grid, texts, user_funcs=uf)
                    fields = [(t, f) for t, f in zip(texts, fc)]
                else:
                    dim = geo["dim"]
                    texts = [filler] * dim
                    texts[pos % dim] = text
                    vf = VectorField.from_expression(grid, texts, user_funcs=uf)
                    fields = [(t, vf[i]) for i, t in enumerate(texts)]
            except Exception as exc:  # noqa: BLE001
                why = refused(route, text, exc)
                if why:
                    rec.refs[why] += 1
                else:
                    rec.bad(sigroute, shape, f"raises {type(exc).__name__}", text, f"{type(exc).__name__}: {str(exc)[:200]}", replay,
                            "piecewise_chunk")
                continue
            for t, f in fields:
                r = ref if t == text else expected(t)
                rec.compared += 1
                if f.data.dtype != np.float64:
                    rec.bad(sigroute, shape, "field is not of dtype float", text, f"`{t}`: dtype {f.data.dtype}", replay, "piecewise_chunk")
                    break
                mask = ~np.isnan(r)
                diff = np.abs(f.data - np.nan_to_num(r))
                if f.data.shape != gshape or not np.all((diff <= tol) | ~mask):
                    idx = tuple(int(i) for i in np.argwhere(~((diff <= tol) | ~mask))[0]) if f.data.shape == gshape else ()
                    rec.bad(sigroute, shape, CLAUSE_V if t == text else "a neighbouring field changed", text,
                            f"`{t}` at cell {idx} (centre {[geo['centres'][ax][i] for ax, i in enumerate(idx)]}): got "
                            f"{f.data[idx] if idx else f.data.shape!r} expected {r[idx] if idx else gshape!r}; whole field "
                            f"{f.data.ravel().tolist()[:8]}; grid {grid_name(spec)}", replay, "piecewise_chunk")
                    break
            else:
                rec.keys.append(f"{gname}|{route}|{text}")
                rec.outs[f"{route} on {gname}"] += 1
    return rec.result()


def number_chunk(case):
    """parse_number on constant expressions"""
    import numpy as np
    from pde.tools.expressions import parse_number

    rec = Rec(case)
    for text in case["exprs"]:
        r = O.Oracle(text).at({"a": 0.0, "b": 0.0})
        if r is None:
            rec.skipped += 1
            continue
        rec.n += 1
        replay = {"shape": case["shape"], "exprs": [text]}
        try:
            got = parse_number(text, {"k": O.K_VALUE})
        except Exception as exc:  # noqa: BLE001
            why = refusal("parse_number", text, exc, False)
            if why:
                rec.refs[why] += 1
            else:
                rec.bad("parse_number", case["shape"], f"raises {type(exc).__name__}", text, str(exc)[:200], replay, "number_chunk")
            continue
        rec.compared += 1
        why = _close(np, got, r["v"], r["e"])
        if why:
            rec.bad("parse_number", case["shape"], CLAUSE_V, text, why, replay, "number_chunk")
        rec.keys.append(text)
    return rec.result()


# ----------------------------------------------------------------------------------------------
# parent
# ----------------------------------------------------------------------------------------------


def _chunks(items, size):
    return [items[i:i + size] for i in range(0, len(items), size)]


def _by_shape(trees, ren=None):
    groups = collections.OrderedDict()
    for t in trees:
        groups.setdefault(O.shape(t), []).append(O.text(t, ren))
    return groups


def _oracle_selftest(trees, pts):
    """the forward-mode partials of the oracle against central differences of its own values
    (guards the derivative tables of the oracle; pure Python, parent process)"""
    n = bad = 0
    first = None
    h = 1e-5
    for t in trees:
        s = O.text(t)
        orc = O.Oracle(s)
        for p in pts[:2]:
            r = orc.at(p)
            if r is None or r["nodiff"]:
                continue
            for var, i in (("a", 0), ("b", 1)):
                vs = []
                for k in (-2, -1, 1, 2):
                    q = dict(p)
                    q[var] = p[var] + k * h
                    rr = orc.at(q)
                    vs.append(None if rr is None or rr["nodiff"] else rr["v"])
                if any(v is None for v in vs):
                    continue
                for el in range(2 if orc.has_v else 1):
                    g = [v[el] if orc.has_v else v for v in vs]
                    fd = (g[0] - 8 * g[1] + 8 * g[2] - g[3]) / (12 * h)
                    d = r["d"][i][el] if orc.has_v else r["d"][i]
                    n += 1
                    # round-off floor of the difference quotient: the four values carry ~eps*|g| each
                    floor = 32 * 2.3e-16 * max(abs(x) for x in g) / h
                    if abs(fd - d) > 1e-5 * max(1.0, abs(d), abs(fd)) + floor:
                        bad += 1
                        first = first or f"{s} d/d{var} at {_pt(p)}: dual {d} vs finite difference {fd}"
    return n, bad, first


def main(run):
    tier, seed = run.tier, run.seed
    pts = make_points(seed)
    trees = O.enumerate_trees(tier)
    groups = _by_shape(trees)
    info = collections.Counter()
    refs = collections.Counter()
    slow = []

    def explore(fn, cases, mode, part, **kw):
        if getattr(run, "only", None) and part not in run.only:
            return
        for _, res in run.explore(FN + fn, cases, mode=mode, part=part, collect=True, **kw):
            for k, v in (res.get("info") or {}).items():
                if k == "refs":
                    refs.update(v)
                elif k == "slow":
                    slow.append((round(v[0], 2), v[1]))
                else:
                    info[f"{part}: {k}"] += v

    # 0. self-test of the oracle's derivative tables
    l1 = list(O.ATOMS) + O.level1(O.ATOMS)
    n, bad, first = _oracle_selftest(l1 + O.wrap(O.level1(["a"]), ["b"]), pts)
    run.notes["oracle_selftest"] = {"dual_vs_finite_difference_comparisons": n, "mismatches": bad, "first": first}
    if bad:
        run.violation({"sig": "oracle|self-test|dual numbers disagree with finite differences", "msg": first, "detail": None},
                      fn=FN + "expr_chunk", mode="I", case={})

    # 1. all expressions x all routes, interpreted kernels (mode I); one case = <= 24 expressions of one shape
    base = {O.text(t) for t in O.enumerate_trees("quick")}
    flat = {O.shape(t) for t in trees if O.depth(t) <= 1}
    cases, deep = [], []
    for shp, texts in groups.items():
        for ch in _chunks([t for t in texts if t in base], 24):
            cases.append({"shape": shp, "exprs": ch, "seed": seed, "deep": shp not in flat})
        # the expressions only the thorough tier has: the argument-passing variants (single_arg, broadcasting,
        # the scalar numpy function = `call`) do not depend on the depth of the expression and are left out, and so is
        # `.derivatives` (same symbolic derivative as `differentiate`, simplified a second time; budget)
        for ch in _chunks([t for t in texts if t not in base], 24):
            deep.append({"shape": shp, "exprs": ch, "seed": seed, "routes": ROUTES_DEEP, "deep": True})
    cases.sort(key=lambda c: -len(c["exprs"]))
    deep.sort(key=lambda c: -len(c["exprs"]))
    explore("expr_chunk", cases, "I", "expr[I]", chunksize=1, limit=1200)
    explore("expr_chunk", deep, "I", "expr-deep[I]", chunksize=1, limit=1200)

    # 1b. fixed extra programs (both tiers): the minimal instances of the two known families that the quick grammar
    # does not reach - sympy.simplify (called by ExpressionBase.__init__) rewrites the derivative of tan(u), tanh(u),
    # u = b/(cos(a)**2+1), into a wrong closed form, and turns the stable logistic form into one that overflows
    extra = [
        {"shape": "tan(·/(·**2+1))", "exprs": ["tan(b/(cos(a)**2+1))"]},
        {"shape": "tanh(·/(·**2+1))", "exprs": ["tanh(b/(cosh(a)**2+1))"]},
        {"shape": "·/(exp(·)**2+1)", "exprs": ["b/(exp(-a)**2+1)"]},
        {"shape": "1/(1+exp(-·))", "exprs": ["1/(1+exp(-a))"]},
    ]
    for c in extra:
        c.update({"seed": seed, "deep": True})
    explore("expr_chunk", extra, "I", "extra[I]", chunksize=1)

    # 2. really compiled: one representative per shape class
    jroutes = ["numba", "numba-array"]
    jcases = []
    reps = {}
    for t in trees:
        shp = O.shape(t)
        at = O.atoms_of(t)
        score = (not {"a", "b"} <= at, "a" not in at)
        if shp in reps and reps[shp][0] <= score:
            continue
        orc = O.Oracle(O.text(t))
        if sum(orc.at(p) is not None for p in pts) >= 3:
            reps[shp] = (score, O.text(t))
    for i, (shp, (_, txt)) in enumerate(reps.items()):
        r = list(jroutes)
        if tier == "thorough":
            # the extra argument signatures (2 compilations each) rotate over the classes (offset by the seed)
            r += [["numba-single"], ["numba-bcast"], [], [], [], []][(i + seed) % 6]
        jcases.append({"shape": shp, "exprs": [txt], "seed": seed, "routes": r})
    explore("expr_chunk", jcases, "J", "expr[J]", chunksize=1, limit=1200)
    run.notes["shape_classes"] = len(groups)
    run.notes["shape_classes_compiled"] = len(jcases)

    # 3. aliases / repl / explicit symbols on all expressions of depth <= 1 over {a, b, 0.5, k}
    small = ["a", "b", "0.5", "k"] + O.level1(["a", "b", "0.5", "k"])
    vcases = []
    for variant, (ren, _, _) in VARIANTS.items():
        for shp, texts in _by_shape(small, ren).items():
            vcases.append({"variant": variant, "shape": shp, "exprs": texts, "seed": seed})
    explore("variant_chunk", vcases, "I", "variants[I]", chunksize=2)
    jv = [{"variant": "repl", "shape": shp, "exprs": texts[-1:], "seed": seed, "routes": ["numba", "numba-array"]}
          for shp, texts in _by_shape(O.level1(["a", "b"]), VARIANTS["repl"][0]).items()]
    explore("variant_chunk", jv, "J", "variants[J]", chunksize=1)
    mixed = [[o, "a", "alpha"] for o in O.BINARY] + [[o, "alpha", "a"] for o in O.BINARY] + \
            [[o, [u, "alpha"], "a"] for o in ("add", "userf") for u in ("sin", "neg")]
    explore("mixed_alias_chunk", [{"shape": O.shape(t), "exprs": [O.text(t)], "seed": seed} for t in mixed], "I",
            "mixed-alias[I]")

    # 4. tensor expressions: every depth <= 1 expression at a rotating position of a rank-1 / rank-2 array
    tcases = []
    tsmall = _by_shape(small)
    idx = 0
    for shp, texts in tsmall.items():
        items = []
        for t in texts:
            for rank in (1, 2):
                items.append([t, rank, idx + seed])
            idx += 1
        tcases.append({"shape": shp, "exprs": items, "seed": seed})
    explore("tensor_chunk", tcases, "I", "tensor[I]", chunksize=1)
    jt = [{"shape": c["shape"], "exprs": c["exprs"][-2:], "seed": seed, "routes": ["tensor-numba", "array-fn", "array-fn-single"]}
          for c in tcases]
    if tier == "thorough":
        explore("tensor_chunk", jt, "J", "tensor[J]", chunksize=1)

    # 5. fields from expressions, evaluate(), parse_number
    fatoms = ["a", "b", "2", "k", "w"]
    ftrees = fatoms + O.level1(fatoms)
    fcases = []
    kinds = {"cart2": ["scalar", "vector", "tensor", "evaluate"], "unit1": ["scalar"], "polar": ["scalar", "vector"],
             "sph": ["scalar"], "cyl": ["scalar", "vector", "tensor"]}
    if tier == "thorough":
        kinds["polar"].append("tensor")
        kinds["sph"] += ["vector", "tensor"]
    for gname, ks in kinds.items():
        na, nb = GRID_NAMES[gname]
        ren = {"a": na, "b": nb}
        per_grid = list(ftrees)
        if gname == "cart2":
            per_grid += [[u, "c0"] for u in ("sin", "pow2")] + [[o, "c0", "c1"] for o in O.BINARY] + [[o, "c1", "a"] for o in ("sub", "userf")]
            ren = {"a": na, "b": nb, "c0": "cartesian[0]", "c1": "cartesian[1]"}
        for kind in ks:
            r = {k: v for k, v in ren.items() if k in ("c0", "c1")} if kind == "evaluate" else ren
            use = [t for t in per_grid if not (kind == "evaluate" and ({"w", "c0", "c1"} & O.atoms_of(t)))]
            i = 0
            for shp, group in _group_trees(use).items():
                items = []
                for t in group:
                    items.append([O.text(t, r), i + seed])
                    i += 1
                fcases.append({"grid": gname, "kind": kind, "shape": shp, "exprs": items})
    explore("field_chunk", fcases, "I", "fields[I]", chunksize=2)
    # 5b. expressions that cannot take arrays: Piecewise (integer constant in the first / last / middle branch, first cell in
    # the first or in the default branch), comparisons, sign/floor, scalar-only user functions -> cell-by-cell fallback
    pcases = []
    for gname, var, other in (("line", "x", None), ("plane", "x", "y"), ("plane", "y", "x"), ("disk", "r", None), ("disk", "radius", None)):
        progs = piecewise_programs(var, other)
        if gname == "disk":
            # polar grid (axis name and its alias): the 3-branch family, the user functions and the non-Piecewise programs
            progs = [pr for pr in progs if ", True))" not in pr[1] or pr[1].count("<") == 2 or "u_" in pr[1]]
        groups_p = collections.OrderedDict()
        for i, (shp, txt) in enumerate(progs):
            groups_p.setdefault(shp, []).append([txt, i + seed])
        routes = ["scalar", "collection"] if gname != "plane" else ["scalar"] + (["collection"] if var == "x" else [])
        for shp, items in groups_p.items():
            r = routes + (["vector"] if gname == "plane" and var == "x" and shp.count("·<") == 2 else [])
            pcases.append({"grid": gname, "var": var, "other": other, "shape": shp, "exprs": items, "routes": r})
    explore("piecewise_chunk", pcases, "I", "fallback-fields[I]", chunksize=1)
    catoms = ["2", "0.5", "(-1.5)", "k", "pi"]
    ncases = [{"shape": shp, "exprs": texts} for shp, texts in _by_shape(catoms + O.level1(catoms)).items()]
    explore("number_chunk", ncases, "I", "parse_number[I]")

    run.notes["slowest_expressions_cpu_s"] = sorted(slow, reverse=True)[:8]
    run.notes["points"] = pts
    run.notes["expressions"] = len(trees)
    run.notes["comparisons_and_skips"] = dict(info)
    run.notes["refusal_counts_by_kind"] = dict(refs)
    run.notes["tolerance"] = (f"|got - ref| <= {RTOL}*|ref| + {EFAC:g}*E + {FLOOR}, E = running bound on the rounding error of "
                              "the written formula evaluated in double precision (unit round-off per operation, 2 per library call)")
    run.assumptions += [
        "written-formula semantics = Python semantics of the text: only + - * / ** (true division), calls and indexing occur; "
        "every infix/negated child is parenthesised by the generator",
        "heaviside(0) = Heaviside(0) = 1/2 (sympy H0 default, printed as Heaviside(x, 1/2) -> numpy.heaviside); heaviside(x, h) = h at 0",
        "a point is 'well-conditioned' iff no sub-expression exceeds 1e8, comes within 1e-3 of a pole/branch point/jump "
        "(tan, negative powers, heaviside, fractional powers) and heaviside never sees an inexactly computed zero; derivative "
        "comparisons also skip abs/hypot/heaviside within 1e-3 of their kink; skipped points are counted",
        "constants: k = 1.25, array constant v = [0.75, -2.5] (result gets a trailing axis of length 2), user function "
        "f(x, y) = x - 2y + xy/2, indexed variable arr of length 2 (allow_indexed=True)",
        "a result that is broadcastable to the element-wise shape is accepted (constant expressions return scalars)",
        "mode I executes the Python source that numba would compile; mode J compiles one representative per shape class",
        "loud refusals (exceptions) are counted, not flagged, only for the documented kinds in refusal(); any other exception "
        "is a violation",
    ]
    return (
        "ALL expressions of the grammar (atoms a b 2 0.5 -1.5 k v arr[0] arr[1] pi; 20 unary, 8 binary operators; commutative twins "
        "removed): depth<=1 over all atoms + depth 2 = one more operator around every depth-1 expression over {a,b}, sibling in {a,b} on "
        "either side (quick); thorough: inner atoms {a,b,0.5}, + depth 2 with two non-atomic children and every depth-3 operator "
        "triple over {a,b} (these through call / numpy arrays / numba / differentiate only); each through call / numpy / numba source / single_arg / "
        "arrays / broadcasting / differentiate / derivatives at 3 seeded generic + 4 special points; one really compiled function per "
        "shape class (outer x inner operators); plus alias / repl / explicit-symbol variants, tensor expressions, field constructors "
        "on 5 grids, evaluate(), parse_number over all depth<=1 expressions; the cell-by-cell fallback of ScalarField.from_expression / "
        "FieldCollection.from_scalar_expressions on every 2-/3-branch Piecewise over {0,1,2,0.5,ramps} (first cell in the first or "
        "the default branch), comparisons, sign/floor and scalar-only user functions on a 1-d, a 2-d and a polar grid (float dtype, "
        "every cell); distinct = expressions (per part) with >= 1 "
        "well-conditioned point compared"
    )


def _group_trees(trees):
    groups = collections.OrderedDict()
    for t in trees:
        groups.setdefault(O.shape(t), []).append(t)
    return groups
