"""Grid alphabet shared by several checks: JSON-able grid specs, construction of the real grid and an
independent description of its geometry (bounds, spacing, centres) computed from the spec only."""

from __future__ import annotations


def make_grid(spec):
    """spec = ["cart", bounds, shape, periodic] | ["unit", shape, periodic] | ["polar", radius, N]
    | ["sph", radius, N] | ["cyl", radius, bounds_z, shape, periodic_z]"""
    from pde import CartesianGrid, CylindricalSymGrid, PolarSymGrid, SphericalSymGrid, UnitGrid

    kind = spec[0]
    if kind == "unit":
        return UnitGrid(list(spec[1]), periodic=list(spec[2]))
    if kind == "cart":
        return CartesianGrid([list(b) for b in spec[1]], list(spec[2]), periodic=list(spec[3]))
    rad = spec[1]
    rad = tuple(rad) if isinstance(rad, (list, tuple)) else rad
    if kind == "polar":
        return PolarSymGrid(rad, spec[2])
    if kind == "sph":
        return SphericalSymGrid(rad, spec[2])
    if kind == "cyl":
        return CylindricalSymGrid(rad, tuple(spec[2]), list(spec[3]), periodic_z=bool(spec[4]))
    raise ValueError(kind)


def geometry(spec):
    """independent geometry: dict(axes, bounds, shape, periodic, dim, dx, centres)"""
    kind = spec[0]
    if kind == "unit":
        shape = list(spec[1])
        bounds = [(0.0, float(n)) for n in shape]
        periodic = list(spec[2])
        axes = ["x", "y", "z"][: len(shape)]
        dim = len(shape)
    elif kind == "cart":
        bounds = [(float(a), float(b)) for a, b in spec[1]]
        shape = list(spec[2])
        periodic = list(spec[3])
        axes = ["x", "y", "z"][: len(shape)]
        dim = len(shape)
    else:
        rad = spec[1]
        r0, r1 = (float(rad[0]), float(rad[1])) if isinstance(rad, (list, tuple)) else (0.0, float(rad))
        if kind in ("polar", "sph"):
            bounds, shape, periodic, axes = [(r0, r1)], [int(spec[2])], [False], ["r"]
            dim = 2 if kind == "polar" else 3
        else:
            bounds = [(r0, r1), (float(spec[2][0]), float(spec[2][1]))]
            shape, periodic, axes, dim = list(spec[3]), [False, bool(spec[4])], ["r", "z"], 3
    dx = [(b[1] - b[0]) / n for b, n in zip(bounds, shape)]
    centres = [[b[0] + (i + 0.5) * d for i in range(n)] for b, n, d in zip(bounds, shape, dx)]
    return {
        "kind": kind,
        "axes": axes,
        "bounds": bounds,
        "shape": shape,
        "periodic": periodic,
        "dim": dim,
        "dx": dx,
        "centres": centres,
        "num_axes": len(shape),
    }


def grid_name(spec):
    return repr(spec).replace(" ", "")


# boundary names per grid kind: name -> (axis, upper)
def side_names(geo):
    if geo["kind"] in ("unit", "cart"):
        names = {"left": (0, False), "right": (0, True)}
        if geo["num_axes"] > 1:
            names.update({"bottom": (1, False), "top": (1, True)})
        if geo["num_axes"] > 2:
            names.update({"back": (2, False), "front": (2, True)})
        return names
    if geo["kind"] in ("polar", "sph"):
        return {"inner": (0, False), "outer": (0, True)}
    return {"inner": (0, False), "outer": (0, True), "bottom": (1, False), "top": (1, True)}


SMALL_GRIDS = [
    ["unit", [3], [False]],
    ["cart", [[-1, 2]], [4], [False]],
    ["unit", [3], [True]],
    ["unit", [1], [False]],
    ["unit", [2], [False]],
    ["cart", [[0, 1], [-1, 3]], [2, 3], [False, False]],
    ["cart", [[0, 1], [-1, 3]], [3, 2], [True, False]],
    ["cart", [[0, 2], [0, 1]], [1, 3], [False, True]],
    ["cart", [[0, 1], [0, 2], [-3, 3]], [2, 3, 2], [False, True, False]],
    ["cart", [[0, 1], [0, 2], [0, 3]], [2, 2, 3], [False, False, False]],
    ["polar", [1, 2], 3],
    ["polar", 2, 3],
    ["sph", 2, 3],
    ["sph", [0.5, 2], 2],
    ["cyl", [1, 2], [0, 1], [2, 3], False],
    ["cyl", 2, [-1, 1], [3, 2], True],
]

MORE_GRIDS = [
    ["cart", [[1e-3, 3e-3]], [5], [False]],
    ["cart", [[0, 1], [0, 1]], [3, 3], [False, False]],
    ["cart", [[-2, -1], [5, 8]], [2, 4], [False, True]],
    ["cart", [[0, 3], [0, 2], [0, 1]], [3, 1, 2], [True, False, True]],
    ["polar", [0.5, 3], 5],
    ["sph", 1, 4],
    ["cyl", [0.5, 1.5], [-2, 2], [3, 4], True],
    ["cyl", 1, [0, 3], [2, 5], False],
]
