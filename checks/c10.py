"""C10 - interpreted rate, compiled rate and advertised expression agree.

Exhaustive enumeration (no sampling) of

* part "classes": equation class x parameter set x grid x boundary-condition assignment; the worker
  loops over t in {0, 1.3} and over the degree-3 determining set of DESIGN 1.4 (ALL points with
  support <= 3 and entries in {0, 1, 2, 3}; <= 1 789 points for <= 8 degrees of freedom) plus three
  generic states derived from ``VERIF_SEED``.  The predefined rates are polynomial maps of total degree
  <= 3 in the state (``c**3``, ``|grad c|**2``, everything else affine), therefore two routes that agree
  on the determining set compute the *same polynomial map* for this (grid, BCs, parameters, t).
* part "PDE grammar": ``PDE`` instances built from a grammar of right-hand sides: every term of
  ``TERMS`` alone and every pair ``Ti - 0.5*Tj`` (operators laplace / gradient_squared / d_dx /
  divergence(gradient) / dot, nested and non-linear operands, powers, a scalar and a field constant via
  ``consts``, a ``user_funcs`` function, coordinate dependence, explicit ``t``, ``integral``) x grid x BC variant (default, general
  inhomogeneous, time dependent, ``bc_ops`` for one operator by exact key, by ``*:op`` and by ``var:*``)
  and two coupled fields (operators of one field inside the equation of the other, ``bc_ops`` keyed by
  the *equation*).  Terms containing ``sin(c)`` are not polynomial in the state: for them the
  determining set is only a list of 175..1 789 well spread data points (stated in the outcome class).

* part "vector states": ``PDE`` instances on one ``VectorField`` or a collection of two (``VPROGS``): the product
  operators of the expression grammar with two *different* operands - ``tensor_divergence(outer(u, v))``,
  ``dot(outer(u, v), u)``, ``dot(v, outer(u, v))``, ``dot(u, v)*u``, ``outer(u, gradient(divergence(u)))`` - and
  ``vector_laplace`` / ``gradient(divergence(.))``, on 2-d, 3-d Cartesian and cylindrical grids x {default,
  inhomogeneous general condition, ``bc_ops`` for one operator}.  The rates are polynomials of degree <= 3: the
  complete determining set where it is affordable (<= 2 000 points quick / 20 000 thorough; degree-2 set for the
  bilinear program), otherwise ALL points with support <= 2 and entries in {0..3} (this pins every monomial in at
  most two variables, e.g. every entry of an outer product) + the generic states for the monomials in three
  variables (stated in the outcome class).  Routes: ``evolution_rate`` (numpy einsum), the numba rhs (mode I and a
  really compiled subset in mode J - the jitted ``outer`` / ``dot`` overloads exist only there) and a reference
  written with ``np.einsum`` and the differential operators of the field classes.

Routes
  R1  ``eq.evolution_rate(state, t).data``
  R2  ``eq.make_pde_rhs(state, backend=b)(state.data, t)`` for b in {numpy, numba}.  Mode I: the numba
      backend executes the very same Python source uncompiled; mode J (covering subset, one really
      compiled rate per (class, grid family in {1-d, 2-d, curvilinear}, BC kind in {default, distinct
      BCs, time dependent}), evaluated on the generic states + 50 determining points).
  R3  the generic ``PDE(eq.expressions or {"c": eq.expression}, bc=...)`` built from the text the class
      advertises, on both backends.
  REF an independent evaluation of the documented formula with the field API (``field.laplace(bc)``,
      ``field.gradient_squared(bc)``, numpy arithmetic) so that a defect common to R1-R3 is visible.

Oracle and tolerances.  All routes are float64 evaluations of the same handful of stencil sums, so
they may differ by re-association only: ``|R2 - R1|, |REF - R1| <= 1e-11 * max(1, mag)`` where ``mag``
(computed by REF) is the sum of the magnitudes of the individual terms of the formula including the
intermediate fields of nested operators (bounded with the operator norm ``NL = 2*sum(4/dx_a**2)``); this
is round-off (1e-16) x the number of operations with five orders of slack, nothing is tuned.
(The floor of every scale is not 1 but ``kappa`` = the sum of the absolute coefficients of the formula, i.e.
the magnitude of the rate for unit data, so that all comparisons stay relative when coefficients are tiny.)
R3 works with parameters printed by ``{:g}``: its tolerance is ``1e-12 * scale + 2 * sum_k rel_k * magp_k``
(<= ~50 floating point operations per entry on operands bounded by ``mag``: <= 1.2e-14 * mag between two
routes, two orders of slack; the largest deviation actually observed is reported as an outcome class)
where ``rel_k = |float(f"{q_k:g}") - q_k| / |q_k|`` is the *actual* printing error of every printed
coefficient ``q_k`` (computed here, independently of ``expr_prod``) and ``magp_k = |q_k| |T_k|`` is the
magnitude of the term this coefficient multiplies (from REF; the allowance is term by term, so an exactly
printed coefficient gets none from its neighbours): parameter set A (<= 6 significant
digits) prints exactly, so R3 must agree to round-off; set B (1/3-type values) gives <= 5e-6 per
coefficient, i.e. the "6 printed digits" (1e-5) of the property; set C (values 1, -1, 0) walks through
the special branches of ``expr_prod`` / ``isclose(mobility, 1)`` / ``mass == 0``; set D has tiny non-zero
printed coefficients (1e-9, 4e-9, -2.5e-9, which ``{:g}`` prints exactly: a text that shows them as ``0``
is wrong by 100 % of the term) and a huge one (1e9); set E has coefficients next to +-1: ``1 + 1e-6`` and
``-1 - 1e-7`` print as ``1`` / ``-1`` (printing error 1e-6 / 1e-7, inside the 6 digits and inside the
tolerance by construction), ``1 - 1e-6 = 0.999999`` has exactly 6 digits and must be printed.  D and E run
with homogeneous conditions (default, mixed(const 0) / value 0) so that R3 is compared for every class.

R3 is compared only where the expression text determines the BC wiring (rule per class; ``L[B]`` =
Laplacian with conditions B, ``G[B]`` = squared gradient):

* DiffusionPDE      class ``D L[bc] c``, text ``D*lap(c)``: one operator - always compared.
* AllenCahnPDE      class ``m (g L[bc] c - c^3 + c)``, text the same - always compared.
* KPZInterfacePDE   class ``nu L[bc] c + lambda G[bc] c``; the text uses ``laplace`` and
                    ``gradient_squared`` which both receive ``bc`` from ``PDE`` - always compared.
* WavePDE / KleinGordonPDE  one Laplacian of ``u`` inside the equation of ``v``; ``PDE`` resolves the
                    condition ``*:*`` - always compared.
* CahnHilliardPDE   class ``L[bc_mu](c^3 - c - g L[bc_c] c)``; the text has the same nesting, but both
                    ``laplace`` calls are ONE operator of ``PDE`` (``bc_ops`` is keyed by
                    (equation, operator name)) - compared iff ``bc_c == bc_mu`` (any affine condition,
                    also inhomogeneous and time dependent ones: nothing is distributed).
* KuramotoSivashinskyPDE  class ``-nu L[bc_lap](L[bc] c) - L[bc] c - G[bc] c / 2``, text
                    ``-lap(c + nu lap c) - |grad c|^2 / 2``: the text distributes the outer Laplacian over
                    a sum.  With ``L[B] x = A x + b``: ``L(c + nu L c) = L c + nu L(L c) - nu b``, so class
                    and text agree iff ``bc_lap == bc`` (or ``bc_lap is None``) AND the condition is
                    homogeneous linear (b = 0: default, value 0, derivative 0, mixed with const 0).
* SwiftHohenbergPDE class ``(eps - kc2^2) c - 2 kc2 L[bc] c - L[bc_lap](L[bc] c) + delta c^2 - c^3``, text
                    ``... - lap(2 kc2 c + lap c)``: same rule as Kuramoto-Sivashinsky (difference
                    ``2 kc2 b`` for affine conditions, by mathematics, not by defect).

Where R3 is not comparable the case still compares R1, R2 and REF (outcome class says which).

BC assignments of part "classes" (values are bumped by 0.1 on a second non-periodic axis, expression
conditions depend on ``t`` and on the other coordinate; periodic axes get "periodic"):
default (None); "auto_periodic_dirichlet"; value 0 / derivative 0; mixed(const 0) / value 0; value 1.2 /
derivative 0.5; derivative 1.2 / value 0.4; mixed / curvature; value_expression(t) /
derivative_expression(t); only one axis given (the rest left to the default the class adds); only one
*side* of an axis given (refused by py-pde, see below); on fully periodic grids: default, the string,
every axis spelled out.  Pairs (first operator | second operator): value 0 | derivative 0 and reverse,
value 1.2 | derivative 1.2 and reverse, value 0.8 | curvature 0.8 (same value, different class - the D1
family), value 1.2 | value 0.4, (value 1.2 / derivative 0.5) | (derivative 1.2 / value 0.5),
value_expression(t) | derivative 0.5 and reverse, default | value 1.2, value 1.2 | "auto_periodic_neumann",
(mixed / curvature) | value 1.2 (inhomogeneous second conditions - the D9 family).

Expression conditions given as a dict are re-parsed by sympy in every call of the field API (54 ms per
``evolution_rate``); for these cases the equation under exhaustive test receives the same conditions
parsed once (``grid.get_boundary_conditions(spec)``, a documented form of ``bc``) and a second equation
built from the dict is compared with it on the zero and the generic states (the conversion of the
specification does not depend on the state).

Loud refusals that are not violations (counted as ``refusals``): a specification that names only one
side of an axis (``bc={"x-": {"value": 1.2}}``) makes every route raise ``BCDataError`` because the
default ``"*": "auto_periodic_neumann"`` added by ``set_default_bc`` cannot complete half an axis;
expression conditions for vector operands (``divergence`` with a time dependent general ``bc``).

Each (class, parameter set, grid, BC assignment) is one case with fresh grid, equation and field
objects; the method cache of the numba backend is emptied at the start of a case so that every
violation replays from its own minimal case (``only`` = (t, state)).
See DESIGN.md, C10.
"""

from __future__ import annotations

import itertools

from checks._grids import geometry, grid_name, make_grid

PROPERTY = "C10"
LEVEL = "exploration"

TIMES = [0.0, 1.3]

# ----------------------------------------------------------------------------------------------
# alphabets (pure data - the parent process never imports pde)
# ----------------------------------------------------------------------------------------------

T13, T23 = 1 / 3, 2 / 3

# Parameter sets: A <= 6 significant digits (prints exactly); B 1/3-type values (6 printed digits);
# C the special values 1, -1, 0 (branches of expr_prod, isclose(mobility, 1), mass == 0);
# D tiny but non-zero printed coefficients (1e-9, 4e-9, -2.5e-9; for Wave/KleinGordon speed**2, mass**2 are
#   the printed coefficients) together with a huge one (mobility 1e9) where it multiplies the whole rate: the
#   text must carry them ("1e-09 * ..."), a term printed as 0 is wrong by 100 % of that term;
# E coefficients next to +-1: 1 + 1e-6 and -1 - 1e-7 print as "1" / "-1" (printing error 1e-6 / 1e-7, allowed:
#   6 significant digits), 1 - 1e-6 = 0.999999 has exactly 6 digits and must be printed.
#   (AllenCahnPDE.expression itself drops a mobility with isclose(mobility, 1); set E stays outside that zone.)
NEAR_P, NEAR_M, BELOW = 1 + 1e-6, -1 - 1e-7, 1 - 1e-6
CLASSES = {
    # fields, names of the two BC arguments (None: single ``bc``), parameter sets
    "DiffusionPDE": {"fields": 1, "two": None, "P": {
        "A": {"diffusivity": 0.7}, "B": {"diffusivity": T13}, "C": {"diffusivity": 1},
        "D": {"diffusivity": 1e-9}, "E": {"diffusivity": BELOW}}},
    "AllenCahnPDE": {"fields": 1, "two": None, "P": {
        "A": {"interface_width": 0.6, "mobility": 1.7},
        "B": {"interface_width": T23, "mobility": 3 / 7},
        "C": {"interface_width": -1, "mobility": 1},
        "D": {"interface_width": 4e-9, "mobility": 1e9},
        "E": {"interface_width": BELOW, "mobility": NEAR_M}}},
    "CahnHilliardPDE": {"fields": 1, "two": ("bc_c", "bc_mu"), "P": {
        "A": {"interface_width": 0.8}, "B": {"interface_width": T23}, "C": {"interface_width": 1},
        "D": {"interface_width": -2.5e-9}, "E": {"interface_width": NEAR_P}}},
    "KPZInterfacePDE": {"fields": 1, "two": None, "P": {
        "A": {"nu": 0.4, "lmbda": 1.3}, "B": {"nu": T13, "lmbda": -2 / 7}, "C": {"nu": 1, "lmbda": 0},
        "D": {"nu": 1e-9, "lmbda": 4e-9}, "E": {"nu": BELOW, "lmbda": NEAR_M}}},
    "KuramotoSivashinskyPDE": {"fields": 1, "two": ("bc", "bc_lap"), "P": {
        "A": {"nu": 0.9}, "B": {"nu": T13}, "C": {"nu": -1}, "D": {"nu": 4e-9}, "E": {"nu": NEAR_M}}},
    "SwiftHohenbergPDE": {"fields": 1, "two": ("bc", "bc_lap"), "P": {
        "A": {"rate": 0.2, "kc2": 0.7, "delta": 0.3},
        "B": {"rate": T13, "kc2": 2 / 7, "delta": -1 / 6},
        "C": {"rate": 1, "kc2": 1, "delta": 0},
        "D": {"rate": 1e-9, "kc2": 4e-9, "delta": -2.5e-9},
        # printed: rate - kc2**2 = 1 + 1e-6, delta = -1 - 1e-7, 2*kc2 = 0.999999
        "E": {"rate": NEAR_P + (BELOW / 2) ** 2, "kc2": BELOW / 2, "delta": NEAR_M}}},
    "WavePDE": {"fields": 2, "two": None, "P": {
        "A": {"speed": 1.4}, "B": {"speed": 4 / 3}, "C": {"speed": 1},
        "D": {"speed": 5e-5}, "E": {"speed": BELOW**0.5}}},
    "KleinGordonPDE": {"fields": 2, "two": None, "P": {
        "A": {"speed": 1.3, "mass": 0.6}, "B": {"speed": T23, "mass": 5 / 7}, "C": {"speed": -1, "mass": 0},
        "D": {"speed": 3e-5, "mass": 5e-5}, "E": {"speed": BELOW**0.5, "mass": NEAR_P**0.5}}},
}
# grid families on which the special sets C, D, E are run in the quick tier (all families in thorough)
EXTREME_FAMS_QUICK = ["1d", "2d", "spherical-hole"]

# grids: family -> spec per number of fields; "1" for scalar states, "2" for two-field states
# (<= 8 degrees of freedom in both cases)
GRIDS_QUICK = {
    "1d": {1: ["cart", [[0, 2]], [4], [False]], 2: ["cart", [[0, 1]], [2], [False]]},
    "1d-periodic": {1: ["cart", [[-1, 2]], [4], [True]], 2: ["cart", [[-1, 0.5]], [2], [True]]},
    "2d": {1: ["cart", [[0, 1], [-1, 3]], [2, 2], [True, False]], 2: ["cart", [[0, 0.5], [-1, 1]], [1, 2], [True, False]]},
    "polar": {1: ["polar", 2, 4], 2: ["polar", 1, 2]},
    "spherical-hole": {1: ["sph", [0.5, 2.5], 4], 2: ["sph", [0.5, 1.5], 2]},
    "cylindrical": {1: ["cyl", 2, [0, 1], [2, 2], False], 2: ["cyl", 1, [0, 0.5], [2, 1], True]},
}
GRIDS_THOROUGH = {
    "1d": {1: ["cart", [[0, 3]], [6], [False]], 2: ["cart", [[0, 2]], [4], [False]]},
    "1d-periodic": {1: ["cart", [[-1, 2]], [6], [True]], 2: ["cart", [[-1, 2]], [4], [True]]},
    "2d": {1: ["cart", [[0, 1.5], [-1, 3]], [3, 2], [True, False]], 2: ["cart", [[0, 1], [-1, 3]], [2, 2], [True, False]]},
    "polar": {1: ["polar", 3, 6], 2: ["polar", 2, 4]},
    "spherical-hole": {1: ["sph", [0.5, 3.5], 6], 2: ["sph", [0.5, 2.5], 4]},
    "cylindrical": {1: ["cyl", 2, [0, 1.5], [2, 3], False], 2: ["cyl", 2, [0, 1], [2, 2], False]},
    # additional members of the families (8 degrees of freedom, hole / periodic z, y periodic)
    "1d#8": {1: ["cart", [[0, 4]], [8], [False]], 2: None},
    "2d#yx": {1: ["cart", [[0, 2], [0, 3]], [2, 3], [False, True]], 2: ["cart", [[0, 2], [0, 1.5]], [2, 2], [False, True]]},
    "cylindrical#hole-periodic": {1: ["cyl", [1, 2], [-1, 1], [2, 4], True], 2: ["cyl", [1, 2], [-1, 1], [2, 2], True]},
    "polar#hole": {1: ["polar", [1, 3], 5], 2: ["polar", [1, 3], 4]},
    "spherical": {1: ["sph", 2, 5], 2: ["sph", 2, 4]},
}

# side templates: numbers are bumped by 0.1 per additional non-periodic axis (zeros stay zero) and
# "@" in expressions is replaced by a dependence on the other axis, so that axes are not symmetric
V = lambda x: {"value": x}  # noqa: E731
D = lambda x: {"derivative": x}  # noqa: E731
SIDES = {
    # name: (lower, upper, homogeneous linear?, time dependent?)
    "val0": (V(0), V(0), True, False),
    "der0": (D(0), D(0), True, False),
    "val0/der0": (V(0), D(0), True, False),
    "mixed0/val0": ({"type": "mixed", "value": 0.9, "const": 0}, V(0), True, False),
    "val1.2": (V(1.2), V(1.2), False, False),
    "der1.2": (D(1.2), D(1.2), False, False),
    "val0.4": (V(0.4), V(0.4), False, False),
    "der0.5": (D(0.5), D(0.5), False, False),
    "val0.8": (V(0.8), V(0.8), False, False),
    "curv0.8": ({"curvature": 0.8}, {"curvature": 0.8}, False, False),
    "val1.2/der0.5": (V(1.2), D(0.5), False, False),
    "der1.2/val0.5": (D(1.2), V(0.5), False, False),
    "der1.2/val0.4": (D(1.2), V(0.4), False, False),
    "mixed/curv": ({"type": "mixed", "value": 0.9, "const": 0.7}, {"curvature": 0.8}, False, False),
    "vexpr_t/dexpr_t": ({"value_expression": "1.1 + 0.5*t@"}, {"derivative_expression": "0.3 - t@"}, False, True),
    "vexpr_t": ({"value_expression": "1.1 + 0.5*t@"}, {"value_expression": "0.7 - 0.25*t"}, False, True),
    # conditions used by the PDE grammar
    "der0.4/val0.3": (D(0.4), V(0.3), False, False),
    "vexpr_t/der0.5": ({"value_expression": "1.1 + 0.5*t@"}, D(0.5), False, True),
}
# whole-grid specifications given as a string / special forms
SPECIAL = {
    "default": (True, False),  # None -> the default of the class
    "dirichlet0-str": (True, False),  # "auto_periodic_dirichlet"
    "neumann0-str": (True, False),  # "auto_periodic_neumann"
    "explicit": (True, False),  # every axis spelled out: periodic axes "periodic", others derivative 0
    # only the first non-periodic axis is specified (value 1.2 / derivative 0.5); periodic axes and further
    # axes are left to the default that the class adds ("*": auto_periodic_neumann)
    "partial-axis": (False, False),
    # only the lower side of the first non-periodic axis (value 1.2); the other side is left to the default
    "partial-side": (False, False),
}

ONE_KINDS = ["default", "dirichlet0-str", "val0/der0", "mixed0/val0", "val1.2/der0.5", "der1.2/val0.4",
             "mixed/curv", "vexpr_t/dexpr_t", "partial-axis", "partial-side"]
ONE_KINDS_PERIODIC = ["default", "dirichlet0-str", "explicit"]
ONE_KINDS_SET_C = ["default", "val1.2/der0.5"]
# sets D, E: homogeneous conditions, so that R3 is compared for every class (incl. KS / SH)
ONE_KINDS_EXTREME = ["default", "mixed0/val0", "explicit"]
PAIR_KINDS = [("val0", "der0"), ("der0", "val0"), ("val1.2", "der1.2"), ("der1.2", "val1.2"), ("val0.8", "curv0.8"),
              ("val1.2", "val0.4"), ("val1.2/der0.5", "der1.2/val0.5"), ("vexpr_t", "der0.5"), ("der0.5", "vexpr_t"),
              ("default", "val1.2"), ("val1.2", "neumann0-str"), ("mixed/curv", "val1.2")]
PAIR_KINDS_PERIODIC = [("explicit", "neumann0-str"), ("dirichlet0-str", "explicit")]


def bc_flags(kind):
    """(homogeneous linear, time dependent) of a BC kind"""
    if kind in SPECIAL:
        return SPECIAL[kind]
    return SIDES[kind][2], SIDES[kind][3]


def _inst(template, geo, axis, k):
    """instantiate a side template for the k-th non-periodic axis"""
    others = [a for i, a in enumerate(geo["axes"]) if i != axis]
    out = {}
    for key, val in template.items():
        if isinstance(val, str) and key != "type":
            out[key] = val.replace("@", f" + 0.25*{others[0]}" if others else "")
        elif isinstance(val, (int, float)) and key != "type" and val != 0:
            out[key] = round(val + 0.1 * k, 6)
        else:
            out[key] = val
    return out


def bc_spec(geo, kind):
    """a FRESH boundary specification (py-pde adds defaults to the dict it is given) for the real
    code and the complete, explicit specification the reference uses (equal unless ``partial``)"""
    free = [a for a in range(geo["num_axes"]) if not geo["periodic"][a]]
    if kind == "default":
        given = None
    elif kind == "dirichlet0-str":
        given = "auto_periodic_dirichlet"
    elif kind == "neumann0-str":
        given = "auto_periodic_neumann"
    if kind in ("default", "neumann0-str", "dirichlet0-str", "explicit"):
        full = {}
        for a, name in enumerate(geo["axes"]):
            full[name] = "periodic" if geo["periodic"][a] else ({"value": 0} if kind == "dirichlet0-str" else {"derivative": 0})
        if kind == "explicit":
            given = {k: (dict(v) if isinstance(v, dict) else v) for k, v in full.items()}
        return given, full
    if kind in ("partial-axis", "partial-side"):
        given, full = {}, {}
        for a, name in enumerate(geo["axes"]):
            if geo["periodic"][a]:
                full[name] = "periodic"
            elif a == free[0]:
                given[name + "-"] = {"value": 1.2}
                full[name + "-"], full[name + "+"] = {"value": 1.2}, {"derivative": 0}
                if kind == "partial-axis":
                    given[name + "+"], full[name + "+"] = {"derivative": 0.5}, {"derivative": 0.5}
            else:
                full[name] = {"derivative": 0}
        return given, full
    lo, hi = SIDES[kind][:2]
    given, full, k = {}, {}, 0
    for a, name in enumerate(geo["axes"]):
        if geo["periodic"][a]:
            given[name] = full[name] = "periodic"
        else:
            for sfx, tmpl in (("-", lo), ("+", hi)):
                given[name + sfx] = _inst(tmpl, geo, a, k)
                full[name + sfx] = _inst(tmpl, geo, a, k)
            k += 1
    return given, full


def determining_points(np, M, deg=3):
    """all points of R^M with support <= deg and entries in {0..deg}, simplest first"""
    pts = [np.zeros(M)]
    for k in range(1, deg + 1):
        for pos in itertools.combinations(range(M), k):
            for vals in itertools.product(range(1, deg + 1), repeat=k):
                p = np.zeros(M)
                p[list(pos)] = vals
                pts.append(p)
    return pts


def n_points(M, deg=3):
    from math import comb

    return sum(comb(M, k) * deg**k for k in range(deg + 1))


def generic_points(np, M, seed):
    rng = np.random.default_rng([int(seed), M, 10])
    return [rng.uniform(-1.0, 2.0, M), rng.uniform(-0.9, 0.9, M), rng.uniform(0.2, 2.5, M)]


def state_list(np, M, seed, only=None, reduced=False):
    """[(label, point)]: determining set then generic states (a replay evaluates one point)"""
    if only is not None:
        return [(only.get("label", "replay"), np.array(only["state"], dtype=float))]
    det = determining_points(np, M)
    if reduced:
        stride = max(1, len(det) // 50)
        off = int(seed) % stride
        det = [det[0]] + det[1 + off :: stride]
    out = [(f"det{i}", p) for i, p in enumerate(det)]
    out += [(f"generic{i}", p) for i, p in enumerate(generic_points(np, M, seed))]
    return out


def _nrm(np, a):
    return float(np.max(np.abs(a))) if np.size(a) else 0.0


def _clear_operator_cache():
    from pde.backends import get_backend

    nbk = get_backend("numba")
    if hasattr(nbk, "_cache_methods"):
        nbk._cache_methods = {}


def print_error(q):
    """relative error of the 6-digit text of a coefficient (0, 1, -1 are never printed)"""
    if q == 0:
        return 0.0
    return abs(float(f"{q:g}") - q) / abs(q)


def printed_coefficients(name, P):
    """the coefficients the class prints into its expression (independent of expr_prod)"""
    if name == "DiffusionPDE":
        return [P["diffusivity"]]
    if name == "AllenCahnPDE":
        return [P["interface_width"], P["mobility"]]
    if name == "CahnHilliardPDE":
        return [P["interface_width"]]
    if name == "KPZInterfacePDE":
        return [P["nu"], P["lmbda"]]
    if name == "KuramotoSivashinskyPDE":
        return [P["nu"]]
    if name == "SwiftHohenbergPDE":
        return [P["rate"] - P["kc2"] ** 2, P["delta"], 2 * P["kc2"]]
    if name == "WavePDE":
        return [P["speed"] ** 2]
    if name == "KleinGordonPDE":
        return [P["speed"] ** 2, P["mass"] ** 2]
    raise ValueError(name)


def unit_scale(name, P):
    """magnitude of the rate's terms for a state and boundary data of unit size (sum of the absolute
    coefficients of the documented formula): the floor of every comparison scale, so that tolerances stay
    *relative* when all coefficients are tiny"""
    a = abs
    if name == "DiffusionPDE":
        k = a(P["diffusivity"])
    elif name == "AllenCahnPDE":
        k = a(P["mobility"]) * (a(P["interface_width"]) + 2)
    elif name == "CahnHilliardPDE":
        k = 2 + a(P["interface_width"])
    elif name == "KPZInterfacePDE":
        k = a(P["nu"]) + a(P["lmbda"])
    elif name == "KuramotoSivashinskyPDE":
        k = a(P["nu"]) + 1.5
    elif name == "SwiftHohenbergPDE":
        k = a(P["rate"] - P["kc2"] ** 2) + 2 * a(P["kc2"]) + a(P["delta"]) + 2
    elif name == "WavePDE":
        k = 1 + P["speed"] ** 2
    else:
        k = 1 + P["speed"] ** 2 + P["mass"] ** 2
    return max(k, 1e-300)


def r3_rule(name, same_bc, hom):
    """(compare R3?, reason if not) - see the module docstring"""
    if name in ("DiffusionPDE", "AllenCahnPDE", "KPZInterfacePDE", "WavePDE", "KleinGordonPDE"):
        return True, ""
    if not same_bc:
        return False, "two different conditions cannot be written in the expression text"
    if name == "CahnHilliardPDE":
        return True, ""
    if hom:
        return True, ""
    return False, "expression distributes the outer Laplacian: differs for affine conditions by mathematics"


def reference_rate(np, name, P, grid, fields, B1, B2, t, NL):
    """the documented formula evaluated with the field API; returns (rate, magnitude of all terms and
    intermediate fields [round-off scale], list of the magnitudes |q_k| |T_k| of the terms multiplied by the
    printed coefficients q_k, in the order of ``printed_coefficients`` [scale of the printing error of the
    expression text, term by term])"""
    from pde import ScalarField

    args = {"t": t}
    n = lambda a: _nrm(np, a)  # noqa: E731
    c = fields[0]
    cd = c.data
    if name == "DiffusionPDE":
        lap = c.laplace(B1, args=args).data
        m = abs(P["diffusivity"]) * n(lap)
        return P["diffusivity"] * lap, m, [m]
    if name == "AllenCahnPDE":
        lap = c.laplace(B1, args=args).data
        g, m = P["interface_width"], P["mobility"]
        mag = abs(m) * (abs(g) * n(lap) + n(cd) ** 3 + n(cd))
        return m * (g * lap - cd**3 + cd), mag, [abs(m * g) * n(lap), mag]
    if name == "CahnHilliardPDE":
        g = P["interface_width"]
        lap = c.laplace(B1, args=args).data
        mu = ScalarField(grid, cd**3 - cd - g * lap)
        rate = mu.laplace(B2, args=args).data
        # printed: g, which multiplies A_mu(L_c c) (A = linear part of the outer Laplacian, |A x| <= NL |x|)
        return rate, n(rate) + NL * (n(cd) ** 3 + n(cd) + abs(g) * n(lap)), [abs(g) * NL * n(lap)]
    if name == "KPZInterfacePDE":
        lap = c.laplace(B1, args=args).data
        gs = c.gradient_squared(B1, args=args).data
        mag = abs(P["nu"]) * n(lap) + abs(P["lmbda"]) * n(gs)
        return P["nu"] * lap + P["lmbda"] * gs, mag, [abs(P["nu"]) * n(lap), abs(P["lmbda"]) * n(gs)]
    if name == "KuramotoSivashinskyPDE":
        nu = P["nu"]
        lapf = c.laplace(B1, args=args)
        lap = lapf.data.copy()
        lap2 = lapf.laplace(B2, args=args).data
        gs = c.gradient_squared(B1, args=args).data
        rate = -nu * lap2 - lap - 0.5 * gs
        # printed: nu, which multiplies L(L c) (R3 is compared for homogeneous conditions only: A = L)
        return rate, abs(nu) * n(lap2) + n(lap) + 0.5 * n(gs) + NL * (n(cd) + abs(nu) * n(lap)), [abs(nu) * n(lap2)]
    if name == "SwiftHohenbergPDE":
        eps, kc2, dl = P["rate"], P["kc2"], P["delta"]
        lapf = c.laplace(B1, args=args)
        lap = lapf.data.copy()
        lap2 = lapf.laplace(B2, args=args).data
        rate = eps * cd - kc2 * kc2 * cd - 2 * kc2 * lap - lap2 + dl * cd**2 - cd**3
        mag = (abs(eps) + kc2 * kc2) * n(cd) + 2 * abs(kc2) * n(lap) + n(lap2) + abs(dl) * n(cd) ** 2 + n(cd) ** 3
        magp = [abs(eps - kc2 * kc2) * n(cd), abs(dl) * n(cd) ** 2, 2 * abs(kc2) * n(lap)]
        return rate, mag + NL * (2 * abs(kc2) * n(cd) + n(lap)), magp
    u, v = fields
    lap = u.laplace(B1, args=args).data
    s2 = P["speed"] * P["speed"]
    if name == "WavePDE":
        return np.stack([v.data, s2 * lap]), n(v.data) + s2 * n(lap), [s2 * n(lap)]
    if name == "KleinGordonPDE":
        m2 = P["mass"] * P["mass"]
        return np.stack([v.data, s2 * lap - m2 * u.data]), n(v.data) + s2 * n(lap) + m2 * n(u.data), [s2 * n(lap), m2 * n(u.data)]
    raise ValueError(name)


def _bc_family(case):
    bc = case["bc"]
    if bc[0] == "default":
        return "default"
    if bc[0] == "one":
        return "same BC"
    two = CLASSES[case["cls"]]["two"]
    return f"{two[0]}!={two[1]}"


def class_case(case):
    """one (class, parameter set, grid, BC assignment): all t x all determining / generic states"""
    import numpy as np
    import pde as _pde  # noqa: F401
    from pde import PDE, FieldCollection, ScalarField
    from pde import pdes as _pdes

    from mc import core

    name, pset, spec, fam = case["cls"], case["pset"], case["grid"], case["fam"]
    info = CLASSES[name]
    P = dict(info["P"][pset])
    only = case.get("only")
    geo = geometry(spec)
    grid = make_grid(spec)
    _clear_operator_cache()
    cls = getattr(_pdes, name)
    bc = case["bc"]
    ka = "default" if bc[0] == "default" else bc[1]
    kb = bc[2] if bc[0] == "pair" else None
    hom = bc_flags(ka)[0] and (kb is None or bc_flags(kb)[0])
    same_bc = kb is None
    # ---- the equation (fresh specification objects for every consumer)
    # Expression conditions given as a dict are re-parsed by sympy on every call of the field API
    # (54 ms per evolution_rate): for them the equation under exhaustive test receives the conditions
    # parsed once (a BoundariesList is a documented form of ``bc``), and a second equation built from the
    # dict is compared with it on the zero and generic states (the conversion does not depend on the state).
    def given(kind, parse):
        spec_ = bc_spec(geo, kind)[0]
        return grid.get_boundary_conditions(spec_) if (parse and bc_flags(kind)[1]) else spec_

    def make_eq(parse):
        kw_ = dict(P)
        if info["two"] is None:
            kw_["bc"] = given(ka, parse)
        else:
            a1, a2 = info["two"]
            kw_[a1] = given(ka, parse)
            if kb is not None:
                kw_[a2] = given(kb, parse)
            elif name == "CahnHilliardPDE":
                kw_[a2] = given(ka, parse)  # bc_mu has its own default; "same BC" means the same for both
            # KS / SH: bc_lap=None means "the same as bc"
        return cls(**kw_), kw_

    eq, kw = make_eq(True)
    timedep = bc_flags(ka)[1] or (kb is not None and bc_flags(kb)[1])
    eq_dict = make_eq(False)[0] if timedep else None
    # ---- reference conditions (complete specification, parsed once)
    B1 = grid.get_boundary_conditions(bc_spec(geo, ka)[1])
    B2 = grid.get_boundary_conditions(bc_spec(geo, kb)[1]) if kb is not None else B1
    NL = 2 * sum(4 / d**2 for d in geo["dx"])
    nf = info["fields"]
    M = nf * int(np.prod(geo["shape"]))
    shape = ((nf,) if nf > 1 else ()) + tuple(geo["shape"])

    def mkstate(p):
        if nf == 1:
            return ScalarField(grid, p.reshape(shape))
        d = p.reshape(shape)
        return FieldCollection([ScalarField(grid, d[i]) for i in range(nf)])

    state0 = mkstate(np.zeros(M))
    if ka == "partial-side":
        # the default "*": "auto_periodic_neumann" that set_default_bc adds cannot complete an axis of
        # which only one side is given: every route refuses loudly (BCDataError) - not a wrong rate
        from pde.grids.boundaries.local import BCDataError

        refused = []
        for route in (lambda: eq.evolution_rate(state0.copy(), 0.0), lambda: eq.make_pde_rhs(state0, backend="numba")):
            try:
                route()
                refused.append(False)
            except BCDataError:
                refused.append(True)
        if all(refused):
            return {"nt": False, "n": 2, "out": "refused", "ref_only": True,
                    "ref": "one side of an axis given, other side left to the class default: BCDataError "
                           "('auto_periodic_neumann' not defined)"}
        if any(refused):
            return {"n": 2, "v": [{"sig": f"{name}|{fam}|same BC|only some routes refuse a one-sided specification",
                                   "msg": f"{name} bc={kw.get('bc')}: refused by (evolution_rate, compiled) = {refused}",
                                   "detail": None}]}
    rhs = {b: eq.make_pde_rhs(state0, backend=b) for b in ("numpy", "numba")}
    # ---- R3
    do3, why3 = r3_rule(name, same_bc, hom)
    rels = [print_error(q) for q in printed_coefficients(name, P)]
    rel3 = sum(rels)
    kappa = unit_scale(name, P)
    dev = {"R2/REF": 0.0, "R3": 0.0}  # largest observed deviation / scale (R3: beyond the printing allowance)
    rhs3, text = {}, None
    if do3:
        text = dict(eq.expressions) if hasattr(eq, "expressions") else {"c": eq.expression}
        eq3 = PDE(text, bc=bc_spec(geo, ka)[0])
        # (the numpy backend's rhs of a PDE is the wrapper around evolution_rate already compared as R2)
        rhs3 = {"numba rhs": eq3.make_pde_rhs(state0, backend="numba"),
                "evolution_rate": lambda d, t: eq3.evolution_rate(mkstate(d.reshape(-1)), t).data}
    famsig = f"{name}|{fam}|{_bc_family(case)}"
    viol, seen, n = [], set(), 0
    jit = core.mode() == "J"

    def bad(clause, label, p, t, got, exp, tol, extra=None):
        sig = f"{famsig}|{clause}"
        if sig in seen:
            return
        seen.add(sig)
        c2 = {k: v for k, v in case.items() if k != "only"}
        c2["only"] = {"t": t, "state": [float(x) for x in p], "label": label}
        with np.errstate(all="ignore"):
            diff = np.abs(np.asarray(got, dtype=float) - exp)
        shp = "" if np.shape(got) == exp.shape else f" [result has shape {np.shape(got)} instead of {exp.shape}]"
        viol.append({
            "sig": sig,
            "msg": f"{name}({P}) on {grid_name(spec)} bc={bc[1:] or 'default'} t={t} state[{label}]={[float(x) for x in p]}: "
                   f"{clause}: max diff {float(np.nanmax(diff)):.3g} (tolerance {tol:.3g}){shp}",
            "detail": {"got": np.asarray(got).tolist(), "expected": np.asarray(exp).tolist(), "params": P,
                       "bc_given": {k: repr(v)[:300] for k, v in kw.items() if k.startswith("bc")},
                       "expression": text, "extra": extra},
            "case": c2,
            "fn": "checks.c10:class_case",
        })

    def close(got, exp, tol):
        got = np.asarray(got)
        if got.shape != exp.shape:
            return False
        with np.errstate(all="ignore"):
            return bool(np.all(np.abs(got - exp) <= tol))

    def devof(got, exp):
        got = np.asarray(got)
        if got.shape != exp.shape:
            return float("inf")
        with np.errstate(all="ignore"):
            d = float(np.max(np.abs(got - exp)))
        return d if d == d else float("inf")

    def bucket(x):
        if x == 0:
            return "0 (bitwise)"
        for k in range(-16, -9):
            if x <= 10.0**k:
                return f"<= 1e{k}"
        return "> 1e-10"

    times = TIMES if only is None else [only["t"]]
    for t in times:
        for label, p in state_list(np, M, case.get("seed", 0), only, reduced=bool(case.get("reduced"))):
            state = mkstate(p)
            r1 = np.array(eq.evolution_rate(state.copy(), t).data)
            flds = [state] if nf == 1 else list(state)
            ref, mag, magp = reference_rate(np, name, P, grid, [f.copy() for f in flds], B1, B2, t, NL)
            scale = max(kappa, mag, _nrm(np, r1))
            tol = 1e-11 * scale
            n += 2
            dev["R2/REF"] = max(dev["R2/REF"], devof(ref, r1) / scale)
            if not close(ref, r1, tol):
                bad("evolution_rate differs from the documented formula (field API reference)", label, p, t, r1, ref, tol)
            for b, f in rhs.items():
                val = f(state.data.copy(), t)
                n += 1
                dev["R2/REF"] = max(dev["R2/REF"], devof(val, r1) / scale)
                if not close(val, r1, tol):
                    bad(f"{b} rhs differs from evolution_rate", label, p, t, val, r1, tol)
            if eq_dict is not None and (label.startswith("generic") or label in ("det0", "replay")):
                val = eq_dict.evolution_rate(state.copy(), t).data
                n += 1
                if not close(val, r1, tol):
                    bad("evolution_rate with conditions given as dict differs from the same conditions parsed once",
                        label, p, t, val, r1, tol)
            allow3 = 2 * sum(r * m for r, m in zip(rels, magp))  # printing error, term by term
            tol3 = 1e-12 * scale + allow3
            for b, f in rhs3.items():
                val = f(state.data.copy(), t)
                n += 1
                dev["R3"] = max(dev["R3"], max(0.0, devof(val, r1) - allow3) / scale)
                if not close(val, r1, tol3):
                    bad(f"PDE(expression) [{b}] differs from evolution_rate", label, p, t, val, r1, tol3,
                        extra={"printing_error": rel3})
    out3 = "R3 compared" + (" (exact printing)" if rel3 < 1e-14 else " (6 digits)") if do3 else f"R3 not comparable: {why3}"
    return {
        "v": viol[:6],
        "n": n,
        "keys": [f"{name}|{pset}|{grid_name(spec)}|{bc}|t={t}" for t in times],
        "outs": [out3, f"jit={jit}", f"observed |R2,REF - R1| / scale {bucket(dev['R2/REF'])}"]
                + ([f"observed |R3 - R1| / scale beyond the printing allowance {bucket(dev['R3'])}"] if do3 else []),
    }


# ----------------------------------------------------------------------------------------------
# PDE grammar
# ----------------------------------------------------------------------------------------------

# term name -> (text with {v} = operand field and {x} = first axis, differential operators with the rank of
# their operand (the operator name may contain {x}), polynomial in the state?)
TERMS = {
    "lap": ("laplace({v})", {"laplace": 0}, True),
    "gsq": ("gradient_squared({v})", {"gradient_squared": 0}, True),
    "ddx": ("d_d{x}({v})", {"d_d{x}": 0}, True),
    "divgrad": ("divergence(gradient({v}))", {"divergence": 1, "gradient": 0}, True),
    "dotgrad": ("dot(gradient({v}), gradient({v}))", {"gradient": 0}, True),
    "pow2": ("{v}**2", {}, True),
    "pow3": ("{v}**3", {}, True),
    "kc": ("k*{v}", {}, True),
    "fc": ("f*{v}", {}, True),
    "xc": ("{x}*{v}", {}, True),
    "time": ("t", {}, True),
    "cost": ("cos(t)*{v}", {}, True),
    "lapsq": ("laplace({v}**2)", {"laplace": 0}, True),
    "laplap": ("laplace(laplace({v}))", {"laplace": 0}, True),
    "cddx": ("{v}*d_d{x}({v})", {"d_d{x}": 0}, True),
    "divcgrad": ("divergence({v}*gradient({v}))", {"divergence": 1, "gradient": 0}, True),
    "intc": ("integral({v})*{v}", {}, True),
    "lapuser": ("laplace(sq({v}))", {"laplace": 0}, True),  # user_funcs: sq(x) = x*x + 1
    "sinc": ("sin({v})", {}, False),
}
TERM_ORDER = list(TERMS)
TWO_TERMS = ["lap", "gsq", "ddx", "xc", "fc", "lapsq"]
K_CONST = 0.7


def _user_sq(x):
    return x * x + 1.0

PGRIDS_QUICK = {
    "1d": {1: ["cart", [[0, 2]], [4], [False]], 2: ["cart", [[0, 1]], [2], [False]]},
    "2d": {1: ["cart", [[0, 1], [-1, 3]], [2, 2], [True, False]], 2: None},
    "spherical-hole": {1: ["sph", [0.5, 2.5], 4], 2: None},
}
PGRIDS_THOROUGH = {
    "1d": {1: ["cart", [[0, 3]], [6], [False]], 2: ["cart", [[0, 2]], [4], [False]]},
    "2d": {1: ["cart", [[0, 1.5], [-1, 3]], [3, 2], [True, False]], 2: ["cart", [[0, 1], [-1, 3]], [2, 2], [True, False]]},
    "spherical-hole": {1: ["sph", [0.5, 3.5], 6], 2: None},
    "cylindrical": {1: ["cyl", 2, [0, 1], [2, 2], False], 2: None},
    "1d-periodic": {1: ["cart", [[-1, 2]], [5], [True]], 2: None},
}
# SPEC_Y mirrors GEN (same values, the other class on each side): the D1 family inside ``PDE``
GEN, GEN_T, SPEC_X, SPEC_Y = "val1.2/der0.5", "vexpr_t/der0.5", "der0.4/val0.3", "der1.2/val0.5"


def term_ops(tname, x):
    return {op.replace("{x}", x): rank for op, rank in TERMS[tname][1].items()}


def program(case, geo):
    """-> (rhs dict, consts needed, {eq var: [(coefficient, term, operand)]}, extra pieces)"""
    x = geo["axes"][0]
    if case["kind"] == "single":
        terms = case["terms"]
        coefs = [1.0, -0.5][: len(terms)]
        txt = TERMS[terms[0]][0].format(v="c", x=x)
        if len(terms) == 2:
            txt += " - 0.5*" + TERMS[terms[1]][0].format(v="c", x=x)
        return {"c": txt}, {"c": [(a, tn, "c") for a, tn in zip(coefs, terms)]}
    ti, tj = case["terms"]
    rhs = {
        "u": TERMS[ti][0].format(v="u", x=x) + " - u*v",
        "v": "0.5*" + TERMS[tj][0].format(v="v", x=x) + " + u**2 - t + 0.25*laplace(u)",
    }
    return rhs, {"u": [(1.0, ti, "u")], "v": [(0.5, tj, "v"), (0.25, "lap", "u")]}


def program_ops(case, geo):
    """{eq var: {operator: rank}} of the program"""
    x = geo["axes"][0]
    if case["kind"] == "single":
        ops = {}
        for tn in case["terms"]:
            ops.update(term_ops(tn, x))
        return {"c": ops}
    ti, tj = case["terms"]
    ov = dict(term_ops(tj, x))
    ov["laplace"] = 0
    return {"u": term_ops(ti, x), "v": ov}


def variant_bcs(case, geo):
    """-> (general kind or 'default', {bc_ops key: kind}) for the BC variant of the case, or None if the
    variant does not exist for this program (no operator to attach a condition to)"""
    var = case["variant"]
    ops = program_ops(case, geo)
    if var == "default":
        return "default", {}
    if var == "general":
        return GEN, {}
    if var == "general_t":
        return GEN_T, {}
    if case["kind"] == "single":
        names = sorted(ops["c"])
        if not names:
            return None
        if var == "ops_exact_first":
            return GEN, {f"c:{names[0]}": SPEC_X}
        if var == "ops_wild_last":
            return GEN, {f"*:{names[-1]}": SPEC_Y}
        if var == "ops_var_all":
            return GEN, {"c:*": SPEC_X}
    else:
        if var == "ops_v_all":
            return GEN, {"v:*": SPEC_X}
        if var == "ops_exact":
            # the Laplacians of the equation of v get SPEC_Y; a Laplacian in the equation of u keeps GEN
            # (equal values, different classes - two operators of one PDE object that differ only by class)
            d = {"v:laplace": SPEC_Y}
            nu = sorted(ops["u"])
            if nu and nu[0] != "laplace":
                d[f"u:{nu[0]}"] = SPEC_X
            return GEN, d
        if var == "ops_wild_lap":
            return GEN_T, {"*:laplace": SPEC_Y}
    raise ValueError(var)


SINGLE_VARIANTS = ["default", "general", "general_t", "ops_exact_first", "ops_wild_last", "ops_var_all"]
TWO_VARIANTS = ["default", "general", "general_t", "ops_v_all", "ops_exact", "ops_wild_lap"]


def _resolve_kind(general, ops_map, eqvar, op):
    """the documented rule: a specialised condition of bc_ops (exact or wildcard key; the alphabet never
    contains two matching keys) else the general condition"""
    for key in (f"{eqvar}:{op}", f"{eqvar}:*", f"*:{op}"):
        if key in ops_map:
            return ops_map[key]
    return general


def eval_term(np, ctx, eqvar, tname, operand):
    """independent evaluation of one grammar term with the field API -> (values, magnitude)"""
    from pde import ScalarField, VectorField

    grid, args, x = ctx["grid"], ctx["args"], ctx["x"]
    f = ScalarField(grid, ctx["data"][operand])
    d = f.data
    n = lambda a: _nrm(np, a)  # noqa: E731
    bc = lambda op: ctx["bc"](eqvar, op)  # noqa: E731
    NL, ND = ctx["NL"], ctx["ND"]
    if tname == "lap":
        r = f.laplace(bc("laplace"), args=args).data
        return r, n(r)
    if tname == "gsq":
        r = f.gradient_squared(bc("gradient_squared"), args=args).data
        return r, n(r)
    if tname == "ddx":
        r = f.apply_operator(f"d_d{x}", bc(f"d_d{x}"), args=args).data
        return r, n(r)
    if tname == "divgrad":
        g = f.gradient(bc("gradient"), args=args)
        r = g.divergence(bc("divergence"), args=args).data
        return r, n(r) + ND * n(g.data)
    if tname == "dotgrad":
        g = f.gradient(bc("gradient"), args=args).data
        r = np.einsum("i...,i...->...", g, g)
        return r, n(r)
    if tname == "pow2":
        return d**2, n(d) ** 2
    if tname == "pow3":
        return d**3, n(d) ** 3
    if tname == "kc":
        return K_CONST * d, K_CONST * n(d)
    if tname == "fc":
        return ctx["fdata"] * d, n(ctx["fdata"]) * n(d)
    if tname == "xc":
        return ctx["x0"] * d, n(ctx["x0"]) * n(d)
    if tname == "time":
        return np.full(d.shape, float(ctx["t"])), abs(ctx["t"])
    if tname == "cost":
        return float(np.cos(ctx["t"])) * d, n(d)
    if tname == "lapsq":
        r = ScalarField(grid, d**2).laplace(bc("laplace"), args=args).data
        return r, n(r) + NL * n(d) ** 2
    if tname == "laplap":
        l1 = f.laplace(bc("laplace"), args=args)
        m1 = n(l1.data)
        r = l1.laplace(bc("laplace"), args=args).data
        return r, n(r) + NL * m1
    if tname == "cddx":
        r = f.apply_operator(f"d_d{x}", bc(f"d_d{x}"), args=args).data
        return d * r, n(d) * n(r)
    if tname == "divcgrad":
        g = f.gradient(bc("gradient"), args=args).data
        r = VectorField(grid, d * g).divergence(bc("divergence"), args=args).data
        return r, n(r) + ND * n(d) * n(g)
    if tname == "intc":
        tot = float(np.sum(d * grid.cell_volumes))
        return tot * d, abs(tot) * n(d)
    if tname == "lapuser":
        r = ScalarField(grid, d * d + 1.0).laplace(bc("laplace"), args=args).data
        return r, n(r) + NL * (n(d) ** 2 + 1.0)
    if tname == "sinc":
        return np.sin(d), 1.0
    raise ValueError(tname)


def pde_case(case):
    """one (program, grid, BC variant): evolution_rate vs make_pde_rhs[numpy, numba] vs reference"""
    import numpy as np
    from pde import PDE, FieldCollection, ScalarField

    from mc import core

    spec = case["grid"]
    only = case.get("only")
    geo = geometry(spec)
    vb = variant_bcs(case, geo)
    if vb is None:
        return {"nt": False, "out": "variant needs an operator", "n": 0}
    general, ops_map = vb
    grid = make_grid(spec)
    _clear_operator_cache()
    rhs_txt, terms = program(case, geo)
    opsinfo = program_ops(case, geo)
    variables = list(rhs_txt)
    nf = len(variables)
    ncell = int(np.prod(geo["shape"]))
    M = nf * ncell
    shape = ((nf,) if nf > 1 else ()) + tuple(geo["shape"])
    fdata = 0.5 + np.arange(ncell, dtype=float).reshape(geo["shape"]) / ncell
    centres = np.meshgrid(*[np.array(c) for c in geo["centres"]], indexing="ij")
    polynomial = all(TERMS[tn][2] for lst in terms.values() for _, tn, _ in lst)

    def consts():
        c = {}
        alltxt = " ".join(rhs_txt.values())
        if "k*" in alltxt:
            c["k"] = K_CONST
        if "f*" in alltxt:
            c["f"] = ScalarField(grid, fdata.copy())
        if c:  # an unused constant given FIRST: the insertion order then differs from every sorted order of the names
            c = {"zz": 3.5, **c}
        return c

    def build():
        kw = {"bc": bc_spec(geo, general)[0]}
        if ops_map:
            kw["bc_ops"] = {k: bc_spec(geo, kind)[0] for k, kind in ops_map.items()}
        cs = consts()
        if cs:
            kw["consts"] = cs
        if any("sq(" in txt for txt in rhs_txt.values()):
            kw["user_funcs"] = {"sq": _user_sq}
        return PDE(dict(rhs_txt), **kw)

    def mkstate(p):
        if nf == 1:
            return ScalarField(grid, p.reshape(shape))
        d = p.reshape(shape)
        return FieldCollection([ScalarField(grid, d[i]) for i in range(nf)])

    # expression conditions are refused for vector operands: a loud, documented refusal
    kinds_used = {}
    for ev, ops in opsinfo.items():
        for op, rank in ops.items():
            kinds_used[(ev, op)] = (_resolve_kind(general, ops_map, ev, op), rank)
    if any(rank > 0 and bc_flags(kind)[1] for kind, rank in kinds_used.values()):
        try:
            eq = build()
            eq.evolution_rate(mkstate(np.zeros(M)), 0.0)
        except NotImplementedError as e:
            if "scalar conditions" in str(e):
                return {"nt": False, "ref": "ExpressionBC for a vector operand: NotImplementedError", "out": "refused", "n": 1}
            raise
    parsed = {k: grid.get_boundary_conditions(bc_spec(geo, kind)[1], rank=rank) for k, (kind, rank) in kinds_used.items()}
    eq = build()  # R1 and the numpy backend
    eqn = build()  # a second, fresh object for the numba backend
    state0 = mkstate(np.zeros(M))
    routes = {
        "numpy rhs": eq.make_pde_rhs(state0, backend="numpy"),
        "numba rhs": eqn.make_pde_rhs(state0, backend="numba"),
        "numba rhs (same object)": eq.make_pde_rhs(state0, backend="numba"),
    }
    NL = 2 * sum(4 / d**2 for d in geo["dx"])
    ND = 6 * sum(1 / d for d in geo["dx"])
    progname = "+".join(case["terms"]) if case["kind"] == "single" else "two[" + ",".join(case["terms"]) + "]"
    famsig = f"PDE|{progname}|{case['variant']}"  # (the grid family is part of the message, not of the signature)
    viol, seen, n = [], set(), 0

    def bad(clause, label, p, t, got, exp, tol):
        sig = f"{famsig}|{clause}"
        if sig in seen:
            return
        seen.add(sig)
        c2 = {k: v for k, v in case.items() if k != "only"}
        c2["only"] = {"t": t, "state": [float(x) for x in p], "label": label}
        with np.errstate(all="ignore"):
            diff = np.abs(np.asarray(got, dtype=float) - exp)
        viol.append({
            "sig": sig,
            "msg": f"PDE({rhs_txt}) on {grid_name(spec)} bc={general} bc_ops={ops_map} t={t} state[{label}]="
                   f"{[float(x) for x in p]}: {clause}: max diff {float(np.nanmax(diff)):.3g} (tolerance {tol:.3g})",
            "detail": {"got": np.asarray(got, dtype=float).tolist(), "expected": np.asarray(exp).tolist(),
                       "bc": repr(bc_spec(geo, general)[0]), "bc_ops": {k: repr(bc_spec(geo, v)[0]) for k, v in ops_map.items()}},
            "case": c2,
            "fn": "checks.c10:pde_case",
        })

    def close(got, exp, tol):
        got = np.asarray(got, dtype=float)
        try:
            got = np.broadcast_to(got, exp.shape)  # a rate that does not depend on the state may be a scalar
        except ValueError:
            return False
        with np.errstate(all="ignore"):
            return bool(np.all(np.abs(got - exp) <= tol))

    times = TIMES if only is None else [only["t"]]
    for t in times:
        for label, p in state_list(np, M, case.get("seed", 0), only, reduced=bool(case.get("reduced"))):
            state = mkstate(p)
            data = p.reshape(shape)
            ctx = {
                "grid": grid, "args": {"t": t}, "t": t, "x": geo["axes"][0], "NL": NL, "ND": ND, "fdata": fdata,
                "x0": centres[0], "data": {v: (data if nf == 1 else data[i]) for i, v in enumerate(variables)},
                "bc": lambda ev, op: parsed[(ev, op)],
            }
            ref, mag = [], 0.0
            for ev in variables:
                tot, m = np.zeros(geo["shape"]), 0.0
                for a, tn, operand in terms[ev]:
                    val, tm = eval_term(np, ctx, ev, tn, operand)
                    tot = tot + a * val
                    m += abs(a) * tm
                if case["kind"] == "two":
                    u, v = ctx["data"]["u"], ctx["data"]["v"]
                    if ev == "u":
                        tot = tot - u * v
                        m += _nrm(np, u) * _nrm(np, v)
                    else:
                        tot = tot + u**2 - t
                        m += _nrm(np, u) ** 2 + abs(t)
                ref.append(tot)
                mag = max(mag, m)
            ref = ref[0] if nf == 1 else np.stack(ref)
            r1 = np.array(eq.evolution_rate(state.copy(), t).data)
            n += 2
            tol = 1e-11 * max(1.0, mag, _nrm(np, r1))
            if not close(r1, ref, tol):
                bad("evolution_rate differs from the term-by-term field API reference", label, p, t, r1, ref, tol)
            for rname, f in routes.items():
                val = f(state.data.copy(), t)
                n += 1
                if not close(val, r1, tol):
                    bad(f"{rname} differs from evolution_rate", label, p, t, val, r1, tol)
    return {
        "v": viol[:6],
        "n": n,
        "keys": [f"{progname}|{grid_name(spec)}|{case['variant']}|t={t}" for t in times],
        "outs": ["polynomial rate (determining set complete)" if polynomial else
                 "non-polynomial rate (determining set = data points only)", f"jit={core.mode() == 'J'}"],
    }


# ----------------------------------------------------------------------------------------------
# vector states: product operators (outer, dot) with two DIFFERENT operands
# ----------------------------------------------------------------------------------------------

# program -> rhs, degree of the rate as a polynomial of the state, differential operators per equation with the
# rank of their operand, the (equation, operator) that receives its own condition in the ``ops`` variant.
# Every product has two different operands (u and v, or u and grad div u), so that a transposed or
# swapped product is visible; ``outer(p, p)`` would be symmetric.
VPROGS = {
    "P1": {"rhs": {"u": "tensor_divergence(outer(u, v))", "v": "tensor_divergence(outer(v, u)) - dot(u, v)*v"}, "deg": 3,
           "ops": {"u": {"tensor_divergence": 2}, "v": {"tensor_divergence": 2}}, "special": ("u", "tensor_divergence")},
    "P2": {"rhs": {"u": "dot(outer(u, v), u) + t*u", "v": "vector_laplace(v) + dot(u, v)*u"}, "deg": 3,
           "ops": {"u": {}, "v": {"vector_laplace": 1}}, "special": ("v", "vector_laplace")},
    "P3": {"rhs": {"u": "vector_laplace(u) - dot(u, v)*u", "v": "gradient(divergence(v)) + dot(v, outer(u, v))"}, "deg": 3,
           "ops": {"u": {"vector_laplace": 1}, "v": {"divergence": 1, "gradient": 0}}, "special": ("u", "vector_laplace")},
    "Q1": {"rhs": {"u": "tensor_divergence(outer(u, gradient(divergence(u))))"}, "deg": 2,
           "ops": {"u": {"tensor_divergence": 2, "divergence": 1, "gradient": 0}}, "special": ("u", "tensor_divergence")},
    "Q2": {"rhs": {"u": "dot(outer(u, gradient(divergence(u))), u)"}, "deg": 3,
           "ops": {"u": {"divergence": 1, "gradient": 0}}, "special": ("u", "divergence")},
    "Q3": {"rhs": {"u": "vector_laplace(u) + gradient(divergence(u)) - dot(u, u)*u + t*u"}, "deg": 3,
           "ops": {"u": {"vector_laplace": 1, "divergence": 1, "gradient": 0}}, "special": ("u", "vector_laplace")},
}
VVARIANTS = ["default", "general", "ops"]
# family -> grid per number of vector fields
VGRIDS_QUICK = {
    "2d": {1: ["cart", [[0, 1], [-1, 3]], [2, 2], [True, False]], 2: ["cart", [[0, 1], [-1, 3]], [2, 2], [True, False]]},
    "3d": {1: ["cart", [[0, 1], [0, 2], [0, 1.5]], [2, 2, 1], [False, True, True]],
           2: ["cart", [[0, 1], [0, 2], [0, 1.5]], [2, 2, 1], [False, True, True]]},
    "cylindrical": {1: ["cyl", 2, [0, 1], [2, 2], False], 2: None},
}
VGRIDS_THOROUGH = {
    "2d": {1: ["cart", [[0, 1.5], [-1, 3]], [3, 2], [True, False]], 2: ["cart", [[0, 1], [-1, 3]], [2, 2], [True, False]]},
    "3d": {1: ["cart", [[0, 1], [0, 2], [0, 1.5]], [2, 2, 2], [False, True, False]],
           2: ["cart", [[0, 1], [0, 2], [0, 1.5]], [2, 2, 1], [False, True, True]]},
    "cylindrical": {1: ["cyl", 2, [0, 1], [2, 2], False], 2: ["cyl", 2, [0, 1], [2, 2], False]},
    "2d#yx": {1: ["cart", [[0, 2], [0, 1.5]], [2, 2], [False, True]], 2: None},
}
V_FULL_LIMIT = {"quick": 2000, "thorough": 20000}  # complete degree-3 set if it has at most this many points


def support_points(np, M, support, maxval):
    """all points of R^M with at most ``support`` non-zero entries from {1..maxval}, simplest first"""
    pts = [np.zeros(M)]
    for k in range(1, support + 1):
        for pos in itertools.combinations(range(M), k):
            for vals in itertools.product(range(1, maxval + 1), repeat=k):
                q = np.zeros(M)
                q[list(pos)] = vals
                pts.append(q)
    return pts


def vector_reference(np, prog, grid, data, bc, t, NL, ND):
    """the right-hand sides of VPROGS written with np.einsum and the differential operators of the field
    classes; ``data[var]`` has shape (dim, *grid.shape); returns (rate, magnitude of terms and intermediates)"""
    from pde import ScalarField, Tensor2Field, VectorField

    n = lambda a: _nrm(np, a)  # noqa: E731
    outer = lambda a, b: np.einsum("i...,j...->ij...", a, b)  # noqa: E731
    dot = lambda a, b: np.einsum("i...,i...->...", a, b)  # noqa: E731
    tdiv = lambda ev, T: Tensor2Field(grid, T).divergence(bc(ev, "tensor_divergence")).data  # noqa: E731
    vlap = lambda ev, a: VectorField(grid, a).laplace(bc(ev, "vector_laplace")).data  # noqa: E731

    def graddiv(ev, a):
        d = VectorField(grid, a).divergence(bc(ev, "divergence")).data
        return ScalarField(grid, d).gradient(bc(ev, "gradient")).data, n(d)

    u = data["u"]
    if prog == "P1":
        v = data["v"]
        ouv, ovu = outer(u, v), outer(v, u)
        r = [tdiv("u", ouv), tdiv("v", ovu) - dot(u, v) * v]
        mag = n(r[0]) + n(r[1]) + ND * (n(ouv) + 2) + n(u) * n(v) ** 2
    elif prog == "P2":
        v = data["v"]
        lv = vlap("v", v)
        r = [np.einsum("ij...,j...->i...", outer(u, v), u) + t * u, lv + dot(u, v) * u]
        mag = n(u) ** 2 * n(v) + abs(t) * n(u) + n(lv) + NL * (n(v) + 2)
    elif prog == "P3":
        v = data["v"]
        lu = vlap("u", u)
        w, md = graddiv("v", v)
        r = [lu - dot(u, v) * u, w + np.einsum("i...,ij...->j...", v, outer(u, v))]
        mag = n(lu) + NL * (n(u) + 2) + n(u) ** 2 * n(v) + n(w) + ND * (md + 2) + n(u) * n(v) ** 2
    elif prog == "Q1":
        w, md = graddiv("u", u)
        o = outer(u, w)
        r = [tdiv("u", o)]
        mag = n(r[0]) + ND * (n(o) + 2) + n(u) * ND * (md + 2)
    elif prog == "Q2":
        w, md = graddiv("u", u)
        r = [np.einsum("ij...,j...->i...", outer(u, w), u)]
        mag = n(u) ** 2 * (n(w) + ND * (md + 2))
    elif prog == "Q3":
        lu = vlap("u", u)
        w, md = graddiv("u", u)
        r = [lu + w - dot(u, u) * u + t * u]
        mag = n(lu) + NL * (n(u) + 2) + n(w) + ND * (md + 2) + n(u) ** 3 + abs(t) * n(u)
    else:
        raise ValueError(prog)
    return (r[0] if len(r) == 1 else np.concatenate(r)), mag


def vector_case(case):
    """one (vector program, grid, BC variant): evolution_rate vs compiled numba rhs vs einsum/field reference"""
    import numpy as np
    from pde import PDE, FieldCollection, VectorField

    from mc import core

    prog, spec, variant = case["vprog"], case["grid"], case["variant"]
    info = VPROGS[prog]
    only = case.get("only")
    geo = geometry(spec)
    grid = make_grid(spec)
    _clear_operator_cache()
    variables = list(info["rhs"])
    nf, dim = len(variables), geo["dim"]
    ncell = int(np.prod(geo["shape"]))
    M = nf * dim * ncell
    general = "default" if variant == "default" else GEN
    ops_map = {"%s:%s" % info["special"]: SPEC_X} if variant == "ops" else {}

    def build():
        kw = {"bc": bc_spec(geo, general)[0]}
        if ops_map:
            kw["bc_ops"] = {k: bc_spec(geo, kind)[0] for k, kind in ops_map.items()}
        return PDE(dict(info["rhs"]), **kw)

    parsed = {}
    for ev, ops in info["ops"].items():
        for op, rank in ops.items():
            kind = _resolve_kind(general, ops_map, ev, op)
            parsed[(ev, op)] = grid.get_boundary_conditions(bc_spec(geo, kind)[1], rank=rank)

    def mkstate(p):
        d = p.reshape((nf, dim) + tuple(geo["shape"]))
        fields = [VectorField(grid, d[i]) for i in range(nf)]
        return fields[0] if nf == 1 else FieldCollection(fields)

    eq, eqn = build(), build()
    state0 = mkstate(np.zeros(M))
    rhs_numba = eqn.make_pde_rhs(state0, backend="numba")
    NL = 2 * sum(4 / d**2 for d in geo["dx"])
    ND = 6 * sum(1 / d for d in geo["dx"])
    tier_limit = V_FULL_LIMIT["thorough" if case.get("thorough") else "quick"]
    # states: complete determining set of the degree of the program if affordable, otherwise all points with
    # support <= 2 and entries in {0..3} (pins every monomial in at most two variables) + the generic states
    if only is not None:
        states, complete = [(only.get("label", "replay"), np.array(only["state"], dtype=float))], None
    else:
        deg = info["deg"]
        if deg <= 2:
            det, complete = support_points(np, M, 2, 2), True
        elif n_points(M) <= tier_limit:
            det, complete = determining_points(np, M), True
        else:
            det, complete = support_points(np, M, 2, 3), False
        if case.get("reduced"):
            stride = max(1, len(det) // 60)
            det = [det[0]] + det[1 + int(case.get("seed", 0)) % stride :: stride]
        states = [(f"det{i}", q) for i, q in enumerate(det)]
        states += [(f"generic{i}", q) for i, q in enumerate(generic_points(np, M, case.get("seed", 0)))]
    famsig = f"PDEvec|{prog}|{variant}"
    viol, seen, n = [], set(), 0

    def bad(clause, label, p, t, got, exp, tol):
        sig = f"{famsig}|{clause}"
        if sig in seen:
            return
        seen.add(sig)
        c2 = {k: v for k, v in case.items() if k != "only"}
        c2["only"] = {"t": t, "state": [float(x) for x in p], "label": label}
        with np.errstate(all="ignore"):
            diff = np.abs(np.asarray(got, dtype=float) - exp) if np.shape(got) == exp.shape else np.array([np.inf])
        viol.append({
            "sig": sig,
            "msg": f"PDE({info['rhs']}) on {grid_name(spec)} ({nf} vector field(s)) bc={general} bc_ops={ops_map} t={t} "
                   f"state[{label}] (flattened (field, component, cell))={[float(x) for x in p]}: {clause}: "
                   f"max diff {float(np.nanmax(diff)):.3g} (tolerance {tol:.3g})",
            "detail": {"got": np.asarray(got, dtype=float).tolist(), "expected": np.asarray(exp).tolist(),
                       "bc": repr(bc_spec(geo, general)[0]), "bc_ops": {k: repr(bc_spec(geo, v)[0]) for k, v in ops_map.items()}},
            "case": c2,
            "fn": "checks.c10:vector_case",
        })

    def close(got, exp, tol):
        got = np.asarray(got)
        if got.shape != exp.shape:
            return False
        with np.errstate(all="ignore"):
            return bool(np.all(np.abs(got - exp) <= tol))

    times = TIMES if only is None else [only["t"]]
    for t in times:
        for label, p in states:
            state = mkstate(p)
            d = p.reshape((nf, dim) + tuple(geo["shape"]))
            data = {v: d[i] for i, v in enumerate(variables)}
            ref, mag = vector_reference(np, prog, grid, data, lambda ev, op: parsed[(ev, op)], t, NL, ND)
            r1 = np.array(eq.evolution_rate(state.copy(), t).data)
            val = rhs_numba(state.data.copy(), t)
            n += 3
            tol = 1e-11 * max(1.0, mag, _nrm(np, r1))
            if not close(r1, ref, tol):
                bad("evolution_rate differs from the einsum / field-method reference", label, p, t, r1, ref, tol)
            if not close(val, r1, tol):
                bad("numba rhs differs from evolution_rate", label, p, t, val, r1, tol)
    out = ("replay" if complete is None else
           f"degree-{info['deg']} determining set complete" if complete else
           "support <= 2 points + generic states (monomials in three variables only on the generic states)")
    return {
        "v": viol[:4],
        "n": n,
        "keys": [f"{prog}|{grid_name(spec)}|{variant}|t={t}" for t in times],
        "outs": [out, f"jit={core.mode() == 'J'}"],
    }


def vector_cases(vgrids, seed, tier):
    cases = []
    for fam, by_nf in vgrids.items():
        for prog, info in VPROGS.items():
            spec = by_nf[len(info["rhs"])]
            if spec is None:
                continue
            for var in VVARIANTS:
                cases.append({"vprog": prog, "fam": fam, "grid": spec, "variant": var, "seed": seed,
                              "thorough": tier == "thorough"})
    return cases


def vector_jit_cases(vgrids, seed, tier):
    """really compiled vector programs (a two-field compile costs 20-60 s: few in quick)"""
    if tier == "quick":
        # measured CPU per compiled case: P1 (two vector fields) 65 s, Q1 33 s, Q2 24 s, Q3 34 s; P2, P3 and the 3-d
        # grids (60-150 s each) are compiled in the thorough tier only
        sel = [("P1", "2d", "default"), ("Q1", "2d", "general"), ("Q2", "cylindrical", "default"), ("Q3", "2d", "ops")]
    else:
        sel = [(p_, f, VVARIANTS[(i + j) % 3]) for i, p_ in enumerate(VPROGS) for j, f in enumerate(["2d", "3d", "cylindrical"])]
    cases = []
    for prog, fam, var in sel:
        spec = vgrids[fam][len(VPROGS[prog]["rhs"])]
        if spec is not None:
            cases.append({"vprog": prog, "fam": fam, "grid": spec, "variant": var, "seed": seed, "reduced": True,
                          "thorough": tier == "thorough"})
    return cases


# ----------------------------------------------------------------------------------------------


def compiled_case(case):
    """mode J: dispatch to the workers (violations carry the worker that replays them)"""
    if "vprog" in case:
        return vector_case(case)
    return class_case(case) if "cls" in case else pde_case(case)


def class_cases(grids, seed, extreme_fams=None):
    cases = []
    for fam, by_nf in grids.items():
        for name, info in CLASSES.items():
            spec = by_nf[info["fields"]]
            if spec is None:
                continue
            geo = geometry(spec)
            periodic = all(geo["periodic"])
            for pset in ("A", "B", "C", "D", "E"):
                ones = ONE_KINDS_PERIODIC if periodic else ONE_KINDS
                pairs = PAIR_KINDS_PERIODIC if periodic else PAIR_KINDS
                if pset in "CDE" and extreme_fams is not None and fam not in extreme_fams:
                    continue
                if pset == "C":
                    ones = [k for k in ones if k in ONE_KINDS_SET_C]
                    pairs = []
                if pset in "DE":
                    ones = [k for k in ones if k in ONE_KINDS_EXTREME]
                    pairs = []
                if geo["num_axes"] == 1:
                    ones = [k for k in ones if k != "partial-axis"]  # identical to val1.2/der0.5 on one axis
                for k in ones:
                    bc = ["default"] if k == "default" else ["one", k]
                    cases.append({"cls": name, "pset": pset, "fam": fam.split("#")[0], "grid": spec, "bc": bc, "seed": seed})
                if info["two"] is not None:
                    for a, b in pairs:
                        cases.append({"cls": name, "pset": pset, "fam": fam.split("#")[0], "grid": spec,
                                      "bc": ["pair", a, b], "seed": seed})
    return cases


def pde_cases(pgrids, seed, tier):
    cases = []
    singles = [[t] for t in TERM_ORDER]
    lead = TERM_ORDER if tier == "thorough" else TERM_ORDER[:2]
    pairs = [[a, b] for i, a in enumerate(TERM_ORDER) for b in TERM_ORDER[i + 1 :] if a in lead]
    for fam, by_nf in pgrids.items():
        if by_nf[1] is not None:
            geo = geometry(by_nf[1])
            for terms in singles + pairs:
                for var in SINGLE_VARIANTS:
                    if tier == "quick" and len(terms) == 2 and var == "general":
                        continue  # quick: pairs get the general condition in its time dependent form only
                    c = {"kind": "single", "terms": terms, "fam": fam, "grid": by_nf[1], "variant": var, "seed": seed}
                    if variant_bcs(c, geo) is None:
                        continue
                    if all(geo["periodic"]) and var != "default":
                        continue
                    cases.append(c)
        if by_nf[2] is not None:
            for ti in TWO_TERMS:
                for tj in TWO_TERMS:
                    for var in TWO_VARIANTS:
                        cases.append({"kind": "two", "terms": [ti, tj], "fam": fam, "grid": by_nf[2], "variant": var, "seed": seed})
    return cases


def jit_cases(grids, pgrids, seed, tier):
    """the covering subset that is really compiled"""
    fams = {"1-d": ["1d"], "2-d": ["2d"], "curvilinear": ["polar", "spherical-hole", "cylindrical"]}
    kinds = ["default", "distinct", "timedep"]
    ccases = []
    for ci, (name, info) in enumerate(CLASSES.items()):
        for ki, kind in enumerate(kinds):
            if kind == "distinct" and info["two"] is None:
                continue
            for fi, (fname, members) in enumerate(fams.items()):
                if tier == "quick" and fi != (ci + ki) % 3:
                    continue
                fam = members[(ci + ki) % len(members)]
                spec = grids[fam][info["fields"]]
                if kind == "default":
                    bcs = [["default"]]
                elif kind == "distinct":
                    bcs = [["pair", "val1.2", "der1.2"]] + ([["pair", "mixed/curv", "val1.2"], ["pair", "der0", "val0"]] if tier == "thorough" and fi == ci % 3 else [])
                else:
                    bcs = [["one", "vexpr_t/dexpr_t"]]
                    if info["two"] is not None and tier == "thorough":
                        bcs.append(["pair", "vexpr_t", "der0.5"])
                for bc in bcs:
                    ccases.append({"cls": name, "pset": "AB"[(ci + ki + fi) % 2], "fam": fam, "grid": spec, "bc": bc,
                                   "seed": seed, "reduced": True})
    pcases = []
    progs = [(["lap", "pow2"], "1d", "general_t"), (["lapsq", "cddx"], "1d", "ops_exact_first"),
             (["gsq", "xc"], "1d", "ops_wild_last"),
             (["divcgrad", "dotgrad"], "2d", "general"), (["lapsq", "fc"], "spherical-hole", "ops_var_all"),
             (["intc", "time"], "1d", "default")]
    if tier == "thorough":
        progs += [(["laplap"], "1d", "general_t"), (["divgrad", "sinc"], "2d", "ops_exact_first")]
        progs += [([t], "2d" if i % 2 else "spherical-hole", SINGLE_VARIANTS[1 + i % 5]) for i, t in enumerate(TERM_ORDER)]
    for terms, fam, var in progs:
        c = {"kind": "single", "terms": terms, "fam": fam, "grid": pgrids[fam][1], "variant": var, "seed": seed, "reduced": True}
        if variant_bcs(c, geometry(c["grid"])) is not None:
            pcases.append(c)
    two = [(["lap", "gsq"], "ops_exact")]
    if tier == "thorough":
        two += [(["xc", "lap"], "ops_wild_lap"), (["ddx", "fc"], "ops_v_all"), (["lapsq", "lapsq"], "general_t")]
    for terms, var in two:
        pcases.append({"kind": "two", "terms": terms, "fam": "1d", "grid": pgrids["1d"][2], "variant": var, "seed": seed,
                       "reduced": True})
    return ccases, pcases


def main(run):
    tier = run.tier
    only = getattr(run, "only", None)
    grids = GRIDS_THOROUGH if tier == "thorough" else GRIDS_QUICK
    pgrids = PGRIDS_THOROUGH if tier == "thorough" else PGRIDS_QUICK
    if not only or "jit" in only:
        run.pool("J")  # let the JIT workers import numba / pde while the interpreted parts run
    ccases = class_cases(grids, run.seed, EXTREME_FAMS_QUICK if tier == "quick" else None)
    # expensive cases first, so that the pool stays balanced
    cost = lambda c: -n_points(CLASSES[c["cls"]]["fields"] * _ncell(c["grid"]))  # noqa: E731
    ccases.sort(key=cost)
    if not only or "classes" in only:
        run.explore("checks.c10:class_case", ccases, mode="I", part="classes (interpreted kernels)", chunksize=1, limit=1800)
    pcases = pde_cases(pgrids, run.seed, tier)
    pcases.sort(key=lambda c: -n_points((2 if c["kind"] == "two" else 1) * _ncell(c["grid"])))
    if not only or "grammar" in only:
        run.explore("checks.c10:pde_case", pcases, mode="I", part="PDE grammar (interpreted kernels)", chunksize=2, limit=1800)
    vgrids = VGRIDS_THOROUGH if tier == "thorough" else VGRIDS_QUICK
    vcases = vector_cases(vgrids, run.seed, tier)
    vcases.sort(key=lambda c: -len(VPROGS[c["vprog"]]["rhs"]) * geometry(c["grid"])["dim"] * _ncell(c["grid"]))
    if not only or "vector" in only:
        run.explore("checks.c10:vector_case", vcases, mode="I", part="vector states (interpreted kernels)", chunksize=1,
                    limit=1800)
    jc, jp = jit_cases(grids, pgrids, run.seed, tier)
    jv = vector_jit_cases(vgrids, run.seed, tier)
    if not only or "jit" in only:
        # one pool round for all kinds of compiled cases; the slow ones (two vector fields, grammar programs) first
        jv.sort(key=lambda c: -len(VPROGS[c["vprog"]]["rhs"]))
        run.explore("checks.c10:compiled_case", jv + jp + jc, mode="J", part="compiled rates (classes + grammar + vector)",
                    chunksize=1, limit=3600)
    run.notes["state_space"] = {
        "determining_set": "all points with support <= 3 and entries in {0,1,2,3}",
        "points_by_degrees_of_freedom": {M: n_points(M) for M in (3, 4, 5, 6, 8)},
        "generic_states_per_case": 3,
        "times": TIMES,
        "class_cases": len(ccases), "grammar_cases": len(pcases), "vector_cases": len(vcases),
        "compiled_cases": len(jc) + len(jp) + len(jv),
    }
    run.notes["observations"] = [
        "KPZInterfacePDE: the class docstring gives the non-linear term as (lambda/2)|grad h|^2, whereas evolution_rate, "
        "make_evolution_rate and `expression` all use lmbda*|grad h|^2 (and the argument text says 'strength of the gradient "
        "term'); the three routes agree with each other, the reference follows the implementation (documentation mismatch, "
        "not counted as a violation of C10)",
        "a PDE whose right-hand side does not contain the field (e.g. 't') returns a scalar from the compiled numba rhs "
        "instead of an array; compared by broadcasting",
        "bc={'x-': {'value': 1.2}} (one side of an axis) given to a predefined class or to PDE raises BCDataError "
        "('auto_periodic_neumann' not defined): set_default_bc adds '*': 'auto_periodic_neumann', which the parser pairs "
        "with the given side and cannot resolve; all routes refuse alike (loud, counted under refusals)",
    ]
    run.assumptions += [
        "the predefined rates are polynomial maps of total degree <= 3 in the state for fixed (grid, BCs, parameters, t); "
        "agreement on the determining set then implies equality of the maps (for sin(c) terms the set is only a list of data points)",
        "the reference evaluates the documented formulas with field.laplace / gradient_squared / gradient / divergence "
        "(interpreted BCs + operator without BCs); the operators themselves are the subject of C01-C03",
        "the method cache of the numba backend is emptied at the start of every case (replays are self-contained); leaks "
        "between equations are the subject of C04",
        "mode J: covering subset (every class x BC kind, grid family rotated in quick / complete in thorough) on the "
        "generic states + every k-th determining point (offset rotated by VERIF_SEED)",
        "bc_ops alphabets never contain two keys that match the same (equation, operator): the precedence among several "
        "matching keys is not documented",
    ]
    return (
        "every (class, parameter set A/B/C, grid of 6 families, BC assignment: 9 single conditions incl. inhomogeneous, mixed, "
        "curvature, partial, time dependent; 12 pairs of different conditions for the two operators of CahnHilliard/"
        "KuramotoSivashinsky/SwiftHohenberg) x t in {0, 1.3} x (degree-3 determining set + 3 generic states): evolution_rate vs "
        "make_pde_rhs[numpy, numba] vs PDE(expression)[evolution_rate, numpy, numba] vs field-API reference; every grammar program "
        "(terms and pairs, two coupled fields) x grid x BC/bc_ops variant likewise; 6 programs on one / two VectorFields "
        "(outer and dot products with two different operands under tensor_divergence / dot, vector_laplace, "
        "gradient(divergence)) x 2-d / 3-d / cylindrical grids x 3 BC variants; really compiled covering subset; "
        "distinct = distinct (class or program, parameters, grid, BC assignment, t)"
    )


def _ncell(spec):
    n = 1
    for s in geometry(spec)["shape"]:
        n *= s
    return n
