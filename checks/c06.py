"""C06 - time steppers realise their scheme exactly, on every backend.

Exhaustive enumeration of (solver, backend, rate a, dt, steps, t_start, state kind) on the linear
test equation du/dt = a u + g(t) with closed-form oracles (amplification factors, AB2 recursion,
quadrature sums for the stage times), adaptive stepping (exact end time, error bound, backend
agreement) and the really compiled steppers (mode J).  See DESIGN.md, C06.
"""

from __future__ import annotations

import math

PROPERTY = "C06"
LEVEL = "exploration"

SOLVERS = ["euler", "runge-kutta", "implicit", "crank-nicolson", "adams-bashforth"]
BACKENDS = ["numpy", "numba"]
RATES = ["-1.0", "-0.5", "0.3", "2.0", "(-3+2j)", "1j", "multi"]  # "multi": one rate per cell
DTS = [1.0, 0.25, 0.1, 1 / 3, 0.01]
STEPS = [1, 2, 3, 5]
T0S = [0.0, 1.5, -2.0]
POLY = (1.0, 2.0, 3.0, 4.0)  # g(t) = 1 + 2t + 3t^2 + 4t^3
ITER = {"maxerror": 1e-15, "maxiter": 1000}


def _rate(name):
    if name == "multi":
        return None
    return complex(name) if "j" in name else float(name)


def _g(t):
    return sum(c * t**k for k, c in enumerate(POLY))


def _states(L, a_is_complex, kind):
    np = L["np"]
    if kind == "scalar2":
        g = L["UnitGrid"]([2])
        data = np.array([1.0, -2.5])
        if a_is_complex:
            data = data + np.array([0.5j, 1j])
        return L["ScalarField"](g, data)
    # vector field on a 2x2 grid (8 degrees of freedom)
    from pde import VectorField

    g = L["UnitGrid"]([2, 2])
    data = np.arange(1.0, 9.0).reshape(2, 2, 2) / 4 - 1.1
    if a_is_complex:
        data = data * (1 + 0.25j)
    return VectorField(g, data)


def fixed_group(case):
    """all steps x t_start x state kinds for one (solver, backend, a, dt)"""
    from checks import _sim

    L = _sim.lib()
    np = L["np"]
    solver, backend, aname, dt = case["solver"], case["backend"], case["a"], case["dt"]
    only = case.get("only")
    viol, n, keys, outs, refs = [], 0, [], set(), []

    def bad(clause, N, t0, kind, **detail):
        c = dict(case)
        c["only"] = [N, t0, kind]
        viol.append(
            {
                "sig": f"fixed|{solver}|{backend}|{clause}",
                "msg": f"{clause}: a={aname} dt={dt} steps={N} t0={t0} state={kind} {detail}",
                "detail": detail,
                "case": c,
                "fn": "checks.c06:fixed_group",
            }
        )

    for kind in ("scalar2", "vector2x2"):
        if aname == "multi" and kind != "scalar2":
            continue
        a = _rate(aname)
        if a is None:
            a = np.array([-0.5, -2.0])
        is_c = isinstance(a, complex)
        amax = float(np.max(np.abs(a)))
        z = a * dt
        if solver in ("implicit", "crank-nicolson") and amax * dt >= 0.7:
            refs.append(f"{solver}: |z|>=0.7 fixed-point iteration not contractive enough (not explored)")
            continue
        thorough = case.get("tier") == "thorough"
        for N in STEPS + ([8, 13] if thorough else []):
            for t0 in T0S + ([1e3, 0.1] if thorough else []):
                if only and [N, t0, kind] != only:
                    continue
                log = []
                eq = L["Lin"](a, log=log)
                s0 = _states(L, is_c, kind)
                kw = dict(ITER) if solver in ("implicit", "crank-nicolson") else {}
                res, info = eq.solve(
                    s0, (t0, t0 + N * dt), dt=dt, solver=solver, backend=backend, tracker=None, ret_info=True, **kw
                )
                n += 1
                u0 = s0.data.astype(complex)
                if solver == "adams-bashforth":
                    exp = _sim.ab2_sequence(z, u0, N)[-1]
                else:
                    exp = u0 * _sim.stable_factor(solver, z) ** N
                scale = max(1.0, float(np.max(np.abs(exp))))
                err = float(np.max(np.abs(res.data - exp)))
                if not err <= 1e-11 * scale:
                    bad("state differs from the scheme's closed form", N, t0, kind, err=err,
                        got=str(res.data.ravel()[:2]), exp=str(exp.ravel()[:2]))
                if info["solver"]["steps"] != N:
                    bad("reported steps != N", N, t0, kind, steps=info["solver"]["steps"])
                if abs(info["controller"]["t_final"] - (t0 + N * dt)) > 1e-9 * dt:
                    bad("t_final != t_end", N, t0, kind, t_final=info["controller"]["t_final"])
                # stage times: required <= observed <= allowed
                tk = [t0 + k * dt for k in range(N)]
                if solver == "euler":
                    req = set(tk)
                    allowed = req
                elif solver == "runge-kutta":
                    req = set(tk) | {t + dt / 2 for t in tk} | {t + dt for t in tk}
                    allowed = req
                elif solver == "implicit":
                    req = {t + dt for t in tk}
                    allowed = req | set(tk)
                elif solver == "crank-nicolson":
                    req = set(tk) | {t + dt for t in tk}
                    allowed = req
                else:
                    req = set(tk) | {t - dt for t in tk}
                    allowed = req
                obs = set(log)

                def near(x, S):
                    return any(abs(x - y) <= 1e-12 * max(1.0, abs(y)) + 1e-9 * dt * 0 for y in S)

                miss = [t for t in req if not near(t, obs)]
                extra = [t for t in obs if not near(t, allowed)]
                if miss or extra:
                    bad("rate evaluated at times that are not the stage times", N, t0, kind,
                        missing=sorted(miss), unexpected=sorted(extra))
                keys.append(f"{solver}|{backend}|{aname}|{dt}|{N}|{t0}|{kind}")
                outs.add("ok")
    return {"v": viol[:12], "n": n, "keys": keys, "outs": sorted(outs), "ref": refs, "nt": bool(keys)}


def stage_group(case):
    """a = 0, g cubic: the result is the quadrature sum of the scheme, which pins stage times and weights"""
    from checks import _sim

    L = _sim.lib()
    np = L["np"]
    solver, backend = case["solver"], case["backend"]
    viol, n, keys = [], 0, []
    for dt in (0.1, 0.25, 1 / 3):
        for t0 in T0S:
            for N in (1, 3, 4):
                for a in (0.0, -0.5):
                    eq = L["Lin"](a, poly=POLY)
                    s0 = _states(L, False, "scalar2")
                    # the convergence criterion is absolute; states reach O(100) here
                    kw = {"maxerror": 1e-13, "maxiter": 1000} if solver in ("implicit", "crank-nicolson") else {}
                    res = eq.solve(s0, (t0, t0 + N * dt), dt=dt, solver=solver, backend=backend, tracker=None, **kw)
                    n += 1
                    # exact recursion of the scheme for du/dt = a u + g(t) (scalar, per cell)
                    z = a * dt
                    u = s0.data.astype(float).copy()
                    um = None
                    for k in range(N):
                        t = t0 + k * dt
                        if solver == "euler":
                            u = u + dt * (a * u + _g(t))
                        elif solver == "runge-kutta":
                            k1 = dt * (a * u + _g(t))
                            k2 = dt * (a * (u + k1 / 2) + _g(t + dt / 2))
                            k3 = dt * (a * (u + k2 / 2) + _g(t + dt / 2))
                            k4 = dt * (a * (u + k3) + _g(t + dt))
                            u = u + (k1 + 2 * k2 + 2 * k3 + k4) / 6
                        elif solver == "implicit":
                            u = (u + dt * _g(t + dt)) / (1 - z)
                        elif solver == "crank-nicolson":
                            u = (u * (1 + z / 2) + dt / 2 * (_g(t) + _g(t + dt))) / (1 - z / 2)
                        else:
                            if um is None:
                                um = u - dt * (a * u + _g(t))
                            u, um = u + dt * (1.5 * (a * u + _g(t)) - 0.5 * (a * um + _g(t - dt))), u
                    scale = max(1.0, float(np.max(np.abs(u))))
                    err = float(np.max(np.abs(res.data - u)))
                    if not err <= 1e-11 * scale:
                        viol.append(
                            {
                                "sig": f"stage|{solver}|{backend}|time-dependent rate not evaluated at the stage times",
                                "msg": f"du/dt={a}u+g(t): dt={dt} t0={t0} N={N}: err={err} got={res.data} exp={u}",
                                "detail": {"dt": dt, "t0": t0, "N": N, "a": a},
                            }
                        )
                    keys.append(f"{solver}|{backend}|{dt}|{t0}|{N}|{a}")
    return {"v": viol[:6], "n": n, "keys": keys}


def scipy_group(case):
    from checks import _sim

    L = _sim.lib()
    np = L["np"]
    backend = case["backend"]
    viol, n, keys = [], 0, []
    for lam in (0.5, 1.0, 5.0):
        for T in (0.3, 1.0, 2.7):
            for t0 in T0S:
                for dt in (None, 0.1):
                    eq = L["Lin"](-lam)
                    s0 = _states(L, False, "scalar2")
                    res, info = eq.solve(s0, (t0, t0 + T), dt=dt, solver="scipy", backend=backend, tracker=None,
                                         ret_info=True)
                    n += 1
                    exp = s0.data * math.exp(-lam * T)
                    err = float(np.max(np.abs(res.data - exp)))
                    tf = info["controller"]["t_final"]
                    # solve_ivp defaults: rtol=1e-3, atol=1e-6 per step; global error on a decaying problem
                    if tf != t0 + T:
                        viol.append({"sig": f"scipy|{backend}|t_final != t_end", "msg": f"lam={lam} T={T} t0={t0}: {tf}",
                                     "detail": None})
                    if not err <= 1e-2 * float(np.max(np.abs(s0.data))):
                        viol.append({"sig": f"scipy|{backend}|error beyond the integrator tolerance",
                                     "msg": f"lam={lam} T={T} t0={t0} dt={dt}: err={err}", "detail": None})
                    keys.append(f"scipy|{backend}|{lam}|{T}|{t0}|{dt}")
    return {"v": viol[:6], "n": n, "keys": keys}


ADAPT_LAMS = ["0.5", "1.0", "5.0", "multi"]
ADAPT_T = [0.3, 1.0, 2.7, 1 / 3, 0.7, 0.1, 2 / 3]
ADAPT_TOL = [1e-2, 1e-3, 1e-4, 1e-6]
ADAPT_DT0 = [1e-3, 0.1, 10.0]
# starts below zero with the end near or above zero make t + (t_end - t) round (defect D10 family)
ADAPT_T0 = [0.5, 0.0, 1e3, -2.0, -1.0] + [-k / 10 for k in range(1, 10)] + [-1 / 3, -2 / 3]


def adaptive_group(case):
    """adaptive euler / runge-kutta: exact end time, error bound, agreement of the backends"""
    from checks import _sim

    L = _sim.lib()
    np = L["np"]
    solver, lamname = case["solver"], case["lam"]
    only = case.get("only")
    viol, n, keys, outs = [], 0, [], set()

    def bad(clause, backend, T, tol, dt0, t0, **detail):
        c = dict(case)
        c["only"] = [T, tol, dt0, t0]
        viol.append(
            {
                "sig": f"adaptive|{solver}|{backend}|{clause}",
                "msg": f"{clause}: lam={lamname} T={T} tol={tol} dt0={dt0} t0={t0} {detail}",
                "detail": detail,
                "case": c,
                "fn": "checks.c06:adaptive_group",
            }
        )

    lam = np.array([0.5, 4.0]) if lamname == "multi" else float(lamname)
    thorough = case.get("tier") == "thorough"
    for T in ADAPT_T + ([10.0, 0.05] if thorough else []):
        for tol in ADAPT_TOL + ([1e-1, 1e-5] if thorough else []):
            for dt0 in ADAPT_DT0 + ([1e-5, 1.0] if thorough else []):
                for t0 in ADAPT_T0 + ([-k / 7 for k in range(1, 7)] + [-1e-3, -10.0, 7.3] if thorough else []):
                    if only and [T, tol, dt0, t0] != only:
                        continue
                    results = {}
                    for backend in BACKENDS:
                        eq = L["Lin"](-lam)
                        s0 = _states(L, False, "scalar2")
                        t1 = t0 + T
                        res, info = eq.solve(
                            s0, (t0, t1), dt=dt0, solver=solver, backend=backend, tracker=None,
                            ret_info=True, adaptive=True, tolerance=tol,
                        )
                        n += 1
                        steps = info["solver"]["steps"]
                        tf = info["controller"]["t_final"]
                        exp = s0.data * np.exp(-lam * (t1 - t0))
                        err = float(np.max(np.abs(res.data - exp)))
                        if tf != t1:
                            # does the family of candidate defect D10 explain it?  (a one-ulp shortfall
                            # of t + (t_end - t) followed by one extra step of dt_min)
                            bad("t_final != t_end", backend, T, tol, dt0, t0, t_final=repr(tf), t_end=repr(t1),
                                diff=tf - t1)
                        if steps < 1:
                            bad("no step taken", backend, T, tol, dt0, t0)
                        if not err <= steps * tol:
                            # two families: an excess of a few percent is the higher-order term of the embedded pair (the
                            # controller bounds |y5 - y4| while the 4th-order solution is returned); anything larger is not
                            small = err <= 1.1 * steps * tol
                            bad("global error exceeds steps*tolerance" + (" by less than 10 percent" if small else ""),
                                backend, T, tol, dt0, t0, err=err, steps=steps)
                        results[backend] = res.data.copy()
                        outs.add(f"steps~{min(steps, 10**int(math.log10(steps)))}")
                    d = float(np.max(np.abs(results["numpy"] - results["numba"])))
                    if not d <= 2 * tol * max(1, 1):
                        bad("numpy and numba differ by more than the tolerance", "both", T, tol, dt0, t0, diff=d)
                    keys.append(f"{solver}|{lamname}|{T}|{tol}|{dt0}|{t0}")
    return {"v": viol[:12], "n": n, "keys": keys, "outs": sorted(outs)}


def jit_group(case):
    """really compiled steppers: the numba stepper is compiled once and driven through the
    (t_start, steps, state) sub-alphabet; compared with the numpy stepper and the closed form"""
    from checks import _sim

    L = _sim.lib()
    np = L["np"]
    from pde.solvers.base import SolverBase

    solver, aname, dt, adaptive, td = case["solver"], case["a"], case["dt"], case["adaptive"], case["td"]
    a = _rate(aname)
    is_c = isinstance(a, complex)
    viol, n, keys = [], 0, []
    eq = L["Lin"](a, poly=POLY if td else None)
    kw = dict(ITER) if solver in ("implicit", "crank-nicolson") else {}
    if kw and td:
        kw["maxerror"] = 1e-13  # absolute criterion; the forced states reach O(100)
    if adaptive:
        kw = {"adaptive": True, "tolerance": 1e-4}

    def mk(backend):
        s = _states(L, is_c, "scalar2")
        sol = SolverBase.from_name(solver, pde=eq, backend=backend, **kw)
        return sol, sol.make_stepper(state=s, dt=dt)

    steppers = {}
    for t0 in T0S:
        for N in (1, 2, 5):
            out = {}
            for backend in BACKENDS:
                if backend not in steppers or solver == "adams-bashforth":
                    steppers[backend] = mk(backend)  # AB keeps its history inside the stepper
                sol, stepper = steppers[backend]
                s = _states(L, is_c, "scalar2")
                if adaptive:
                    sol.info["dt"] = dt
                steps0 = sol.info["steps"]
                tf = stepper(s, t0, t0 + N * dt)
                n += 1
                out[backend] = (s.data.copy(), sol.info["steps"] - steps0, tf)
            d = float(np.max(np.abs(out["numpy"][0] - out["numba"][0])))
            tol = 1e-3 if adaptive else 1e-12
            sig = f"jit|{solver}|{'adaptive' if adaptive else 'fixed'}|"
            if not d <= tol * max(1.0, float(np.max(np.abs(out["numpy"][0])))):
                viol.append({"sig": sig + "compiled stepper differs from interpreted stepper",
                             "msg": f"a={aname} dt={dt} t0={t0} N={N} td={td}: diff={d}", "detail": None})
            if not adaptive:
                if out["numpy"][1] != N or out["numba"][1] != N:
                    viol.append({"sig": sig + "steps != N", "msg": f"{out['numpy'][1]} {out['numba'][1]} N={N}", "detail": None})
                if not td:
                    u0 = _states(L, is_c, "scalar2").data.astype(complex)
                    z = a * dt
                    exp = _sim.ab2_sequence(z, u0, N)[-1] if solver == "adams-bashforth" else u0 * _sim.stable_factor(solver, z) ** N
                    e = float(np.max(np.abs(out["numba"][0] - exp)))
                    if not e <= 1e-11 * max(1.0, float(np.max(np.abs(exp)))):
                        viol.append({"sig": sig + "compiled stepper differs from the closed form",
                                     "msg": f"a={aname} dt={dt} t0={t0} N={N}: err={e}", "detail": None})
            else:
                for b in BACKENDS:
                    if out[b][2] != t0 + N * dt:
                        viol.append({"sig": sig + f"{b}|t_final != t_end", "msg": f"t0={t0} N={N} dt={dt}: {out[b][2]!r}",
                                     "detail": None})
            keys.append(f"{solver}|{aname}|{dt}|{adaptive}|{td}|{t0}|{N}")
    return {"v": viol[:8], "n": n, "keys": keys}


def main(run):
    tier = run.tier
    dts = DTS + [0.5, 0.05, 0.7, 1e-3] if tier == "thorough" else [1.0, 0.1, 1 / 3, 0.01]
    rates = RATES + (["0.7", "(-0.25+0.5j)", "-5.0", "(0.5-1j)"] if tier == "thorough" else [])
    cases = [
        {"solver": s, "backend": b, "a": a, "dt": dt, "tier": tier}
        for s in SOLVERS
        for b in BACKENDS
        for a in rates
        for dt in dts
    ]
    run.explore("checks.c06:fixed_group", cases, mode="I", part="fixed-step closed forms")
    cases = [{"solver": s, "backend": b} for s in SOLVERS for b in BACKENDS]
    run.explore("checks.c06:stage_group", cases, mode="I", part="stage times (quadrature sums)", chunksize=1)
    run.explore("checks.c06:scipy_group", [{"backend": b} for b in BACKENDS], mode="I", part="scipy solver", chunksize=1)
    lams = ADAPT_LAMS + (["0.1", "2.0", "20.0"] if tier == "thorough" else [])
    cases = [{"solver": s, "lam": l, "tier": tier} for s in ("euler", "runge-kutta") for l in lams]
    run.explore("checks.c06:adaptive_group", cases, mode="I", part="adaptive", chunksize=1, limit=1200)
    jc = []
    for s in SOLVERS:
        for a in ("-0.5", "(-0.3+0.2j)"):
            for dt in ([0.1] if tier == "quick" else [0.1, 1 / 3, 0.01]):
                jc.append({"solver": s, "a": a, "dt": dt, "adaptive": False, "td": False})
        jc.append({"solver": s, "a": "-0.5", "dt": 0.25, "adaptive": False, "td": True})
    for s in ("euler", "runge-kutta"):
        jc.append({"solver": s, "a": "-0.5", "dt": 0.1, "adaptive": True, "td": False})
        if tier == "thorough":
            jc.append({"solver": s, "a": "-2.0", "dt": 0.01, "adaptive": True, "td": True})
    run.explore("checks.c06:jit_group", jc, mode="J", part="compiled steppers", chunksize=1, limit=1200)
    run.assumptions += [
        "iterative schemes are run with maxerror=1e-15, maxiter=1000 and |a dt| < 0.7 ('iterations converged')",
        "adaptive error bound steps*tolerance is claimed only for the autonomous dissipative linear problems of the alphabet",
        "mode J drives each compiled stepper through (t_start, steps) after one compile; rate and dt are baked in",
    ]
    return (
        "all (solver, backend, rate a incl. complex and per-cell rates, dt) x steps x t_start x {2-cell scalar, 2x2 vector} "
        "against closed-form amplification factors / AB2 recursion / logged stage times; cubic-in-time forcing against the "
        "scheme's exact recursion; scipy solver; adaptive euler/RK45 over (lambda, T, tolerance, initial dt, t_start incl. "
        "negative starts) for exact end time, error <= steps*tol and backend agreement; compiled steppers vs interpreted"
    )
