"""Independent continuum oracle for the differential operators of all coordinate systems.

No curvilinear formula is written by hand: a field given by its local components
``c_i(r[, z])`` is embedded into Cartesian space (``v = sum_i c_i e_i(x, y, z)``), the *Cartesian*
operator is applied component-wise with sympy and the result is projected back on the local basis.

Two uses:

* ``coefficients(system, op, element)``: the operator is linear with coefficient functions of the
  coordinates multiplying ``c, d_a c, d_a^2 c``; the coefficients are extracted by applying the
  operator to polynomial probe functions centred at a symbolic point.  Replacing the derivatives by
  central (forward / backward) differences gives the *documented stencil* mechanically.
* ``smooth_case(system, op, comps)``: the exact continuum value of the operator on given smooth
  component expressions (for the convergence-order check).

Component order of every system here is *grid axes followed by symmetric axes*:
polar (r, phi), cylindrical (r, z, phi), spherical (r, theta, phi), Cartesian (x, y, z).
"""

from __future__ import annotations

import functools
import math

PHI0, THETA0 = 0.3, 0.9  # generic angles at which results are evaluated
PHI1, THETA1 = 1.1, 2.0  # second pair: results must not depend on the angles

RANKS = {
    "laplace": (0, 0),
    "gradient": (0, 1),
    "gradient_squared": (0, 0),
    "divergence": (1, 0),
    "vector_gradient": (1, 2),
    "vector_laplace": (1, 1),
    "tensor_divergence": (2, 1),
    "tensor_double_divergence": (2, 0),
}


@functools.lru_cache(maxsize=None)
def _sym():
    import sympy as sp

    x, y, z = sp.symbols("x y z", real=True)
    return sp, x, y, z


@functools.lru_cache(maxsize=None)
def system_info(system):
    """returns dict(dim, cart (symbols used), basis (list of sympy column vectors in grid component
    order), coords (list of sympy expressions of the grid coordinates in terms of x, y, z))"""
    sp, x, y, z = _sym()
    if system.startswith("cart"):
        d = int(system[4])
        cs = (x, y, z)[:d]
        basis = [sp.Matrix([1 if i == j else 0 for j in range(d)]) for i in range(d)]
        return {"dim": d, "cart": cs, "basis": basis, "coords": list(cs)}
    if system == "polar":
        r = sp.sqrt(x**2 + y**2)
        return {"dim": 2, "cart": (x, y), "basis": [sp.Matrix([x / r, y / r]), sp.Matrix([-y / r, x / r])], "coords": [r]}
    if system == "cyl":
        r = sp.sqrt(x**2 + y**2)
        er, ep, ez = sp.Matrix([x / r, y / r, 0]), sp.Matrix([-y / r, x / r, 0]), sp.Matrix([0, 0, 1])
        return {"dim": 3, "cart": (x, y, z), "basis": [er, ez, ep], "coords": [r, z]}
    if system == "sph":
        r = sp.sqrt(x**2 + y**2 + z**2)
        rho = sp.sqrt(x**2 + y**2)
        er = sp.Matrix([x / r, y / r, z / r])
        et = sp.Matrix([x * z / (r * rho), y * z / (r * rho), -rho / r])
        ep = sp.Matrix([-y / rho, x / rho, 0])
        return {"dim": 3, "cart": (x, y, z), "basis": [er, et, ep], "coords": [r]}
    raise ValueError(system)


def point_subs(system, q0, angles):
    """Cartesian coordinates of the point with grid coordinates q0 at the given angles"""
    sp, x, y, z = _sym()
    phi, theta = angles
    if system.startswith("cart"):
        return dict(zip((x, y, z), q0))
    if system == "polar":
        return {x: q0[0] * math.cos(phi), y: q0[0] * math.sin(phi)}
    if system == "cyl":
        return {x: q0[0] * math.cos(phi), y: q0[0] * math.sin(phi), z: q0[1]}
    if system == "sph":
        return {
            x: q0[0] * math.sin(theta) * math.cos(phi),
            y: q0[0] * math.sin(theta) * math.sin(phi),
            z: q0[0] * math.cos(theta),
        }
    raise ValueError(system)


def apply_continuum(system, op, comps):
    """apply operator `op` to local components `comps` (sympy expressions of x, y, z); returns the
    local components of the result (scalar / list / list of lists)"""
    sp, x, y, z = _sym()
    info = system_info(system)
    cs, B, n = info["cart"], info["basis"], len(info["cart"])
    rank_in, rank_out = RANKS[op]
    # embed
    if rank_in == 0:
        F = comps
    elif rank_in == 1:
        F = sp.zeros(n, 1)
        for i, c in enumerate(comps):
            if c != 0:
                F += c * B[i]
    else:
        F = sp.zeros(n, n)
        for i in range(len(B)):
            for j in range(len(B)):
                if comps[i][j] != 0:
                    F += comps[i][j] * B[i] * B[j].T
    grad = lambda f: sp.Matrix([sp.diff(f, c) for c in cs])  # noqa: E731
    lap = lambda f: sum(sp.diff(f, c, 2) for c in cs)  # noqa: E731
    div = lambda V: sum(sp.diff(V[i], cs[i]) for i in range(n))  # noqa: E731
    tdiv = lambda T: sp.Matrix([sum(sp.diff(T[i, j], cs[j]) for j in range(n)) for i in range(n)])  # noqa: E731
    if op == "laplace":
        R = lap(F)
    elif op == "gradient":
        R = grad(F)
    elif op == "gradient_squared":
        g = grad(F)
        R = sum(g[i] ** 2 for i in range(n))
    elif op == "divergence":
        R = div(F)
    elif op == "vector_gradient":
        R = sp.Matrix(n, n, lambda i, j: sp.diff(F[i], cs[j]))  # T_ij = d_j v_i
    elif op == "vector_laplace":
        R = sp.Matrix([lap(F[i]) for i in range(n)])
    elif op == "tensor_divergence":
        R = tdiv(F)
    elif op == "tensor_double_divergence":
        R = div(tdiv(F))
    else:
        raise ValueError(op)
    # project
    if rank_out == 0:
        return R
    if rank_out == 1:
        return [(B[i].T * R)[0, 0] for i in range(len(B))]
    return [[(B[i].T * R * B[j])[0, 0] for j in range(len(B))] for i in range(len(B))]


def _flatten(res, rank_out):
    if rank_out == 0:
        return [res]
    if rank_out == 1:
        return list(res)
    return [e for row in res for e in row]


@functools.lru_cache(maxsize=None)
def coefficient_functions(system, op, element):
    """`element` = tuple of ((component index tuple), weight) describing a combination of input
    components that carries one coefficient function c(q).  Returns {deriv: f} where deriv is a
    tuple of axis indices (() = value, (a,) = d_a, (a, a) = d_a^2, (a, b) = mixed) and f maps
    (q0 array per axis, angles) -> list over flattened output components of numpy arrays."""
    sp, x, y, z = _sym()
    info = system_info(system)
    coords = info["coords"]
    nq = len(coords)
    q0 = sp.symbols(f"q0_0:{nq}", positive=True) if not system.startswith("cart") else sp.symbols(f"q0_0:{nq}", real=True)
    rank_in, rank_out = RANKS[op]
    nb = len(info["basis"])

    def comps_for(probe):
        if rank_in == 0:
            return probe
        if rank_in == 1:
            c = [0] * nb
            for idx, w in element:
                c[idx[0]] = w * probe
            return c
        c = [[0] * nb for _ in range(nb)]
        for idx, w in element:
            c[idx[0]][idx[1]] = w * probe
        return c

    probes = {(): sp.Integer(1)}
    for a in range(nq):
        probes[(a,)] = coords[a] - q0[a]
        probes[(a, a)] = (coords[a] - q0[a]) ** 2 / 2
        for b in range(a + 1, nq):
            probes[(a, b)] = (coords[a] - q0[a]) * (coords[b] - q0[b])
    phi, theta = sp.symbols("phi_ theta_", real=True)
    X, Y, Z = x, y, z
    if system.startswith("cart"):
        sub = dict(zip((X, Y, Z), q0))
    elif system == "polar":
        sub = {X: q0[0] * sp.cos(phi), Y: q0[0] * sp.sin(phi)}
    elif system == "cyl":
        sub = {X: q0[0] * sp.cos(phi), Y: q0[0] * sp.sin(phi), Z: q0[1]}
    else:
        sub = {X: q0[0] * sp.sin(theta) * sp.cos(phi), Y: q0[0] * sp.sin(theta) * sp.sin(phi), Z: q0[0] * sp.cos(theta)}
    out = {}
    for deriv, probe in probes.items():
        res = _flatten(apply_continuum(system, op, comps_for(probe)), rank_out)
        exprs = [sp.sympify(e).subs(sub, simultaneous=True) for e in res]
        f = sp.lambdify([*q0, phi, theta], exprs, "numpy")
        out[deriv] = f
    return out


def coefficients(system, op, element, q0_arrays, angles=(PHI0, THETA0)):
    """numeric coefficients on a lattice: {deriv: array[out_component, *lattice]}; q0_arrays is a
    list (one per grid axis) of broadcastable numpy arrays of coordinates"""
    import numpy as np

    fs = coefficient_functions(system, op, element)
    shape = np.broadcast(*q0_arrays).shape
    res = {}
    for deriv, f in fs.items():
        vals = f(*q0_arrays, angles[0], angles[1])
        res[deriv] = np.array([np.broadcast_to(np.asarray(v, dtype=float), shape) for v in vals])
    return res


def smooth_case(system, op, comps_of_coords):
    """comps_of_coords: callable(coords list of sympy expr) -> local components as sympy expressions.
    Returns (f_in, f_out): numpy functions of the grid coordinates giving flattened input components
    and flattened exact output components at the generic angles."""
    sp, x, y, z = _sym()
    info = system_info(system)
    nq = len(info["coords"])
    rank_in, rank_out = RANKS[op]
    comps = comps_of_coords(info["coords"])
    res = _flatten(apply_continuum(system, op, comps), rank_out)
    q = sp.symbols(f"q_0:{nq}", positive=True) if not system.startswith("cart") else sp.symbols(f"q_0:{nq}", real=True)
    sub = point_subs(system, q, (PHI0, THETA0))
    f_out = sp.lambdify(list(q), [sp.sympify(e).subs(sub, simultaneous=True) for e in res], "numpy")
    flat_in = _flatten(comps, rank_in)
    f_in = sp.lambdify(list(q), [sp.sympify(e).subs(sub, simultaneous=True) for e in flat_in], "numpy")
    return f_in, f_out
