"""C05 - discrete conservation: no-flux Laplacian and divergence integrate to zero.

(a) The functional ``f -> sum_i V_i (L_bc f)_i`` is linear; it is evaluated on the zero field and on
    EVERY unit basis vector (=> it vanishes for all fields) for the Laplacian with periodic /
    zero-flux conditions on every grid and for the divergence with vanishing normal component on
    Cartesian and (conservative) spherical grids - with the grid's own cell volumes and with exact
    closed-form volumes.
(b) Consequence for simulations: the integral recorded after every step of diffusion- and
    Cahn-Hilliard-type simulations stays constant for every solver, backend, step size and count.
See DESIGN.md, C05.
"""

from __future__ import annotations

import itertools
import math

from checks._grids import geometry, grid_name, make_grid

PROPERTY = "C05"
LEVEL = "exploration"


def exact_volumes(np, geo):
    kind = geo["kind"]
    edges = [np.array([b[0] + i * dx for i in range(n + 1)]) for b, n, dx in zip(geo["bounds"], geo["shape"], geo["dx"])]
    if kind in ("unit", "cart"):
        vols = [np.diff(e) for e in edges]
    elif kind == "polar":
        vols = [math.pi * np.diff(edges[0] ** 2)]
    elif kind == "sph":
        vols = [4 * math.pi / 3 * np.diff(edges[0] ** 3)]
    else:
        vols = [math.pi * np.diff(edges[0] ** 2), np.diff(edges[1])]
    out = vols[0]
    for v in vols[1:]:
        out = np.multiply.outer(out, v)
    return out


def functional_case(case):
    import numpy as np
    from pde import ScalarField, VectorField

    spec, what = case["grid"], case["what"]
    geo = geometry(spec)
    grid = make_grid(spec)
    compiled = bool(case.get("compiled"))  # route: grid.make_operator(..., backend="numba") (compiled BCs + kernel)
    Vs = {"grid.cell_volumes": np.broadcast_to(grid.cell_volumes, grid.shape), "exact closed form": exact_volumes(np, geo)}
    viol, n = [], 0
    kw_cache = {}
    dxmin = min(geo["dx"])
    vmax = float(np.max(Vs["exact closed form"]))
    kind = geo["kind"]
    if what == "laplace":
        scale = vmax / dxmin**2
        for conservative in ((None, True) if kind == "sph" else (None,)):
            w = {k: [] for k in Vs}
            for idx in [None] + list(np.ndindex(*geo["shape"])):
                f = ScalarField(grid)
                if idx is not None:
                    f.data[idx] = 1.0
                kw = {} if conservative is None else {"conservative": conservative}
                if compiled:
                    if "lap_op" not in kw_cache or kw_cache["lap_kw"] != kw:
                        kw_cache["lap_op"], kw_cache["lap_kw"] = grid.make_operator("laplace", "auto_periodic_neumann", backend="numba", **kw), kw
                    lap = kw_cache["lap_op"](f.data)
                else:
                    lap = f.laplace("auto_periodic_neumann", **kw).data
                n += 1
                for k, V in Vs.items():
                    w[k].append(float(np.sum(V * lap)))
            for k, vals in w.items():
                worst = max(abs(v) for v in vals)
                if not worst <= 1e-12 * scale:
                    viol.append({"sig": f"{kind}|laplace{'|compiled make_operator' if compiled else ''}|volume-weighted sum does not vanish ({k})",
                                 "msg": f"{grid_name(spec)} laplace(auto_periodic_neumann): |sum V L e_k| up to {worst:.3g} (scale {scale:.3g})",
                                 "detail": {"functional": vals[:12]}})
        # a zero-flux condition given explicitly per side must behave the same
        bc = {a: ("periodic" if p else {"derivative": 0}) for a, p in zip(geo["axes"], geo["periodic"])}
        f = ScalarField(grid, np.arange(1.0, grid.num_cells + 1).reshape(grid.shape) ** 1.3)
        tot = float(np.sum(Vs["exact closed form"] * f.laplace(bc).data))
        n += 1
        if not abs(tot) <= 1e-11 * scale * float(np.max(np.abs(f.data))):
            viol.append({"sig": f"{kind}|laplace|volume-weighted sum does not vanish (explicit derivative-0 conditions)",
                         "msg": f"{grid_name(spec)}: {tot:.3g}", "detail": None})
    else:  # divergence
        if kind not in ("unit", "cart", "sph"):
            return {"nt": False, "out": "divergence clause does not apply to this grid"}
        scale = vmax / dxmin
        bcv = {a: ("periodic" if p else {"type": "normal_value", "value": 0}) for a, p in zip(geo["axes"], geo["periodic"])}
        comps = range(geo["dim"]) if kind != "sph" else [0]
        w = {k: [] for k in Vs}
        for c in comps:
            for idx in np.ndindex(*geo["shape"]):
                f = VectorField(grid)
                f.data[(c,) + idx] = 1.0
                # tangential components need some condition for the ghost cells the kernel never reads: pre-fill
                f._data_full[...] = np.where(np.isfinite(f._data_full), f._data_full, 0.0)
                if compiled:
                    if "div_op" not in kw_cache:
                        kw_cache["div_op"] = grid.make_operator("divergence", bcv, backend="numba")
                    d = kw_cache["div_op"](f.data)
                else:
                    d = f.divergence(bcv).data
                n += 1
                for k, V in Vs.items():
                    w[k].append(float(np.sum(V * d)))
        for k, vals in w.items():
            worst = max(abs(v) for v in vals)
            if not worst <= 1e-12 * scale:
                viol.append({"sig": f"{kind}|divergence{'|compiled make_operator' if compiled else ''}|volume-weighted sum does not vanish ({k})",
                             "msg": f"{grid_name(spec)} divergence(normal_value 0): |sum V div e_k| up to {worst:.3g}",
                             "detail": {"functional": vals[:12]}})
    return {"v": viol, "n": n, "key": f"{grid_name(spec)}|{what}|{compiled}", "out": what}


SOLVERS = ["euler", "runge-kutta", "implicit", "crank-nicolson", "adams-bashforth", "scipy"]


def simulation_case(case):
    import numpy as np
    from pde import PDE, CahnHilliardPDE, DataTracker, DiffusionPDE, FieldCollection, ScalarField
    from pde.solvers.base import ConvergenceError

    spec, eqname, solver, backend = case["grid"], case["eq"], case["solver"], case["backend"]
    geo = geometry(spec)
    grid = make_grid(spec)
    rng = np.random.default_rng(case.get("seed", 0))
    s0 = ScalarField(grid, rng.uniform(-1, 1, size=grid.shape))
    viol, n, outs = [], 0, set()
    red = case.get("reduced")
    for dt in (1e-4, 1e-3, 1e-1) if not red else (1e-3,):
        for steps in (1, 2, 5) if not red else (3,):
            member, state0 = None, s0

            def pick(st):
                return st if member is None else st[member]

            if eqname == "diffusion":
                eq = DiffusionPDE(0.7)
            elif eqname == "cahn-hilliard":
                eq = CahnHilliardPDE(0.6)
            elif eqname.startswith("cahn-hilliard-wall"):
                # a wetting condition on c; the chemical potential keeps its zero-flux condition => conserved
                wall = {"derivative": 0.3} if eqname.endswith("derivative") else {"value": 0.5}
                bc_c = {a: ("periodic" if p else wall) for a, p in zip(geo["axes"], geo["periodic"])}
                eq = CahnHilliardPDE(0.6, bc_c=bc_c)
            elif eqname.startswith("pde-two-fields"):
                # two species with the same operator name under different per-variable conditions (bc_ops):
                # one is absorbed at the walls, the other has zero flux => only the latter is conserved
                def bcs(wall):
                    return {a: ("periodic" if p else wall) for a, p in zip(geo["axes"], geo["periodic"])}

                names = ("lost", "kept") if eqname.endswith("ab") else ("kept", "lost")
                eq = PDE({nm: f"{0.4 + 0.3 * k} * laplace({nm})" for k, nm in enumerate(names)},
                         bc_ops={"lost:laplace": bcs({"value": 0}), "kept:laplace": bcs({"derivative": 0})})
                member = names.index("kept")
                state0 = FieldCollection([s0.copy(label=names[0]), (s0 * 0.5 + 0.1).copy(label=names[1])])
            else:
                eq = PDE({"c": "laplace(c**3 - c - 0.5*laplace(c))"})
            vals = []
            tr = DataTracker(lambda st, t: vals.append(float(pick(st).integral)) or 0.0, interrupts=dt)
            kw = {} if solver != "scipy" else {}
            try:
                with np.errstate(all="ignore"):
                    res = pick(eq.solve(state0, t_range=steps * dt, dt=dt, solver=solver, backend=backend, tracker=[tr], **kw))
            except (ConvergenceError, RuntimeError, FloatingPointError) as e:
                outs.add(f"diverged:{type(e).__name__}")
                continue
            n += 1
            vals.append(float(res.integral))
            ref = float(pick(state0).integral)
            finite = [v for v in vals if math.isfinite(v)]
            amp = max(1.0, float(np.max(np.abs(res.data))) if np.all(np.isfinite(res.data)) else 1.0)
            if len(finite) < len(vals):
                outs.add("overflow")
                continue
            scale = grid.volume * amp
            drift = max(abs(v - ref) for v in vals)
            if not drift <= 1e-10 * scale:
                viol.append({"sig": f"{geo['kind']}|{eqname}|{solver}|{backend}|integral of the field drifts during the simulation",
                             "msg": f"{grid_name(spec)} dt={dt} steps={steps}: integrals {vals[:6]} start {ref}", "detail": None})
            outs.add("conserved")
    return {"v": viol[:3], "n": n, "key": f"{grid_name(spec)}|{eqname}|{solver}|{backend}", "outs": sorted(outs), "nt": n > 0}


def grids(tier):
    out = []
    for per in (False, True):
        out += [["unit", [4], [per]], ["cart", [[-1, 2]], [3], [per]], ["unit", [1], [per]]]
    for per in itertools.product((False, True), repeat=2):
        out.append(["cart", [[0, 1], [-1, 3]], [3, 2], list(per)])
    out += [["cart", [[0, 2], [0, 1]], [1, 3], [False, True]], ["cart", [[0, 1], [0, 2], [-3, 3]], [2, 3, 2], [False, True, False]],
            ["cart", [[0, 1e-3], [0, 1e3]], [2, 2], [False, False]]]
    for kind in ("polar", "sph"):
        out += [[kind, 2, 4], [kind, [0.7, 2], 3], [kind, 2, 1], [kind, [1e3, 1e3 + 1], 2]]
    out += [["cyl", 2, [0, 1], [3, 2], False], ["cyl", [1, 2.5], [0, 1], [2, 3], False], ["cyl", 2, [0, 1], [3, 2], True],
            ["cyl", [0.5, 1], [-1, 1], [1, 1], True]]
    if tier == "thorough":
        out += [["unit", [7], [False]], ["cart", [[0, 1], [0, 1]], [5, 4], [False, True]], ["cart", [[0, 1], [0, 1], [0, 1]], [3, 3, 3], [True, False, False]],
                ["polar", [0.1, 5], 7], ["sph", 3, 7], ["sph", [2, 2.5], 5], ["cyl", 1, [0, 2], [5, 4], False], ["cyl", [2, 3], [0, 2], [4, 5], True]]
    return out


def main(run):
    cases = [{"grid": g, "what": w} for g in grids(run.tier) for w in ("laplace", "divergence")]
    run.explore("checks.c05:functional_case", cases, mode="I", part="(a) conservation functional on every basis vector")
    # the same functional through the really compiled operator-with-BC (compiled ghost-cell setters), mode J
    cgrids = [["cart", [[0, 1], [-1, 3]], [3, 2], [False, False]], ["cart", [[0, 1], [-1, 3]], [2, 3], [True, False]],
              ["cart", [[0, 1], [0, 2], [-3, 3]], [2, 3, 2], [False, True, False]], ["cart", [[0, 1], [0, 2], [0, 3]], [2, 2, 2], [False, False, False]],
              # every strict order of the three extents occurs (a face loop over the wrong extent overruns silently when the
              # wrong one is larger and leaves ghost cells unset only when it is smaller)
              ["cart", [[0, 1], [0, 2], [0, 3]], [2, 3, 4], [False, False, False]], ["cart", [[0, 1], [0, 2], [0, 3]], [4, 3, 2], [False, False, False]],
              ["cart", [[0, 1], [0, 2], [0, 3]], [3, 2, 4], [False, True, False]],
              ["sph", [0.7, 2], 3], ["polar", 2, 3], ["cyl", [1, 2.5], [0, 1], [2, 3], False]]
    ccases = [{"grid": g, "what": w, "compiled": True} for g in cgrids for w in ("laplace", "divergence")]
    run.explore("checks.c05:functional_case", ccases, mode="J", part="(a) functional through compiled operators", chunksize=1, limit=2400)
    sgrids = [["unit", [4], [False]], ["cart", [[0, 1], [-1, 3]], [3, 2], [True, False]], ["sph", [0.7, 2], 3], ["polar", 2, 4],
              ["cyl", 2, [0, 1], [3, 2], False], ["cart", [[0, 1], [0, 2], [-3, 3]], [2, 2, 2], [False, True, False]]]
    scases = [{"grid": g, "eq": e, "solver": s, "backend": b, "seed": run.seed}
              for g in sgrids for e in ("diffusion", "cahn-hilliard", "cahn-hilliard-wall-derivative", "cahn-hilliard-wall-value", "pde-expression",
                                       "pde-two-fields-ab", "pde-two-fields-ba")
              for s in SOLVERS for b in ("numpy", "numba")]
    run.explore("checks.c05:simulation_case", scases, mode="I", part="(b) integral along simulations", limit=900)
    jcases = [{"grid": g, "eq": e, "solver": s, "backend": "numba", "seed": run.seed, "reduced": run.tier == "quick"}
              for g, e, s in [(sgrids[0], "diffusion", "euler"), (sgrids[1], "cahn-hilliard", "runge-kutta"), (sgrids[2], "cahn-hilliard", "euler"),
                              (sgrids[3], "pde-expression", "adams-bashforth"), (sgrids[4], "diffusion", "implicit"),
                              (sgrids[2], "diffusion", "crank-nicolson"), (sgrids[5], "cahn-hilliard", "euler"), (sgrids[3], "diffusion", "scipy"),
                              (sgrids[0], "cahn-hilliard-wall-derivative", "euler"), (sgrids[4], "cahn-hilliard-wall-value", "runge-kutta"),
                              (sgrids[0], "pde-two-fields-ab", "euler"), (sgrids[4], "pde-two-fields-ba", "runge-kutta")]]
    run.explore("checks.c05:simulation_case", jcases, mode="J", part="(b) compiled simulations", chunksize=1, limit=2400)
    run.assumptions += [
        "(a) is decisive: every update of the listed solvers is a combination of rates in the range of L_bc, so a vanishing "
        "functional on all basis vectors implies conservation for all fields; (b) checks the composition on a seeded state",
        "runs that diverge (ConvergenceError / overflow for dt=0.1) are counted as outcomes, not compared",
        "tolerances: 1e-12 * max V / dx_min^2 for the functional, 1e-10 * volume * amplitude for simulations",
    ]
    return (
        "(a) every grid (all classes, holes, periodic mixes, 1-cell axes, extreme spacings) x {laplace, divergence}: functional on "
        "zero + every unit basis vector with the grid's and exact cell volumes; (b) 6 grids x 3 equations x 6 solvers x 2 backends "
        "x 3 dt x 3 step counts with the integral recorded after every step; distinct = distinct (grid, clause) / (grid, eq, solver, backend)"
    )
