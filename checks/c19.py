"""C19 - vector and tensor components are tied to the right basis vectors.

Bounded-exhaustive exploration of the real code (DESIGN.md, C19); nothing is sampled.

Part (a) ``bases``: every point of a lattice (radii x angles x heights, including phi<0 and
phi>pi) of every coordinate system is pushed through ``basis_rotation``, ``mapping_jacobian``,
``pos_to_cart`` and ``vec_to_cart``.  Oracle: ``R R^T = 1``, ``det R = +1``, rows of ``R`` =
normalised columns of ``mapping_jacobian`` = normalised columns of a central finite-difference
Jacobian of ``pos_to_cart`` (independent; tolerance derived from the step, see ``_fd_jacobian``)
= hand-written unit vectors *by axis name* (``_E``), ``vec_to_cart`` = contraction with R.

Part (b) ``order``: for every curvilinear grid of the alphabet and every component index / name
all routes that give a meaning to "component i" are compared with ONE reference, the order
stated by the property (grid axes followed by symmetric axes; ``REF`` below, hard-coded here):

* ``names``      ``grid.axes + grid.axes_symmetric``, ``get_axis_index``
* ``getitem``    ``field[name]``, ``field[index]``, ``field[name] = ...`` and the label of the component
* ``expr``       position in ``VectorField/Tensor2Field.from_expression``, ``from_scalars``
* ``operator``   gradient / divergence / vector_gradient / tensor_divergence / vector_laplace of
                 ``f * e_i`` (``f`` in {1, r, z}: the stencils are exact for them on interior cells);
                 oracle = the *Cartesian* operator applied by finite differences to the Cartesian
                 image ``f(q(x)) E_name(q(x))`` built from the hand-written unit vectors, projected
                 back on them - no curvilinear formula enters, so the physical direction that the
                 operator associates with data index i is determined independently
* ``products``   dot / outer_product / transpose / trace on all unit fields (a determining set of
                 the bilinear maps) and generic fields against the explicit component formula:
                 field methods and backend operators (numba overloads in mode J), real operands and
                 complex operands with conjugate=True/False (second operand conjugated)
* ``tocart``     ``grid._vector_to_cartesian`` on a point lattice, ``VectorField.interpolate_to_grid``
                 to Cartesian grids for all unit fields e_i (image must be the unit vector of axis
                 name i at every target cell inside the domain and off the axis - a constant
                 interpolates exactly, tolerance 1e-12), the affine fields r e_r -> (x, y[, z]),
                 z e_z, r e_phi, the uniform axial field, seeded superpositions,
                 ``get_vector_data`` on polar grids
* ``commute``    conversion to a Cartesian grid commutes with divergence / gradient: both legs
                 (operate then convert, convert then operate) are compared with the continuum
                 object on a refinement pair N -> 2N of the curvilinear grid at a fixed Cartesian
                 target; the error must shrink ~quadratically: "operate then convert" by a factor
                 >= 3 (theory 4, observed 3.5-4.1), "convert then operate" must stay below the
                 rigorous interpolation-error envelope, which is proportional to h^2 (see
                 ``_c_commute``); a wrong component assignment is an O(1) error that does not shrink

Known finding D7 (see DESIGN.md section 3): on ``CylindricalSymGrid`` ``_vector_to_cartesian``
contracts the components with the rows of ``basis_rotation`` in coordinate-system order
(r, phi, z) while everything else uses (r, z, phi).  A conversion result on a cylinder that
matches exactly this model gets a signature that starts with ``D7`` (below); every other
disagreement gets another signature.
"""

from __future__ import annotations

import itertools
import json
import math
import re

import numpy as np

PROPERTY = "C19"
LEVEL = "exploration"

FN_BASIS = "checks.c19:basis_point"
FN_BATCH = "checks.c19:basis_batch"
FN_ORDER = "checks.c19:order"

# the reference component order stated by the property (NOT read from py-pde)
REF = {
    "PolarSymGrid": ["r", "φ"],
    "SphericalSymGrid": ["r", "θ", "φ"],
    "CylindricalSymGrid": ["r", "z", "φ"],
}
KIND = {"PolarSymGrid": "polar", "SphericalSymGrid": "sph", "CylindricalSymGrid": "cyl"}
# coordinate-system order of the cylinder = the order used by the defect D7
CYL_COORD_ORDER = ["r", "φ", "z"]
D7 = "CylindricalSymGrid|to_cartesian|component order (r,phi,z) vs (r,z,phi)"

EPS = 2.220446049250313e-16
TOL_EXACT = 1e-12  # round-off scale (<= ~50 flops on O(1) numbers) for relations that hold exactly


# ----------------------------------------------------------------------------------------------
# hand-written oracle geometry (knows nothing about py-pde)
# ----------------------------------------------------------------------------------------------


def _q_from_cart(kind, X):
    """curvilinear coordinates *by name* of Cartesian points X[..., dim]"""
    x, y = X[..., 0], X[..., 1]
    if kind == "polar":
        return {"r": np.hypot(x, y), "φ": np.arctan2(y, x)}
    if kind == "cyl":
        return {"r": np.hypot(x, y), "φ": np.arctan2(y, x), "z": X[..., 2]}
    if kind == "sph":
        z = X[..., 2]
        d = np.hypot(x, y)
        return {"r": np.sqrt(x * x + y * y + z * z), "θ": np.arctan2(d, z), "φ": np.arctan2(y, x)}
    raise ValueError(kind)


def _cart_from_q(kind, q):
    r = q["r"]
    if kind == "polar":
        return np.stack([r * np.cos(q["φ"]), r * np.sin(q["φ"])], -1)
    if kind == "cyl":
        return np.stack([r * np.cos(q["φ"]), r * np.sin(q["φ"]), q["z"] + 0 * r], -1)
    if kind == "sph":
        s = r * np.sin(q["θ"])
        return np.stack([s * np.cos(q["φ"]), s * np.sin(q["φ"]), r * np.cos(q["θ"])], -1)
    raise ValueError(kind)


def _E(kind, name, q):
    """unit vector of the axis called `name` at the points q (Cartesian components, [..., dim])"""
    φ = q["φ"]
    zero = 0 * φ
    if kind == "polar":
        if name == "r":
            return np.stack([np.cos(φ), np.sin(φ)], -1)
        if name == "φ":
            return np.stack([-np.sin(φ), np.cos(φ)], -1)
    elif kind == "cyl":
        if name == "r":
            return np.stack([np.cos(φ), np.sin(φ), zero], -1)
        if name == "φ":
            return np.stack([-np.sin(φ), np.cos(φ), zero], -1)
        if name == "z":
            return np.stack([zero, zero, zero + 1], -1)
    elif kind == "sph":
        θ = q["θ"]
        if name == "r":
            return np.stack([np.sin(θ) * np.cos(φ), np.sin(θ) * np.sin(φ), np.cos(θ)], -1)
        if name == "θ":
            return np.stack([np.cos(θ) * np.cos(φ), np.cos(θ) * np.sin(φ), -np.sin(θ)], -1)
        if name == "φ":
            return np.stack([-np.sin(φ), np.cos(φ), zero], -1)
    raise ValueError((kind, name))


# coefficient functions f(q) by key; the first four are those for which all stencils are exact
COEF = {
    "0": lambda q: 0 * q["r"],
    "1": lambda q: 0 * q["r"] + 1,
    "r": lambda q: q["r"] + 0.0,
    "z": lambda q: q["z"] + 0 * q["r"],
    # smooth fields for the commutation clause (parity such that the Cartesian image is smooth)
    "P_r": lambda q: q["r"] * (1 - q["r"] ** 2 / 12),
    "P_φ": lambda q: q["r"] * (0.5 + q["r"] ** 2 / 10),
    "P_s": lambda q: np.cos(q["r"] ** 2 / 6),
    "S_r": lambda q: q["r"] * (1 - q["r"] ** 2 / 15),
    "S_θ": lambda q: 0.3 * q["r"],
    "S_φ": lambda q: 0.2 * q["r"] * (1 + q["r"] / 7),
    "S_s": lambda q: np.cos(q["r"] ** 2 / 7),
    "C_r": lambda q: q["r"] * np.cos(q["z"] / 2) * (1 - q["r"] ** 2 / 20),
    "C_z": lambda q: (1 + q["r"] ** 2 / 8) * np.sin(q["z"] / 3 + 0.2),
    "C_φ": lambda q: q["r"] * (0.4 + q["z"] / 5),
    "C_s": lambda q: (1 + q["r"] ** 2 / 5) * np.cos(q["z"] / 2),
}


def _cart_field(kind, terms):
    """Cartesian tensor field X -> F(X) of the curvilinear field  sum_t w f(q) E_a [E_b^T].

    terms: list of [names, f, w] with names a list of 0, 1 or 2 axis names.
    """

    def F(X):
        q = _q_from_cart(kind, X)
        tot = 0
        for names, f, w in terms:
            val = w * COEF[f](q)
            if len(names) == 0:
                part = val
            elif len(names) == 1:
                part = val[..., None] * _E(kind, names[0], q)
            else:
                part = val[..., None, None] * (
                    _E(kind, names[0], q)[..., :, None] * _E(kind, names[1], q)[..., None, :]
                )
            tot = tot + part
        return tot

    return F


def _fd(F, X, h, second=False):
    """central differences of F along every Cartesian direction: result[..., (rank dims), l]"""
    dim = X.shape[-1]
    out = []
    F0 = F(X) if second else None
    for l in range(dim):
        d = np.zeros(dim)
        d[l] = h
        if second:
            out.append((F(X + d) - 2 * F0 + F(X - d)) / h**2)
        else:
            out.append((F(X + d) - F(X - d)) / (2 * h))
    return np.stack(out, -1)


def _cart_operator(op, F, X):
    """Cartesian operator applied to F at the points X by central differences.

    Returns (value, tol): tol = 10 x (Richardson estimate of the truncation error
    |D_2h - D_h| / 3  +  round-off of the difference quotient eps*max|F|/h^k).
    """
    second = op == "vector_laplace"
    h = 1e-3 if second else 1e-4

    def once(h):
        D = _fd(F, X, h, second)  # [..., rank dims, l]
        if op == "gradient":  # scalar -> vector  G_l = d_l s
            return D
        if op == "divergence":  # vector -> scalar  sum_l d_l V_l
            return np.einsum("...ll->...", D)
        if op == "vector_gradient":  # T_kl = d_l V_k
            return D
        if op == "tensor_divergence":  # W_k = sum_l d_l S_kl
            return np.einsum("...kll->...k", D)
        if op == "vector_laplace":  # L_k = sum_l d_l d_l V_k
            return D.sum(-1)
        raise ValueError(op)

    v1, v2 = once(h), once(2 * h)
    scale = max(1.0, float(np.abs(F(X)).max()))
    round_off = (4 * EPS * scale / h**2) if second else (EPS * scale / h)
    tol = 10 * (float(np.abs(v2 - v1).max()) / 3 + X.shape[-1] * round_off)
    return v1, tol


def _project(kind, names, q, val):
    """components of a Cartesian vector/tensor `val` in the local basis, ordered like `names`"""
    B = np.stack([_E(kind, n, q) for n in names], 0)  # [a, ..., k]
    if val.ndim == q["r"].ndim + 1:
        return np.einsum("a...k,...k->a...", B, val)
    return np.einsum("a...k,...kl,b...l->ab...", B, val, B)


# ----------------------------------------------------------------------------------------------
# part (a): local bases of the coordinate systems
# ----------------------------------------------------------------------------------------------

SYSTEMS = {
    "cartesian1": ("CartesianCoordinates", 1, None),
    "cartesian2": ("CartesianCoordinates", 2, None),
    "cartesian3": ("CartesianCoordinates", 3, None),
    "polar": ("PolarCoordinates", None, "polar"),
    "spherical": ("SphericalCoordinates", None, "sph"),
    "cylindrical": ("CylindricalCoordinates", None, "cyl"),
    "bipolar": ("BipolarCoordinates", "scale", None),
    "bispherical": ("BisphericalCoordinates", "scale", None),
}


def _coordsys(name, param):
    from pde.grids import coordinates as C

    cls, arg, kind = SYSTEMS[name]
    cls = getattr(C, cls)
    if arg is None:
        return cls(), kind
    if arg == "scale":
        return cls(param), kind
    return cls(arg), kind


def _fd_jacobian(c, p):
    """independent Jacobian J[a, i] = d x_a / d q_i of ``pos_to_cart`` by central differences.

    step h_i = 1e-5 max(1, |q_i|); error <= h^2/6 |x'''| + eps |x| / h.  The first term is
    estimated by Richardson (|D_2h - D_h| / 3), the second is known; tol = 10 x their sum.
    """
    dim = len(p)

    def once(fac):
        cols = []
        for i in range(dim):
            h = fac * 1e-5 * max(1.0, abs(p[i]))
            d = np.zeros(dim)
            d[i] = h
            cols.append((c.pos_to_cart(p + d) - c.pos_to_cart(p - d)) / (2 * h))
        return np.stack(cols, -1)

    J1, J2 = once(1.0), once(2.0)
    xmax = max(1.0, float(np.abs(c.pos_to_cart(p)).max()))
    tol = 10 * (float(np.abs(J2 - J1).max()) / 3 + EPS * xmax / 1e-5)
    return J1, tol


def basis_point(case):
    sysname, param, p = case["sys"], case.get("param"), np.array(case["point"], float)
    c, kind = _coordsys(sysname, param)
    cname = type(c).__name__ + (f"({c.dim})" if sysname.startswith("cartesian") else "")
    dim = c.dim
    v = []

    def bad(clause, msg, **detail):
        v.append(
            {
                "sig": f"{cname}|basis|{clause}",
                "msg": f"{cname} at point {p.tolist()} (axes {c.axes}): {msg}",
                "detail": detail,
            }
        )

    R = np.asarray(c.basis_rotation(p), float)
    J = np.asarray(c.mapping_jacobian(p), float)
    n = 2
    if R.shape != (dim, dim) or J.shape != (dim, dim):
        bad("shape", f"basis_rotation {R.shape} / mapping_jacobian {J.shape}, expected {(dim, dim)}")
        return {"v": v, "n": n}
    if np.abs(R @ R.T - np.eye(dim)).max() > TOL_EXACT:
        bad("not orthonormal", f"R R^T - 1 = {np.abs(R @ R.T - np.eye(dim)).max():.3g}", R=R)
    det = float(np.linalg.det(R))
    if abs(det - 1) > TOL_EXACT:
        bad("not right-handed", f"det R = {det:.6g}", R=R)
    norms = np.linalg.norm(J, axis=0)
    if norms.min() <= 0:
        bad("singular jacobian", f"column norms {norms}", J=J)
        return {"v": v, "n": n}
    cols = J / norms
    if np.abs(R.T - cols).max() > TOL_EXACT:
        bad(
            "rows differ from normalised columns of mapping_jacobian",
            f"max difference {np.abs(R.T - cols).max():.3g}",
            R=R,
            J=J,
        )
    # scale factors are the column norms (links the Jacobian with the metric used by operators)
    sf = np.asarray(c.scale_factors(p), float).reshape(-1)
    n += 1
    if np.abs(sf - norms).max() > TOL_EXACT * max(1.0, norms.max()):
        bad("scale factors differ from column norms of the jacobian", f"{sf} vs {norms}")
    # independent finite-difference Jacobian
    Jfd, tol = _fd_jacobian(c, p)
    n += 4 * dim + 1
    if np.abs(J - Jfd).max() > tol:
        bad(
            "mapping_jacobian differs from finite-difference jacobian of pos_to_cart",
            f"max difference {np.abs(J - Jfd).max():.3g} > tol {tol:.3g}",
            J=J,
            J_fd=Jfd,
        )
    nfd = np.linalg.norm(Jfd, axis=0)
    if np.abs(R.T - Jfd / nfd).max() > 2 * tol / nfd.min():
        bad(
            "rows differ from normalised finite-difference jacobian of pos_to_cart",
            f"max difference {np.abs(R.T - Jfd / nfd).max():.3g} > tol {2 * tol / nfd.min():.3g}",
            R=R,
            J_fd=Jfd,
        )
    # hand-written unit vectors by axis name
    if kind is not None:
        q = {name: p[i] for i, name in enumerate(c.axes)}
        for i, name in enumerate(c.axes):
            e = _E(kind, name, q)
            if np.abs(R[i] - e).max() > TOL_EXACT:
                bad(f"row of axis {name} is not the unit vector e_{name}", f"{R[i]} vs {e}")
        x = _cart_from_q(kind, q)
        if np.abs(c.pos_to_cart(p) - x).max() > TOL_EXACT * max(1.0, np.abs(x).max()):
            bad("pos_to_cart differs from the textbook map", f"{c.pos_to_cart(p)} vs {x}")
    else:
        if sysname.startswith("cartesian") and np.abs(R - np.eye(dim)).max() > 0:
            bad("cartesian basis is not the identity", f"{R}")
    # vec_to_cart: all unit vectors and a generic one
    comps = [np.eye(dim)[i] for i in range(dim)] + [np.array(case["generic"][:dim], float)]
    for a in comps:
        got = np.asarray(c.vec_to_cart(p, a), float)
        n += 1
        exp = sum(a[j] * R[j] for j in range(dim))
        if got.shape != (dim,) or np.abs(got - exp).max() > TOL_EXACT * max(1.0, np.abs(a).max()):
            bad("vec_to_cart inconsistent with basis_rotation", f"components {a}: {got} vs {exp}")
            break
    return {"v": v, "n": n, "out": "ok" if not v else "violation"}


def basis_batch(case):
    """vectorised calls (array of points) must agree with the point-wise results"""
    from pde.grids.coordinates import DimensionError

    sysname, param = case["sys"], case.get("param")
    c, _ = _coordsys(sysname, param)
    cname = type(c).__name__ + (f"({c.dim})" if sysname.startswith("cartesian") else "")
    P = np.array(case["points"], float)
    if case.get("shape2d"):
        P = P[: (len(P) // 2) * 2].reshape(2, -1, c.dim)
    dim, shp = c.dim, P.shape[:-1]
    v, refs, n = [], [], 0

    def bad(clause, msg):
        v.append({"sig": f"{cname}|basis batch|{clause}", "msg": f"{cname} points{list(shp)}: {msg}"})

    for meth in ("basis_rotation", "mapping_jacobian"):
        A = np.asarray(getattr(c, meth)(P), float)
        n += 1
        if A.shape == (dim, dim):  # position independent (CartesianCoordinates return one matrix)
            A = A.reshape(dim, dim, *([1] * len(shp)))
        try:
            A = np.broadcast_to(A, (dim, dim, *shp))
        except ValueError:
            bad(f"{meth} shape", f"shape {A.shape} is not (dim, dim) + points shape")
            continue
        for idx in np.ndindex(*shp):
            one = np.asarray(getattr(c, meth)(P[idx]), float)
            n += 1
            if np.abs(A[(..., *idx)] - one).max() > 0:
                bad(f"{meth} differs from point-wise call", f"point {P[idx].tolist()}")
                break
    R = np.asarray(c.basis_rotation(P), float)
    if R.shape == (dim, dim):
        R = R.reshape(dim, dim, *([1] * len(shp)))
    R = np.broadcast_to(R, (dim, dim, *shp))
    comps = np.resize(np.array(case["generic"], float), (dim, *shp))
    try:
        got = np.asarray(c.vec_to_cart(P, comps), float)
        n += 1
        exp = np.einsum("j...,ji...->i...", comps, R)
        if got.shape != exp.shape or np.abs(got - exp).max() > TOL_EXACT * 10:
            bad("vec_to_cart inconsistent with basis_rotation", f"max diff {np.abs(got - exp).max():.3g}")
    except DimensionError as e:  # loud refusal (CartesianCoordinates return a (dim, dim) matrix)
        refs.append(f"{cname}.vec_to_cart(array of points): DimensionError {str(e)[:60]}")
    return {"v": v, "n": n, "ref": refs, "out": "refused vec_to_cart" if refs else "ok"}


# ----------------------------------------------------------------------------------------------
# part (b): one component order per grid
# ----------------------------------------------------------------------------------------------


_GRID_CACHE = None  # only used inside `order_bundle` (mode J), never across independent cases


def _grid(spec):
    import pde

    key = _gdesc(spec)
    if _GRID_CACHE is not None and key in _GRID_CACHE:
        return _GRID_CACHE[key]
    cls = getattr(pde, spec["cls"])
    radius = spec["radius"]
    radius = tuple(radius) if isinstance(radius, (list, tuple)) else radius
    if spec["cls"] == "CylindricalSymGrid":
        g = cls(radius, tuple(spec["bounds_z"]), tuple(spec["shape"]), periodic_z=spec.get("periodic_z", False))
    else:
        g = cls(radius, spec["shape"])
    if _GRID_CACHE is not None:
        _GRID_CACHE[key] = g
    return g


def _own_geometry(spec):
    """cell centres and bounds computed from the specification only"""
    radius = spec["radius"]
    r_in, r_out = radius if isinstance(radius, (list, tuple)) else (0.0, radius)
    if spec["cls"] == "CylindricalSymGrid":
        nr, nz = spec["shape"]
        z0, z1 = spec["bounds_z"]
        rs = r_in + (np.arange(nr) + 0.5) * (r_out - r_in) / nr
        zs = z0 + (np.arange(nz) + 0.5) * (z1 - z0) / nz
        return {"r": rs, "z": zs}, {"r": (r_in, r_out), "z": (z0, z1)}
    nr = spec["shape"]
    rs = r_in + (np.arange(nr) + 0.5) * (r_out - r_in) / nr
    return {"r": rs}, {"r": (r_in, r_out)}


def _cell_q(spec, angles):
    """coordinates by name of all cells (arrays of grid shape), generic values along symmetric axes"""
    centres, _ = _own_geometry(spec)
    axes = list(centres)
    mesh = np.meshgrid(*[centres[a] for a in axes], indexing="ij")
    q = {a: m for a, m in zip(axes, mesh)}
    for name in REF[spec["cls"]]:
        if name not in q:
            q[name] = 0 * mesh[0] + angles[name]
    return q


def _gdesc(spec):
    return json.dumps(spec, ensure_ascii=False, sort_keys=True)


class _Ctx:
    def __init__(self, case):
        self.case = case
        self.spec = case["grid"]
        self.cls = self.spec["cls"]
        self.kind = KIND[self.cls]
        self.ref = REF[self.cls]
        self.dim = len(self.ref)
        self.grid = _grid(self.spec)
        self.v = []
        self.refs = []
        self.n = 0
        self.nt = True
        self.out = None
        self.angles = case.get("angles", {"φ": 0.7, "θ": 1.1})

    def bad(self, part, clause, msg, **detail):
        self.v.append(
            {
                "sig": f"{self.cls}|{part}|{clause}",
                "msg": f"{self.cls} {_gdesc(self.spec)}: {msg}",
                "detail": detail,
            }
        )

    def bad_sig(self, sig, msg, **detail):
        self.v.append({"sig": sig, "msg": f"{self.cls} {_gdesc(self.spec)}: {msg}", "detail": detail})

    def result(self):
        out = self.out or ("violation" if self.v else ("refused" if self.refs and not self.nt else "ok"))
        return {"v": self.v, "n": max(self.n, 1), "nt": self.nt, "ref": self.refs, "out": out}


def _generic(seed, shape, salt=0):
    """generic, well-conditioned field contents derived from VERIF_SEED"""
    rng = np.random.default_rng([int(seed), 1919, int(salt)])
    return rng.uniform(0.5, 1.5, size=shape) * rng.choice([-1.0, 1.0], size=shape)


# -- names -------------------------------------------------------------------------------------


def _c_names(ctx):
    g = ctx.grid
    got = list(g.axes) + list(g.axes_symmetric)
    ctx.n += 1
    if got != ctx.ref:
        ctx.bad("names", "axes + axes_symmetric is not the reference order", f"{got} vs {ctx.ref}")
    if sorted(g.c.axes) != sorted(ctx.ref):
        ctx.bad("names", "coordinate system axes are not a permutation of the reference names", f"{g.c.axes}")
    for i, name in enumerate(ctx.ref):
        ctx.n += 2
        if g.get_axis_index(name) != i:
            ctx.bad("names", f"get_axis_index('{name}')", f"get_axis_index('{name}') = {g.get_axis_index(name)}, expected {i}")
        if g.get_axis_index(i) != i:
            ctx.bad("names", "get_axis_index(int)", f"get_axis_index({i}) = {g.get_axis_index(i)}")
    for name in ctx.ref:
        if name in g.axes_symmetric:
            try:
                g.get_axis_index(name, allow_symmetric=False)
                ctx.bad("names", "symmetric axis accepted with allow_symmetric=False", name)
            except IndexError:
                pass


# -- getitem / setitem ---------------------------------------------------------------------------


def _label_axes(label, names):
    return [t for t in re.split(r"[ _]+", label or "") if t in names]


def _c_getitem_vec(ctx):
    from pde import ScalarField, VectorField

    g, i = ctx.grid, ctx.case["i"]
    name = ctx.ref[i]
    data = _generic(ctx.case["seed"], (ctx.dim, *g.shape))
    for lab in (None, "v"):
        f = VectorField(g, data, label=lab)
        for key in (name, i):
            comp = f[key]
            ctx.n += 1
            if not np.array_equal(comp.data, data[i]):
                hit = [k for k in range(ctx.dim) if np.array_equal(comp.data, data[k])]
                ctx.bad(
                    "getitem",
                    f"vector field[{name!r}] is not data[{i}]",
                    f"field[{key!r}] returns data[{hit}] instead of data[{i}]",
                )
            found = _label_axes(comp.label, ctx.ref)
            if found != [name]:
                ctx.bad(
                    "getitem",
                    "label names another axis",
                    f"VectorField(label={lab!r})[{key!r}].label = {comp.label!r} names {found}, requested axis {name!r}",
                )
    for value in ("number", "field"):
        f = VectorField(g, data.copy())
        f[name] = 7.0 if value == "number" else ScalarField(g, 7.0)
        ctx.n += 1
        exp = data.copy()
        exp[i] = 7.0
        if not np.array_equal(f.data, exp):
            ctx.bad("setitem", f"vector field[{name!r}] = ... does not set data[{i}]", f"value kind {value}")


def _c_getitem_ten(ctx):
    from pde import Tensor2Field

    g, i, j = ctx.grid, ctx.case["i"], ctx.case["j"]
    ni, nj = ctx.ref[i], ctx.ref[j]
    data = _generic(ctx.case["seed"], (ctx.dim, ctx.dim, *g.shape), 1)
    f = Tensor2Field(g, data)
    for key in ((ni, nj), (i, j), (ni, j), (i, nj)):
        comp = f[key]
        ctx.n += 1
        if not np.array_equal(comp.data, data[i, j]):
            hit = [(a, b) for a in range(ctx.dim) for b in range(ctx.dim) if np.array_equal(comp.data, data[a, b])]
            ctx.bad(
                "getitem",
                f"tensor field[{ni!r},{nj!r}] is not data[{i},{j}]",
                f"field[{key!r}] returns data{hit} instead of data[{i},{j}]",
            )
    f = Tensor2Field(g, data.copy())
    f[ni, nj] = 7.0
    ctx.n += 1
    exp = data.copy()
    exp[i, j] = 7.0
    if not np.array_equal(f.data, exp):
        ctx.bad("setitem", f"tensor field[{ni!r},{nj!r}] = ... does not set data[{i},{j}]", "")


# -- from_expression ---------------------------------------------------------------------------


def _expr_value(ctx, e):
    q = _cell_q(ctx.spec, ctx.angles)
    if e in COEF:
        return COEF[e](q)
    return float(e) + 0 * q["r"]


def _c_expr_vec(ctx):
    from pde import ScalarField, VectorField

    g, k, e = ctx.grid, ctx.case["k"], ctx.case["e"]
    if e == "markers":
        exprs = [str(m + 1) for m in range(ctx.dim)]
    else:
        exprs = ["0"] * ctx.dim
        exprs[k] = e
    f = VectorField.from_expression(g, exprs)
    ctx.n += 1
    for m in range(ctx.dim):
        exp = _expr_value(ctx, exprs[m])
        tol = TOL_EXACT * max(1.0, np.abs(exp).max())
        if np.abs(f.data[m] - exp).max() > tol:
            ctx.bad(
                "from_expression",
                f"vector|expression at position {m} ({ctx.ref[m]}) is not data[{m}]",
                f"expressions {exprs}: data[{m}] differs from the expression at position {m}",
            )
        if np.abs(f[ctx.ref[m]].data - exp).max() > tol:
            ctx.bad(
                "from_expression",
                f"vector|expression at position {m} is not field['{ctx.ref[m]}']",
                f"expressions {exprs}: field[{ctx.ref[m]!r}] differs from the expression at position {m}",
            )
    # from_scalars uses the same order
    fs = VectorField.from_scalars([ScalarField.from_expression(g, x) for x in exprs])
    ctx.n += 1
    if not np.array_equal(fs.data, f.data):
        ctx.bad("from_scalars", "order differs from from_expression", f"expressions {exprs}")


def _c_expr_ten(ctx):
    from pde import Tensor2Field

    g, (a, b), e = ctx.grid, ctx.case["k"], ctx.case["e"]
    d = ctx.dim
    if e == "markers":
        exprs = [[str(1 + m * d + n) for n in range(d)] for m in range(d)]
    else:
        exprs = [["0"] * d for _ in range(d)]
        exprs[a][b] = e
    f = Tensor2Field.from_expression(g, exprs)
    ctx.n += 1
    for m in range(d):
        for n in range(d):
            exp = _expr_value(ctx, exprs[m][n])
            tol = TOL_EXACT * max(1.0, np.abs(exp).max())
            if np.abs(f.data[m, n] - exp).max() > tol or np.abs(f[ctx.ref[m], ctx.ref[n]].data - exp).max() > tol:
                ctx.bad(
                    "from_expression",
                    f"tensor|expression at position ({m},{n}) is not component ({ctx.ref[m]},{ctx.ref[n]})",
                    f"expressions {exprs}",
                )


# -- differential operators -----------------------------------------------------------------------

RANK_IN = {"gradient": 0, "divergence": 1, "vector_gradient": 1, "vector_laplace": 1, "tensor_divergence": 2}
RANK_OUT = {"gradient": 1, "divergence": 0, "vector_gradient": 2, "vector_laplace": 1, "tensor_divergence": 1}


def _c_operator(ctx):
    """op applied to  sum_t w f e_idx  (indices = positions in the data array)"""
    from pde import ScalarField, Tensor2Field, VectorField

    g, op, opts = ctx.grid, ctx.case["op"], ctx.case.get("opts", {})
    terms = ctx.case["terms"]  # [[indices], f, w]
    q = _cell_q(ctx.spec, ctx.angles)
    rank = RANK_IN[op]
    data = np.zeros((ctx.dim,) * rank + tuple(g.shape))
    for idx, f, w in terms:
        data[tuple(idx)] += w * COEF[f](q)
    field = [ScalarField, VectorField, Tensor2Field][rank](g, data)
    try:
        res = field.apply_operator(op, bc="auto_periodic_neumann", **opts)
        ctx.n += 1
    except AssertionError:
        # documented refusal: components that cannot exist on a spherically symmetric grid
        ctx.refs.append(f"{ctx.cls}.{op}: AssertionError of the symmetry check (safe=True)")
        ctx.nt = False
        ctx.out = "refused"
        return
    # oracle on interior cells (they do not see the boundary condition)
    interior = tuple(slice(1, -1) for _ in g.shape)
    qi = {k: val[interior] for k, val in q.items()}
    if qi["r"].size == 0:
        ctx.nt = False
        return
    X = _cart_from_q(ctx.kind, qi)
    named = [[[ctx.ref[a] for a in idx], f, w] for idx, f, w in terms]
    val, tol = _cart_operator(op, _cart_field(ctx.kind, named), X)
    exp = val if RANK_OUT[op] == 0 else _project(ctx.kind, ctx.ref, qi, val)
    got = res.data[(..., *interior)]
    scale = max(1.0, float(np.abs(exp).max()))
    tol = tol + TOL_EXACT * scale
    err = np.abs(got - exp)
    if err.max() > tol:
        # which output components are wrong (named in the reference order)
        comp = np.argwhere(err.reshape(*exp.shape[: RANK_OUT[op]], -1).max(-1) > tol).tolist() if RANK_OUT[op] else []
        wrong = ["".join(ctx.ref[a] for a in c) for c in comp]
        inp = "+".join((f"{w:g}*" if w != 1 else "") + (f"{f}*e_" + "".join(ctx.ref[a] for a in idx) if idx else f"scalar {f}") for idx, f, w in terms)
        ctx.bad(
            "operator",
            f"{op}{_opt_str(opts)}|input {inp} has not the continuum result for the reference order",
            f"{op}({inp}) on interior cells: max error {err.max():.3g} > tol {tol:.3g}; wrong output components {wrong}",
            got=got,
            expected=exp,
        )


def _opt_str(opts):
    return "" if not opts else "(" + ",".join(f"{k}={v}" for k, v in sorted(opts.items())) + ")"


# -- dot / outer products ------------------------------------------------------------------------


def _unit(ctx, idx, w):
    data = np.zeros((ctx.dim,) * len(idx) + tuple(ctx.grid.shape), dtype=np.asarray(w).dtype)
    data[tuple(idx)] = w
    return data


def _generic_phase(seed, shape, salt):
    """generic complex numbers of modulus in [0.5, 1.5] and generic phase, derived from VERIF_SEED"""
    rng = np.random.default_rng([int(seed), 1919, int(salt), 77])
    return rng.uniform(0.5, 1.5, size=shape) * np.exp(1j * rng.uniform(0.3, 2 * np.pi - 0.3, size=shape))


def _c_products(ctx):
    """all products in which the unit fields e_i (first) and e_j (second) take part.

    ``i``/``j`` select one pair; ``pairs == "all"`` runs every pair with operators that are created
    once (used in mode J, where creating an operator means compiling it).

    ``conjugate`` absent: real operands.  ``conjugate`` = True/False: COMPLEX operands (unit fields
    times generic complex amplitudes, generic complex fields) and the dot products are requested
    with this flag; oracle = the explicit component formula  sum_j a_..j * conj(b_j..)  (conj only if
    conjugate=True; the outer product never conjugates), so field methods, numpy operators and
    numba operators (mode J: the overloads) all agree with it and with each other.
    """
    from pde import ScalarField, Tensor2Field, VectorField

    g, d = ctx.grid, ctx.dim
    backend = ctx.case["backend"]
    conj = ctx.case.get("conjugate")  # None -> real operands
    cplx = conj is not None
    cj = np.conj if conj else (lambda x: x)
    dot_kw = {} if not cplx else {"conjugate": bool(conj)}
    if ctx.case.get("pairs") == "all":
        pairs = [(i, j) for i in range(d) for j in range(d)]
    else:
        pairs = [(ctx.case["i"], ctx.case["j"])]
    kinds = ctx.case.get("kinds") or ["vv", "outer", "tv", "vt", "tt"]  # a subset only in mode J
    gen = _generic_phase if cplx else _generic
    wa, wb, wc = (gen(ctx.case["seed"], g.shape, s) for s in (2, 3, 4))
    tol = TOL_EXACT * 10
    cur = [0, 0]
    branch = {"vv": "vector.vector", "tv": "tensor.vector", "vt": "vector.tensor", "tt": "tensor.tensor", "outer": "outer"}

    def check(what, got, exp, family, kind=None):
        ctx.n += 1
        got = np.asarray(got)
        if got.shape != exp.shape or np.abs(got - exp).max() > tol:
            lead = got.ndim - len(g.shape)
            nz = np.argwhere(np.abs(got).reshape(*got.shape[:lead], -1).max(-1) > tol).tolist() if lead > 0 else []
            err = float(np.abs(got - exp).max()) if got.shape == exp.shape else "shape"
            msg = f"{what} for i={ctx.ref[cur[0]]}, j={ctx.ref[cur[1]]}: result has non-zero components {nz}, max error {err}"
            if cplx:
                fam = "dot" if family == "dot" else "outer_product"
                ctx.bad_sig(
                    f"{ctx.cls}|{fam} ({backend})|complex operands|differs from the component formula|{branch[kind]} conjugate={bool(conj)}",
                    f"complex operands, conjugate={bool(conj)}, backend {backend}: " + msg,
                )
            else:
                ctx.bad(family, f"{backend}|{what}", msg)

    outer = None
    if backend == "field":
        dot_vv = lambda x, y: VectorField(g, x).dot(VectorField(g, y), **dot_kw).data  # noqa: E731
        dot_tv = lambda t, x: Tensor2Field(g, t).dot(VectorField(g, x), **dot_kw).data  # noqa: E731
        dot_vt = lambda x, t: VectorField(g, x).dot(Tensor2Field(g, t), **dot_kw).data  # noqa: E731
        dot_tt = lambda t, s: Tensor2Field(g, t).dot(Tensor2Field(g, s), **dot_kw).data  # noqa: E731
        outer = lambda x, y: VectorField(g, x).outer_product(VectorField(g, y)).data  # noqa: E731
        if cplx and "outer" in kinds:
            try:
                outer(_unit(ctx, [0], wa), _unit(ctx, [0], wb))
            except TypeError as e:  # the result field is allocated with a real dtype
                ctx.refs.append(f"VectorField.outer_product of complex fields: TypeError {str(e)[:60]}")
                outer = None
    else:
        vf, tf = VectorField(g, 0.0), Tensor2Field(g, 0.0)
        dot_vv = dot_vt = vf.make_dot_operator(backend, **dot_kw)
        dot_tv = dot_tt = tf.make_dot_operator(backend, **dot_kw)
        try:
            outer = vf.make_outer_prod_operator(backend)
        except NotImplementedError as e:
            if "outer" in kinds:
                ctx.refs.append(f"make_outer_prod_operator({backend!r}): NotImplementedError {str(e)[:60]}")
    if "outer" not in kinds:
        outer = None
    for i, j in pairs:
        cur[:] = [i, j]
        a, b = _unit(ctx, [i], wa), _unit(ctx, [j], wb)
        if backend == "field" and not cplx and "outer" in kinds and "vv" in kinds:
            va, vb = VectorField(g, a), VectorField(g, b)
            T = va.outer_product(vb)
            # by name: the (name_i, name_j) component of the outer product
            check("outer_product(e_i, e_j)[name_i, name_j]", T[ctx.ref[i], ctx.ref[j]].data, wa * wb, "outer_product")
            check("outer_product(e_i, e_j).transpose()", T.transpose().data, _unit(ctx, [j, i], wa * wb), "outer_product")
            check("trace(outer_product(e_i, e_j))", T.trace().data, (wa * wb) * (i == j), "outer_product")
            res = va @ vb
            check("e_i @ e_j", res.data, (wa * wb) * (i == j), "dot")
            if not isinstance(res, ScalarField):
                ctx.bad("dot", "field|vector @ vector is not a ScalarField", type(res).__name__)
        if "vv" in kinds:
            check("dot(e_i, e_j)", dot_vv(a, b), (wa * cj(wb)) * (i == j), "dot", "vv")
        if outer is not None:
            check("outer_product(e_i, e_j)", outer(a, b), _unit(ctx, [i, j], wa * wb), "outer_product", "outer")
        T = _unit(ctx, [i, j], wa)
        for k in range(d):
            ek = _unit(ctx, [k], wc)
            # (e_i e_j^T) . e_k = delta_jk e_i ;   e_k . (e_i e_j^T) = delta_ki e_j
            if "tv" in kinds:
                check("dot(e_i e_j^T, e_k)", dot_tv(T, ek), _unit(ctx, [i], wa * cj(wc)) * (j == k), "dot", "tv")
            if "vt" in kinds:
                check("dot(e_k, e_i e_j^T)", dot_vt(ek, T), _unit(ctx, [j], wc * cj(wa)) * (i == k), "dot", "vt")
            for l in range(d):
                if "tt" not in kinds:
                    break
                S = _unit(ctx, [k, l], wc)
                check("dot(e_i e_j^T, e_k e_l^T)", dot_tt(T, S), _unit(ctx, [i, l], wa * cj(wc)) * (j == k), "dot", "tt")
    # superposition (the maps are bilinear: unit fields are a determining set): generic fields
    # against the explicit component formulas
    ga, gb = gen(ctx.case["seed"], (d, *g.shape), 5), gen(ctx.case["seed"], (d, *g.shape), 6)
    gt, gs = gen(ctx.case["seed"], (d, d, *g.shape), 10), gen(ctx.case["seed"], (d, d, *g.shape), 11)
    R = range(d)
    if "vv" in kinds:
        check("dot of generic vectors", dot_vv(ga, gb), sum(ga[m] * cj(gb[m]) for m in R), "dot", "vv")
    if "tv" in kinds:
        exp = np.stack([sum(gt[m, n] * cj(gb[n]) for n in R) for m in R])
        check("dot of generic tensor and vector", dot_tv(gt, gb), exp, "dot", "tv")
    if "vt" in kinds:
        exp = np.stack([sum(ga[m] * cj(gt[m, n]) for m in R) for n in R])
        check("dot of generic vector and tensor", dot_vt(ga, gt), exp, "dot", "vt")
    if "tt" in kinds:
        exp = np.stack([np.stack([sum(gt[m, k] * cj(gs[k, n]) for k in R) for n in R]) for m in R])
        check("dot of generic tensors", dot_tt(gt, gs), exp, "dot", "tt")
    if outer is not None:
        exp = np.stack([np.stack([ga[m] * gb[n] for n in R]) for m in R])
        check("outer product of generic fields", outer(ga, gb), exp, "outer_product", "outer")


# -- conversion to Cartesian ---------------------------------------------------------------------


def _named_image(ctx, comps_by_name, q):
    """sum_name comps[name] E_name(q)  -> [..., dim]"""
    return sum(np.asarray(val)[..., None] * _E(ctx.kind, name, q) for name, val in comps_by_name.items())


def _report_tocart(ctx, clause, got, comps_ref, q, mask, scale, what, tol=None):
    """compare a converted vector `got[dim, ...]` with the image of the components (given in the
    reference order as arrays over the target points); classify D7 on cylinders"""
    tol = (TOL_EXACT if tol is None else tol) * max(1.0, scale)
    exp = np.moveaxis(_named_image(ctx, {n: comps_ref[k] for k, n in enumerate(ctx.ref)}, q), -1, 0)
    err = np.abs(got - exp)[:, mask]
    if err.size == 0:
        ctx.nt = False
        return
    if err.max() <= tol:
        return
    worst = np.unravel_index(np.argmax(np.abs(got - exp) * mask), got.shape)
    msg = (
        f"{what}: Cartesian image differs from sum_i v_i e_(axis name i) by {err.max():.3g} "
        f"(tol {tol:.3g}); mean |v_cart| per Cartesian axis {[float(np.abs(got[k][mask]).mean()) for k in range(ctx.dim)]}, "
        f"expected {[float(np.abs(exp[k][mask]).mean()) for k in range(ctx.dim)]}"
    )
    if ctx.cls == "CylindricalSymGrid":
        # model of D7: data index k (reference order) is contracted with row k of basis_rotation,
        # i.e. with the unit vector of the k-th axis of the coordinate system (r, phi, z)
        d7 = np.moveaxis(_named_image(ctx, {n: comps_ref[k] for k, n in enumerate(CYL_COORD_ORDER)}, q), -1, 0)
        if np.abs(got - d7)[:, mask].max() <= tol:
            ctx.bad_sig(f"{D7}|{clause}", msg + " -- matches the contraction in coordinate-system order (r,phi,z)", worst=list(map(int, worst)))
            ctx.out = "D7"
            return
    ctx.bad("to_cartesian", f"other|{clause}", msg, worst=list(map(int, worst)))


def _c_tocart_direct(ctx):
    """grid._vector_to_cartesian on a lattice of points given in coordinate-system order"""
    g, i = ctx.grid, ctx.case["i"]
    lat = ctx.case["lattice"]  # name -> list of values
    names = list(g.c.axes)
    pts = list(itertools.product(*[lat[n] for n in names]))
    P = np.array(pts, float)  # [n, dim] in the order of the coordinate system
    q = {n: P[:, k] for k, n in enumerate(names)}
    npts = len(P)
    comps = np.zeros((ctx.dim, npts))
    comps[i] = 1.0
    got = np.asarray(g._vector_to_cartesian(P, comps), float)
    ctx.n += 1
    mask = np.ones(npts, bool)
    _report_tocart(ctx, f"_vector_to_cartesian unit field e_{ctx.ref[i]}", got, comps, q, mask, 1.0, f"_vector_to_cartesian(points, e_{ctx.ref[i]})")
    # point-wise calls agree with the vectorised one
    for k in range(npts):
        one = np.asarray(g._vector_to_cartesian(P[k], comps[:, k]), float)
        ctx.n += 1
        if np.abs(one - got[:, k]).max() > TOL_EXACT:
            ctx.bad("to_cartesian", "other|_vector_to_cartesian point-wise differs from vectorised call", f"point {P[k].tolist()}")
            break
    # seeded superposition
    w = _generic(ctx.case["seed"], (ctx.dim, npts), 7)
    got = np.asarray(g._vector_to_cartesian(P, w), float)
    ctx.n += 1
    _report_tocart(ctx, "_vector_to_cartesian generic components", got, w, q, mask, 1.5, "_vector_to_cartesian(points, generic)")


def _target(ctx, spec):
    from pde import CartesianGrid

    if "mode" in spec:
        try:
            return ctx.grid.get_cartesian_grid(mode=spec["mode"])
        except TypeError as e:
            # side observation (not part of C19): Polar/SphericalSymGrid.get_cartesian_grid fails for grids
            # with a hole (`round` of an array, since `radius` is a tuple).  Use the grid it documents.
            ctx.refs.append(f"{ctx.cls}(hole).get_cartesian_grid: TypeError {str(e)[:60]}")
            r_in, r_out = _rin_rout(ctx.spec)
            b = r_out / math.sqrt(ctx.dim) if spec["mode"] == "valid" else r_out
            dr = (r_out - r_in) / ctx.spec["shape"]
            return CartesianGrid([[-b, b]] * ctx.dim, 2 * round(b / dr))
    return CartesianGrid(spec["bounds"], spec["shape"])


def _target_q(ctx, tgt):
    """own coordinates of the target cells, computed from bounds and shape of the target"""
    axes = []
    for (lo, hi), n in zip(tgt.axes_bounds, tgt.shape):
        axes.append(float(lo) + (np.arange(n) + 0.5) * (float(hi) - float(lo)) / n)
    X = np.stack(np.meshgrid(*axes, indexing="ij"), -1)
    return X, _q_from_cart(ctx.kind, X)


def _domain_mask(ctx, X, q, exact_linear):
    """target cells inside the domain and off the axis; for non-constant fields only the region
    where linear interpolation is exact (between the outermost cell centres)"""
    centres, bounds = _own_geometry(ctx.spec)
    d_axis = np.hypot(X[..., 0], X[..., 1]) if ctx.kind != "polar" else q["r"]
    mask = d_axis > 1e-6
    for a, (lo, hi) in bounds.items():
        if exact_linear:
            lo, hi = centres[a][0], centres[a][-1]
        mask &= (q[a] > lo + 1e-9) & (q[a] < hi - 1e-9)
    return mask


def _build_vector(ctx, terms, build):
    """VectorField  sum_t w f e_name  assembled by data index, by name, or by expression position"""
    from pde import ScalarField, VectorField

    g = ctx.grid
    q = _cell_q(ctx.spec, ctx.angles)
    comp = {n: 0 * q["r"] for n in ctx.ref}
    for name, f, w in terms:
        comp[name] = comp[name] + w * COEF[f](q)
    if build == "index":
        return VectorField(g, np.stack([comp[n] for n in ctx.ref]))
    if build == "name":
        v = VectorField(g, 0.0)
        for n in ctx.ref:
            v[n] = ScalarField(g, comp[n])
        return v
    if build == "expr":
        ex = {n: "0" for n in ctx.ref}
        for name, f, w in terms:
            ex[name] = ex[name] + f" + {w!r}*({f})"
        return VectorField.from_expression(g, [ex[n] for n in ctx.ref])
    raise ValueError(build)


def _terms_str(terms):
    return " + ".join((f"{w:g}*" if w != 1 else "") + (f"{f}*" if f != "1" else "") + f"e_{n}" for n, f, w in terms)


def _c_tocart(ctx):
    """VectorField.interpolate_to_grid(cartesian) of sum_t w f e_name"""
    terms, build = ctx.case["terms"], ctx.case["build"]
    v = _build_vector(ctx, terms, build)
    tgt = _target(ctx, ctx.case["target"])
    X, q = _target_q(ctx, tgt)
    out = v.interpolate_to_grid(tgt, fill=0.0)
    ctx.n += 1
    const = all(f in ("0", "1") for _, f, _ in terms)
    mask = _domain_mask(ctx, X, q, exact_linear=not const)
    comps = []
    for n in ctx.ref:
        c = 0 * q["r"]
        for name, f, w in terms:
            if name == n:
                c = c + w * COEF[f](q)
        comps.append(c)
    scale = max(float(np.abs(c[mask]).max()) if mask.any() else 0.0 for c in comps)
    kindname = ctx.case.get("family", "field")
    _report_tocart(
        ctx,
        f"interpolate_to_grid {kindname}",
        np.asarray(out.data, float),
        comps,
        q,
        mask,
        scale,
        f"VectorField[{_terms_str(terms)}] (built by {build}).interpolate_to_grid(CartesianGrid{list(tgt.shape)})",
    )


def _c_vector_data(ctx):
    """polar grids: get_vector_data (plot data) of the unit field e_i"""
    from pde import VectorField

    g, i = ctx.grid, ctx.case["i"]
    data = np.zeros((ctx.dim, *g.shape))
    data[i] = 1.0
    d = VectorField(g, data).get_vector_data()
    ctx.n += 1
    X = np.stack([d["xs"], d["ys"]], -1)
    q = _q_from_cart(ctx.kind, X)
    mask = _domain_mask(ctx, X, q, exact_linear=True)  # interp1d has no data outside the centres
    got = np.stack([np.asarray(d["data_x"], float), np.asarray(d["data_y"], float)])
    comps = [0 * q["r"] + (k == i) for k in range(ctx.dim)]
    _report_tocart(ctx, f"get_vector_data unit field e_{ctx.ref[i]}", got, comps, q, mask, 1.0, f"get_vector_data of e_{ctx.ref[i]}")
    # transpose=True mirrors the plot at the diagonal: positions (x, y) -> (y, x) AND components (v_x, v_y) -> (v_y, v_x)
    t = VectorField(g, data).get_vector_data(transpose=True)
    ctx.n += 1
    for a, b in (("x", "y"), ("y", "x")):
        if not np.array_equal(np.asarray(t[a]), np.asarray(d[b])):
            ctx.bad("to_cartesian", f"other|get_vector_data(transpose=True) coordinate {a}", f"{a} of the transposed data is not {b} of the plain data")
        if not np.array_equal(np.asarray(t["data_" + a]), np.asarray(d["data_" + b]).T):
            ctx.bad("to_cartesian", f"other|get_vector_data(transpose=True) component along {a}",
                    f"component along the plotted {a} direction of the transposed data is not the (transposed) {b}-component of e_{ctx.ref[i]}")


# -- commutation of the conversion with divergence / gradient --------------------------------------


def _refined(spec, fac):
    s = dict(spec)
    s["shape"] = [n * fac for n in spec["shape"]] if isinstance(spec["shape"], list) else spec["shape"] * fac
    return s


def _max_second_derivatives(fkey, region):
    """max |d^2 f / dr^2| and max |d^2 f / dz^2| of a coefficient function over a (r[, z]) region,
    from second differences (step 1e-3: truncation 1e-7 |f''''|, round-off 1e-9) on 41 x 41 samples;
    inflated by 1 %"""
    rs = np.linspace(*region["r"], 41)
    zs = np.linspace(*region["z"], 41) if "z" in region else np.array([0.0])
    R, Z = np.meshgrid(rs, zs, indexing="ij")
    f = COEF[fkey]
    d = 1e-3
    q = lambda r, z: {"r": r, "z": z}  # noqa: E731
    m_r = np.abs(f(q(R + d, Z)) - 2 * f(q(R, Z)) + f(q(R - d, Z))).max() / d**2
    m_z = np.abs(f(q(R, Z + d)) - 2 * f(q(R, Z)) + f(q(R, Z - d))).max() / d**2 if "z" in region else 0.0
    return 1.01 * float(m_r) + 1e-8, 1.01 * float(m_z) + (1e-8 if "z" in region else 0.0)


def _c_commute(ctx):
    """Conversion to a Cartesian grid commutes with divergence / gradient up to discretisation error.

    Both legs are compared with the continuum object on the refinement pair N -> 2N of the
    curvilinear grid; the Cartesian target (spacing H) is fixed.

    * ``op_first``  (curvilinear operator, then conversion): the error is the smooth O(h^2)
      truncation error of the operator; criterion: it shrinks by >= 3 (theory 4; observed 3.9-4.1).
    * ``convert_first`` (conversion, then the Cartesian operator D_H): compared with D_H applied to the
      exact Cartesian image sampled on the target, so that the O(H^2) error of D_H cancels and
      got - ref = D_H(conv(I_h v) - V).  The interpolation error of bilinear interpolation is
      |I_h f - f| <= h_r^2/8 max|f_rr| + h_z^2/8 max|f_zz| =: eps(f) and is *not* smooth (it depends on
      the position of the target point inside the source cell), so ratios are erratic; instead the
      error must stay below the rigorous, quadratically shrinking envelope
          divergence:  (sum_c eps(v_c)) * sum_k 1/H_k          gradient:  eps(s) / min_k H_k
      at both N and 2N (a wrong component assignment is an O(1) error that does not shrink).
    """
    from pde import ScalarField, VectorField

    case = ctx.case
    op, leg = case["op"], case["leg"]  # divergence|gradient ; op_first|convert_first
    terms = case["terms"]  # vector: [[name, f, w]...]; scalar: [[[], f, w]]
    named = [[[n] if isinstance(n, str) else n, f, w] for n, f, w in terms]
    F = _cart_field(ctx.kind, named)
    errs, errs_d7, bounds = [], [], []
    vector_conversion = (op == "divergence" and leg == "convert_first") or (op == "gradient" and leg == "op_first")
    is_cyl = ctx.cls == "CylindricalSymGrid"
    for fac in (1, 2):
        spec = _refined(ctx.spec, fac)
        sub = _Ctx({"grid": spec, "angles": ctx.angles})
        g = sub.grid
        tgt = _target(sub, case["target"])
        X, q = _target_q(sub, tgt)
        inner = tuple(slice(1, -1) for _ in tgt.shape)
        cq = _cell_q(spec, ctx.angles)
        ref_d7 = None
        if op == "divergence":
            v = VectorField(g, np.stack([sum(w * COEF[f](cq) for n, f, w in terms if n == name) + 0 * cq["r"] for name in sub.ref]))
            if leg == "op_first":
                got = v.divergence("auto_periodic_neumann").interpolate_to_grid(tgt).data
                ref, _ = _cart_operator("divergence", F, X)
            else:
                got = v.interpolate_to_grid(tgt).divergence("auto_periodic_neumann").data[inner]
                ref = VectorField(tgt, np.moveaxis(F(X), -1, 0)).divergence("auto_periodic_neumann").data[inner]
                if is_cyl:
                    swapped = [[[CYL_COORD_ORDER[sub.ref.index(n)]], f, w] for n, f, w in terms]
                    Fd = _cart_field(ctx.kind, swapped)
                    ref_d7 = VectorField(tgt, np.moveaxis(Fd(X), -1, 0)).divergence("auto_periodic_neumann").data[inner]
        else:
            s = ScalarField(g, sum(w * COEF[f](cq) for _, f, w in terms))
            if leg == "op_first":
                got = s.gradient("auto_periodic_neumann").interpolate_to_grid(tgt).data
                val, _ = _cart_operator("gradient", F, X)
                ref = np.moveaxis(val, -1, 0)
                if is_cyl:
                    gc = _project(ctx.kind, sub.ref, q, val)  # exact components in the reference order
                    ref_d7 = np.moveaxis(_named_image(sub, {n: gc[k] for k, n in enumerate(CYL_COORD_ORDER)}, q), -1, 0)
            else:
                got = s.interpolate_to_grid(tgt).gradient("auto_periodic_neumann").data[(..., *inner)]
                ref = ScalarField(tgt, F(X)).gradient("auto_periodic_neumann").data[(..., *inner)]
        ctx.n += 2
        errs.append(float(np.abs(got - ref).max()))
        if ref_d7 is not None:
            errs_d7.append(float(np.abs(got - ref_d7).max()))
        scale = max(1.0, float(np.abs(ref).max()))
        if leg == "convert_first":
            # envelope of the interpolation error (see docstring)
            centres, _ = _own_geometry(spec)
            h = {a: float(c[1] - c[0]) for a, c in centres.items()}
            region = {a: (float(q[a].min()) - h[a], float(q[a].max()) + h[a]) for a in centres}
            eps = 0.0
            for _, f, w in terms:
                m_r, m_z = _max_second_derivatives(f, region)
                eps += abs(w) * (h["r"] ** 2 / 8 * m_r + (h["z"] ** 2 / 8 * m_z if "z" in h else 0.0))
            H = [(float(hi) - float(lo)) / n for (lo, hi), n in zip(tgt.axes_bounds, tgt.shape)]
            bounds.append(eps * sum(1 / x for x in H) if op == "divergence" else eps / min(H))
    floor = 1e-9 * scale

    def holds(e):
        if leg == "op_first":
            return e[1] <= max(e[0] / 3, floor)
        return all(e[k] <= bounds[k] + floor for k in range(2))

    ctx.info = {"errors": errs, "bounds": bounds}
    if holds(errs):
        ctx.out = "exact" if errs[1] <= floor else ("ratio>=3" if leg == "op_first" else "below envelope")
        return
    what = f"{op} / {'operate then convert' if leg == 'op_first' else 'convert then operate'}"
    crit = "does not shrink by >= 3" if leg == "op_first" else f"exceeds the interpolation envelope {bounds[0]:.3g} (N), {bounds[1]:.3g} (2N)"
    msg = (
        f"commutation {what} for field {_terms_str([[n if isinstance(n, str) else 's', f, w] for n, f, w in terms])}: "
        f"error against the continuum {errs[0]:.3g} (N) -> {errs[1]:.3g} (2N) {crit} (scale {scale:.3g})"
    )
    if vector_conversion and errs_d7 and holds(errs_d7):
        ctx.bad_sig(
            f"{D7}|commutation {what}",
            msg + f" -- but converges ({errs_d7[0]:.3g} -> {errs_d7[1]:.3g}) to the image contracted in coordinate-system order (r,phi,z)",
            errors=errs,
            errors_d7=errs_d7,
            bounds=bounds,
        )
        ctx.out = "D7"
        return
    part = "to_cartesian" if vector_conversion else "commutation"
    ctx.bad(part, f"other|commutation {what}", msg, errors=errs, errors_d7=errs_d7, bounds=bounds)


CLAUSES = {
    "names": _c_names,
    "getitem_vec": _c_getitem_vec,
    "getitem_ten": _c_getitem_ten,
    "expr_vec": _c_expr_vec,
    "expr_ten": _c_expr_ten,
    "operator": _c_operator,
    "products": _c_products,
    "tocart_direct": _c_tocart_direct,
    "tocart": _c_tocart,
    "vector_data": _c_vector_data,
    "commute": _c_commute,
}


def order(case):
    ctx = _Ctx(case)
    CLAUSES[case["clause"]](ctx)
    res = ctx.result()
    res["outs"] = [f"{case['clause']}:{res.pop('out')}"]
    if getattr(ctx, "info", None):
        res["info"] = ctx.info
    return res


def order_bundle(case):
    """mode J: several `order` cases in one worker sharing the grid objects, so that an operator is
    compiled once per grid (py-pde caches compiled operators per grid object).  Violations carry
    the single sub-case for replay."""
    global _GRID_CACHE
    _GRID_CACHE = {}
    agg = {"v": [], "n": 0, "keys": [], "outs": [], "ref": []}
    try:
        for sub in case["cases"]:
            res = order(sub)
            for v in res["v"]:
                v.setdefault("case", sub)
                v.setdefault("fn", FN_ORDER)
            agg["v"] += res["v"]
            agg["n"] += res["n"]
            agg["outs"] += res["outs"]
            agg["ref"] += list(res.get("ref") or [])
            if res.get("nt", True):
                agg["keys"].append(json.dumps(sub, sort_keys=True, ensure_ascii=False))
    finally:
        _GRID_CACHE = None
    agg["nt"] = bool(agg["keys"])
    return agg


# ----------------------------------------------------------------------------------------------
# enumeration
# ----------------------------------------------------------------------------------------------

PI = math.pi


def _basis_cases(tier, generic):
    if tier == "quick":
        radii = [0.5, 1.0, 2.3]
        phis = [0.0, 0.7, PI, 4.0, -1.0]
        thetas = [0.3, PI / 2, 2.5]
        heights = [-1.0, 0.0, 2.5]
        xs = [-1.0, 0.5, 2.0]
        sigmas, taus, scales = [1.0, 2.5, 4.0], [-0.8, 0.5, 1.3], [1.0]
    else:
        radii = [1e-3, 0.5, 1.0, 2.3, 10.0, 1e3]
        phis = [0.0, 0.7, PI / 2, PI, 4.0, 3 * PI / 2, 2 * PI, -1.0, -PI, -2 * PI - 0.3, 3 * PI + 0.1, 6.0, -4.0]
        thetas = [0.01, 0.3, PI / 2, 2.5, 3.1]
        heights = [-1e3, -1.0, 0.0, 2.5, 1e3]
        xs = [-1e3, -1.0, 0.0, 0.5, 2.0]
        sigmas, taus, scales = [0.4, 1.0, 2.5, 4.0, 5.5], [-2.0, -0.8, 0.5, 1.3], [1.0, 2.5]
    lat = {
        "cartesian1": [(None, p) for p in itertools.product(xs)],
        "cartesian2": [(None, p) for p in itertools.product(xs, xs)],
        "cartesian3": [(None, p) for p in itertools.product(xs, xs, xs)],
        "polar": [(None, p) for p in itertools.product(radii, phis)],
        "spherical": [(None, p) for p in itertools.product(radii, thetas, phis)],
        "cylindrical": [(None, p) for p in itertools.product(radii, phis, heights)],
        # smoke only
        "bipolar": [(a, p) for a in scales for p in itertools.product(sigmas, taus)],
        "bispherical": [
            (a, p) for a in scales for p in itertools.product([s for s in sigmas if s < PI], taus, phis[:5])
        ],
    }
    points, batches = [], []
    for name, pts in lat.items():
        for param, p in pts:
            points.append({"sys": name, "param": param, "point": list(p), "generic": generic[:3]})
        for param in sorted({a for a, _ in pts}, key=lambda x: (x is not None, x)):
            sel = [list(p) for a, p in pts if a == param]
            for shape2d in (False, True):
                batches.append({"sys": name, "param": param, "points": sel, "shape2d": shape2d, "generic": generic})
    return points, batches


def _grids(tier):
    if tier == "quick":
        radii, shapes1, shapes2 = [3, [1, 3]], [4, 7], [[4, 3], [6, 5]]
        zb, per = [[-1, 2]], [False, True]
    else:
        radii, shapes1, shapes2 = [3, [1, 3], [0.5, 2.5], 10], [3, 4, 7, 12], [[3, 3], [4, 3], [6, 5], [5, 8], [12, 4]]
        zb, per = [[-1, 2], [0.5, 3.5], [-4, -1]], [False, True]
    out = []
    for cls in ("PolarSymGrid", "SphericalSymGrid"):
        for r, s in itertools.product(radii, shapes1):
            out.append({"cls": cls, "radius": r, "shape": s})
    for r, s, z, p in itertools.product(radii, shapes2, zb, per):
        out.append({"cls": "CylindricalSymGrid", "radius": r, "shape": s, "bounds_z": z, "periodic_z": p})
    return out


def _rin_rout(spec):
    r = spec["radius"]
    return (float(r[0]), float(r[1])) if isinstance(r, list) else (0.0, float(r))


def _targets(spec, tier):
    """Cartesian target grids: the grid's own ones and explicit off-centre boxes (non-cubic shapes)"""
    r_in, r_out = _rin_rout(spec)
    a = r_in / math.sqrt(2) + 0.1 * (r_out - r_in)  # hypot(a, a) > r_in
    b = r_out / math.sqrt(2) * 0.95
    dim3 = spec["cls"] != "PolarSymGrid"
    if spec["cls"] == "CylindricalSymGrid":
        z0, z1 = spec["bounds_z"]
        zr = [z0 + 0.1 * (z1 - z0), z1 - 0.15 * (z1 - z0)]
    else:
        zr = [-0.6 * a, 0.5 * a]  # keeps r within (r_in, r_out): |z| small compared with the box
    # quadrant x>0, y<0 (phi<0) and quadrant x<0, y>0 (phi>pi/2)
    boxes = [
        {"bounds": [[a, b], [-b, -a]] + ([zr] if dim3 else []), "shape": [3, 4] + ([2] if dim3 else [])},
        {"bounds": [[-b, -a], [a, b]] + ([zr] if dim3 else []), "shape": [4, 3] + ([3] if dim3 else [])},
    ]
    own = [{"mode": "valid"}] + ([{"mode": "full"}] if tier != "quick" else [])
    return own + boxes


def _order_cases(tier, seed, angles):
    cases = []
    lattice = {
        "r": [0.5, 1.0, 2.3],
        "φ": [0.0, 0.7, PI, 4.0, -1.0] + ([PI / 2, -PI, 2 * PI, 6.0, -4.0] if tier != "quick" else []),
        "z": [-1.0, 0.0, 2.5],
        "θ": [0.3, PI / 2, 2.5],
    }
    for spec in _grids(tier):
        cls = spec["cls"]
        ref, d = REF[cls], len(REF[cls])
        axes = ["r", "z"] if cls == "CylindricalSymGrid" else ["r"]
        base = {"grid": spec, "seed": seed, "angles": angles}
        C = lambda **kw: cases.append({**base, **kw})  # noqa: E731
        C(clause="names")
        for i in range(d):
            C(clause="getitem_vec", i=i)
            for j in range(d):
                C(clause="getitem_ten", i=i, j=j)
        # from_expression: every position x every elementary expression, plus all-different markers
        exprs = ["1"] + axes
        C(clause="expr_vec", k=0, e="markers")
        C(clause="expr_ten", k=[0, 0], e="markers")
        for e in exprs:
            for k in range(d):
                C(clause="expr_vec", k=k, e=e)
                for l in range(d):
                    C(clause="expr_ten", k=[k, l], e=e)
        # operators: f e_i for every f in {1} + grid coordinates
        variants = {"gradient": [{}], "divergence": [{}], "vector_gradient": [{}], "tensor_divergence": [{}], "vector_laplace": [{}]}
        if cls == "SphericalSymGrid":
            variants["divergence"] = [{"conservative": False}, {"conservative": True}]
            variants["tensor_divergence"] = [{"conservative": False}]
            del variants["vector_laplace"]
        if cls == "PolarSymGrid":
            del variants["vector_laplace"]
        for a in axes:
            for o in variants["gradient"]:
                C(clause="operator", op="gradient", terms=[[[], a, 1.0]], opts=o)
        for op in ("divergence", "vector_gradient", "vector_laplace"):
            for o in variants.get(op, []):
                for f in exprs:
                    if o.get("conservative") and f != "r":
                        continue  # the finite-volume stencil is exact only for v_r = r
                    for i in range(d):
                        C(clause="operator", op=op, terms=[[[i], f, 1.0]], opts=o)
        for o in variants["tensor_divergence"]:
            for f in exprs:
                for i in range(d):
                    for j in range(d):
                        C(clause="operator", op="tensor_divergence", terms=[[[i, j], f, 1.0]], opts=o)
                if cls == "SphericalSymGrid":
                    # admissible combinations on a spherically symmetric grid
                    C(clause="operator", op="tensor_divergence", terms=[[[1, 1], f, 1.0], [[2, 2], f, 1.0]], opts=o)
                    C(clause="operator", op="tensor_divergence", terms=[[[1, 2], f, 1.0], [[2, 1], f, -1.0]], opts=o)
                    C(clause="operator", op="tensor_divergence", terms=[[[0, 0], f, 1.0], [[1, 1], f, 0.5], [[2, 2], f, 0.5]], opts=o)
        # products
        # real operands, and complex operands with conjugate=True/False
        for backend in ("field", "numpy", "numba"):
            for i in range(d):
                for j in range(d):
                    C(clause="products", i=i, j=j, backend=backend)
                    for conj in (True, False):
                        C(clause="products", i=i, j=j, backend=backend, conjugate=conj)
        # conversion to Cartesian
        for i in range(d):
            C(clause="tocart_direct", i=i, lattice={n: lattice[n] for n in ref})
            if cls == "PolarSymGrid":
                C(clause="vector_data", i=i)
        gen = _generic(seed, (d,), 8).round(3).tolist()
        fields = [("unit field e_" + n, [[n, "1", 1.0]]) for n in ref]
        fields.append(("radial field r e_r", [["r", "r", 1.0]]))
        fields.append(("azimuthal field r e_φ", [["φ", "r", 1.0]]))
        fields.append(("generic superposition", [[n, "1", gen[k]] for k, n in enumerate(ref)] + [["r", "r", 0.5]]))
        if cls == "CylindricalSymGrid":
            fields.append(("axial field z e_z", [["z", "z", 1.0]]))
            fields.append(("position field r e_r + z e_z", [["r", "r", 1.0], ["z", "z", 1.0]]))
            fields.append(("mixed field z e_r + r e_z + z e_φ", [["r", "z", 1.0], ["z", "r", 1.0], ["φ", "z", 1.0]]))
        if cls == "SphericalSymGrid":
            fields.append(("polar field r e_θ", [["θ", "r", 1.0]]))
        for fam, terms in fields:
            for tgt in _targets(spec, tier):
                for build in ("index", "name", "expr"):
                    C(clause="tocart", family=fam, terms=terms, build=build, target=tgt)
    return cases


def _commute_cases(tier, seed, angles):
    amp = (0.75 + 0.5 * np.random.default_rng([int(seed), 19]).random(3)).round(3).tolist()
    cases = []
    # coarse level N of the pair N -> 2N; targets are coarse (H >> h) and at least two coarse cells
    # away from every boundary of the curvilinear grid and from the axis
    levels = [32] if tier == "quick" else [16, 32, 64]
    for cls in REF:
        for radius in (3, [1, 3]):
            for n in levels:
                if cls == "CylindricalSymGrid":
                    spec = {"cls": cls, "radius": radius, "shape": [n, 3 * n // 4], "bounds_z": [-1, 2], "periodic_z": False}
                else:
                    spec = {"cls": cls, "radius": radius, "shape": n}
                if cls == "PolarSymGrid":
                    tg = [{"bounds": [[0.9, 1.8], [-1.8, -1.0]], "shape": [3, 4]}, {"bounds": [[-1.8, -1.0], [0.9, 1.8]], "shape": [4, 3]}]
                    vec = [["r", "P_r", amp[0]], ["φ", "P_φ", amp[1]]]
                    sca = [[[], "P_s", amp[0]]]
                    div_first = vec
                elif cls == "SphericalSymGrid":
                    tg = [
                        {"bounds": [[0.9, 1.6], [-1.6, -1.0], [0.1, 1.0]], "shape": [3, 4, 3]},
                        {"bounds": [[-1.6, -1.0], [0.9, 1.6], [-1.0, -0.1]], "shape": [4, 3, 3]},
                    ]
                    vec = [["r", "S_r", amp[0]], ["θ", "S_θ", amp[1]], ["φ", "S_φ", amp[2]]]
                    div_first = [["r", "S_r", amp[0]]]  # the operators refuse non-radial components
                    sca = [[[], "S_s", amp[0]]]
                else:
                    tg = [
                        {"bounds": [[0.9, 1.8], [-1.8, -1.0], [-0.4, 1.4]], "shape": [3, 4, 3]},
                        {"bounds": [[-1.8, -1.0], [0.9, 1.8], [-0.4, 1.4]], "shape": [4, 3, 4]},
                    ]
                    vec = [["r", "C_r", amp[0]], ["z", "C_z", amp[1]], ["φ", "C_φ", amp[2]]]
                    sca = [[[], "C_s", amp[0]]]
                    div_first = vec
                if tier == "quick":
                    tg = tg[:1]
                base = {"clause": "commute", "grid": spec, "seed": seed, "angles": angles}
                for t in tg:
                    cases.append({**base, "op": "divergence", "leg": "op_first", "terms": div_first, "target": t})
                    cases.append({**base, "op": "divergence", "leg": "convert_first", "terms": vec, "target": t})
                    # single components, so that a swap of two components cannot cancel
                    for term in vec:
                        cases.append({**base, "op": "divergence", "leg": "convert_first", "terms": [term], "target": t})
                    cases.append({**base, "op": "gradient", "leg": "op_first", "terms": sca, "target": t})
                    cases.append({**base, "op": "gradient", "leg": "convert_first", "terms": sca, "target": t})
    return cases


def _jit_subset(cases, tier):
    """mode J: code that exists only under JIT (dot_ol / outer_ol overloads of the numba backend,
    compiled interpolator, compiled operators) - the smallest grid of every class (thorough: also
    the smallest one with a hole), every index; bundled per (grid, clause, operator) so that each
    operator is compiled once"""
    first = {}
    bundles = {}
    for c in cases:
        hole = isinstance(c["grid"]["radius"], list)
        if hole and tier == "quick":
            continue
        cls = c["grid"]["cls"] + ("(hole)" if hole else "")
        g = first.setdefault(cls, c["grid"])
        if c["grid"] != g:
            continue
        cl = c["clause"]
        if cl == "products" and c["backend"] == "numba" and (c["i"], c["j"]) == (0, 0):
            for kind in ("vv", "outer", "tv", "vt", "tt"):  # one compilation each
                sub = {k: v for k, v in c.items() if k not in ("i", "j")}
                sub.update(pairs="all", kinds=[kind])
                # one bundle per compiled signature (real / complex x conjugate flag)
                bundles.setdefault((cls, cl, kind, str(c.get("conjugate"))), []).append(sub)
        elif cl == "tocart" and c["build"] == "index" and c["family"].startswith("unit") and "bounds" in c["target"] and c["target"]["bounds"][0][0] > 0:
            bundles.setdefault((cls, cl, ""), []).append(c)
        elif cl == "operator" and c["terms"][0][1] == "r" and (tier != "quick" or (c["op"] in ("gradient", "divergence", "vector_gradient") and not c["opts"].get("conservative"))):
            bundles.setdefault((cls, cl, c["op"]), []).append(c)
    # most expensive compilations first (3-d data on the cylinder, tensor.tensor), so that they
    # do not end up at the tail of the pool
    cost = lambda k: (not k[0].startswith("Cylindrical"), {"tt": 0, "tv": 1, "vt": 1}.get(k[2], 2))  # noqa: E731
    return [{"bundle": list(k), "cases": bundles[k]} for k in sorted(bundles, key=cost)]


def main(run):
    seed = int(run.seed)
    only = getattr(run, "only", None)
    generic = _generic(seed, (400,), 9).round(4).tolist()
    angles = {"φ": round(0.7 + 0.37 * (seed % 7), 3), "θ": round(1.1 + 0.13 * (seed % 5), 3)}
    points, batches = _basis_cases(run.tier, generic)
    ocases = _order_cases(run.tier, seed, angles)
    ccases = _commute_cases(run.tier, seed, angles)
    jcases = _jit_subset(ocases, run.tier)

    def go(part, fn, cases, mode="I", **kw):
        if only and part not in only:
            return
        run.explore(fn, cases, mode=mode, part=part, **kw)

    go("bases", FN_BASIS, points)
    go("bases_batch", FN_BATCH, batches)
    go("order", FN_ORDER, ocases)
    go("commute", FN_ORDER, ccases, chunksize=1)
    go("order[J]", "checks.c19:order_bundle", jcases, mode="J", chunksize=1, limit=900)

    run.notes["reference_order"] = REF
    run.notes["generic_angles_of_the_operator_oracle"] = angles
    run.notes["cases"] = {
        "basis points": len(points),
        "basis batches": len(batches),
        "order (mode I)": len(ocases),
        "order by clause": {k: sum(1 for c in ocases if c["clause"] == k) for k in CLAUSES if k != "commute"},
        "commutation (refinement pairs)": len(ccases),
        "order (mode J)": f"{sum(len(b['cases']) for b in jcases)} cases in {len(jcases)} bundles",
        "grids": len(_grids(run.tier)),
    }
    run.notes["tolerances"] = {
        "exact relations": TOL_EXACT,
        "finite-difference oracles": "10 x (|D_2h - D_h|/3 + eps*scale/h^k), h = 1e-5 (jacobian), 1e-4 (first), 1e-3 (second derivatives)",
        "commutation": "operate-then-convert: error against the continuum shrinks by >= 3 from N to 2N (theory 4); "
        "convert-then-operate: error <= (sum_c (h_r^2/8 max|f_rr| + h_z^2/8 max|f_zz|)) * sum_k 1/H_k (divergence) or "
        "<= eps(s)/min H_k (gradient) at N and at 2N; floor 1e-9 x scale",
    }
    run.assumptions += [
        "reference component order = grid axes followed by symmetric axes, hard-coded in the check: "
        "(r, phi) polar, (r, theta, phi) spherical, (r, z, phi) cylindrical",
        "the unit vector 'of axis name n' is the textbook one (normalised d x / d q_n), written by hand in the check",
        "points on the axis / origin / poles (singular bases) are excluded",
        "operator clauses compare interior cells only (independent of the boundary condition) and use f in {1, r, z}, "
        "for which all stencils are exact; the conservative spherical divergence is exact only for v_r = r",
        "components that a SphericalSymGrid operator refuses (AssertionError of the symmetry check) are counted as refusals",
        "Tensor2Field has no conversion to Cartesian grids (NotImplementedError), tensors are covered through names, "
        "expressions, products and operators only",
        "mode I (NUMBA_DISABLE_JIT=1) for everything; mode J for the numba overloads of dot/outer, the compiled "
        "interpolator and three operators on one grid per class",
        "bipolar / bispherical coordinates: smoke lattice only",
    ]
    return (
        "(a) every point of the lattice radii x angles x heights of 8 coordinate systems (one case per point + "
        "vectorised batches); (b) every curvilinear grid of {Polar, Spherical, Cylindrical} x {no hole, hole} x shapes "
        "(x periodic_z) x every clause x every component index / pair / elementary coefficient {1, r, z} x every "
        "construction route {index, name, expression} x every Cartesian target; (c) refinement pairs for the "
        "commutation clause.  A case is distinct by its full specification and non-trivial if the oracle compared at "
        "least one value (refusals and empty masks are not counted)"
    )
