"""C18 - Poisson/Laplace solvers return solutions of the discrete problem.

One case = one (grid, boundary-condition assignment).  The worker

1. extracts the discrete operator with BCs, ``L_bc(u) = A u + b``, by applying the real Laplacian
   (``ScalarField.laplace(bc)``: ghost cells from the BCs, then the stencil; not the cached
   ``make_operator``) to the zero field and to every unit basis vector - independent of the sparse
   matrices used by the solver;
2. compares the sparse-matrix route ``_get_laplace_matrix(bcs)`` of the scipy backend entry-wise with
   ``(A, b)`` (this localises defects);
3. classifies the problem as non-singular (``cond(A) < 1e10``) or singular and enumerates the
   right-hand sides: non-singular - zero and EVERY unit basis vector (the solve is affine in the
   rhs); singular - ``0``, ``b``, ``b + A e_k`` (a spanning set of the compatible rhs),
   ``b + n_k`` (left null vectors), ``b + e_k`` and ``b + 1`` (classified by their distance from
   ``range(A)``);
4. calls ``solve_poisson_equation`` for each of them and ``solve_laplace_equation`` once.

See DESIGN.md, C18.
"""

from __future__ import annotations

import itertools

from checks._grids import geometry, grid_name, make_grid

PROPERTY = "C18"
LEVEL = "exploration"
FN = "checks.c18:solve_case"

# np.allclose(mat @ u, rhs - vec, rtol=1e-5, atol=1e-5) is the acceptance test of
# make_general_poisson_solver.solve_poisson (both for spsolve and for the lsmr fallback), i.e.
# |(M u + vec - rhs)_i| <= 1e-5 (1 + |rhs_i - vec_i|).  The oracle allows twice that (the factor 2
# covers evaluating the residual with the stencil instead of the matrix; direct solves are at 1e-15).
SOLVER_TOL = 1e-5
TOL = 2 * SOLVER_TOL
COND_SINGULAR = 1e10
MATRIX_RTOL = 1e-12

CLASS = {"unit": "UnitGrid", "cart": "CartesianGrid", "polar": "PolarSymGrid", "sph": "SphericalSymGrid",
         "cyl": "CylindricalSymGrid"}

SCALAR_KINDS = ["value0", "value", "derivative0", "derivative", "mixed0", "mixed", "curvature0", "curvature"]
ARRAY_KINDS = ["value_arr", "mixed_arr", "curvature_arr"]  # values differ from face cell to face cell


# ----------------------------------------------------------------------------------------------
# alphabet (parent side; plain Python only)
# ----------------------------------------------------------------------------------------------


def bc_values(seed):
    """generic inhomogeneous values; VERIF_SEED only moves them (gamma stays > 0)"""
    s = seed % 7
    return {"v": 1.5 + 0.125 * s, "d": -0.7 - 0.0625 * s, "g0": 2.0 + 0.25 * s, "g1": 1.5 + 0.125 * s,
            "beta": 0.5 + 0.0625 * s, "k": 1.2 + 0.125 * s}


def _nest(flat, shape):
    if len(shape) <= 1:
        return list(flat)
    step = len(flat) // shape[0]
    return [_nest(flat[i * step:(i + 1) * step], shape[1:]) for i in range(shape[0])]


def side_spec(kind, face_shape, vals):
    """JSON-able py-pde specification of one side"""
    n = 1
    for s in face_shape:
        n *= s

    def arr(base, step):
        return _nest([base * (1 + step * j) for j in range(n)], face_shape)

    if kind == "value0":
        return {"type": "value", "value": 0.0}
    if kind == "value":
        return {"type": "value", "value": vals["v"]}
    if kind == "derivative0":
        return {"type": "derivative", "value": 0.0}
    if kind == "derivative":
        return {"type": "derivative", "value": vals["d"]}
    if kind == "mixed0":
        return {"type": "mixed", "value": vals["g0"], "const": 0.0}
    if kind == "mixed":
        return {"type": "mixed", "value": vals["g1"], "const": vals["beta"]}
    if kind == "curvature0":
        return {"type": "curvature", "value": 0.0}
    if kind == "curvature":
        return {"type": "curvature", "value": vals["k"]}
    if kind == "value_arr":
        return {"type": "value", "value": arr(vals["v"], 0.25)}
    if kind == "mixed_arr":
        return {"type": "mixed", "value": arr(vals["g1"], 0.5), "const": arr(vals["beta"], -0.75)}
    if kind == "curvature_arr":
        return {"type": "curvature", "value": arr(vals["k"], -0.5)}
    raise ValueError(kind)


def make_case(spec, kinds, vals):
    """kinds: per axis None (periodic) or (kind_low, kind_high)"""
    geo = geometry(spec)
    bc = {}
    for a, name in enumerate(geo["axes"]):
        if geo["periodic"][a]:
            bc[name] = "periodic"
            continue
        face = [n for i, n in enumerate(geo["shape"]) if i != a]
        bc[name + "-"] = side_spec(kinds[a][0], face, vals)
        bc[name + "+"] = side_spec(kinds[a][1], face, vals)
    return {"grid": spec, "bc": bc}


G1 = [
    ["unit", [2], [False]],
    ["unit", [3], [False]],
    ["unit", [4], [False]],
    ["cart", [[-1, 1]], [4], [False]],  # dx = 0.5
    ["cart", [[0, 3]], [2], [False]],  # dx = 1.5
    ["cart", [[0.5, 1.25]], [3], [False]],  # dx = 0.25
    ["unit", [2], [True]],
    ["unit", [3], [True]],
    ["cart", [[0, 1]], [4], [True]],
    ["polar", [1, 2], 3],
    ["polar", [0.5, 2], 2],
    ["polar", [1, 3], 4],
    ["polar", 2, 3],
    ["polar", 1, 2],
    ["polar", 3, 4],
    ["sph", [1, 2], 3],
    ["sph", [0.5, 2], 2],
    ["sph", [1, 3], 4],
    ["sph", 2, 3],
    ["sph", 1, 2],
    ["sph", 3, 4],
]
G2 = [
    ["unit", [3, 2], [False, False]],
    ["cart", [[0, 1], [-1, 3]], [2, 3], [False, False]],  # dx = 0.5, 4/3
    ["cart", [[0, 1], [0, 1]], [4, 2], [False, False]],
    ["cart", [[0, 1], [-1, 3]], [3, 2], [True, False]],
    ["cart", [[0, 2], [0, 1]], [2, 4], [False, True]],
    ["cart", [[0, 1], [0, 3]], [2, 3], [True, True]],
    ["cyl", [1, 2], [0, 1], [2, 3], False],
    ["cyl", 2, [-1, 1], [3, 2], False],
    ["cyl", [1, 3], [0, 1], [4, 2], False],
    ["cyl", [0.5, 1.5], [0, 2], [2, 2], True],
    ["cyl", 1, [0, 3], [2, 4], True],
]
G3 = [
    ["cart", [[0, 1], [0, 2], [0, 3]], [2, 2, 3], [False, False, False]],  # dx = 0.5, 1, 1
    ["unit", [3, 2, 2], [False, False, False]],
    ["cart", [[0, 1], [0, 2], [-3, 3]], [2, 3, 2], [False, True, False]],
    ["cart", [[0, 1], [0, 1], [0, 1]], [2, 2, 2], [True, True, False]],
    ["cart", [[0, 2], [0, 1], [0, 1]], [4, 2, 2], [False, True, True]],
    ["unit", [2, 2, 2], [True, True, True]],
]
G_THOROUGH = [
    ["cart", [[1e-3, 3e-3]], [4], [False]],  # dx = 5e-4
    ["polar", [0.5, 3], 4],
    ["sph", [2, 2.5], 4],
    ["sph", 1, 4],
    ["cart", [[-2, -1], [5, 8]], [3, 4], [False, False]],
    ["cart", [[0, 1], [0, 1]], [4, 4], [False, True]],
    ["cyl", [0.5, 1.5], [-2, 2], [3, 4], False],
    ["cyl", 1, [0, 3], [4, 3], False],
    ["cyl", [2, 4], [0, 1], [4, 4], True],
    ["cart", [[0, 3], [0, 2], [0, 1]], [3, 3, 2], [False, False, False]],
    ["cart", [[0, 1], [0, 1], [0, 2]], [2, 2, 4], [True, False, False]],
    ["cart", [[0, 1], [0, 1], [0, 1]], [4, 3, 2], [False, False, True]],
]
# grids on which the thorough tier enumerates ALL combinations of the scalar kinds on both axes
G_FULL2 = [
    ["cart", [[0, 1], [-1, 3]], [2, 3], [False, False]],
    ["unit", [3, 2], [False, False]],
    ["cyl", [1, 2], [0, 1], [2, 3], False],
    ["cyl", 2, [-1, 1], [3, 2], False],
]
# one representative per grid family (hole / no hole / periodic) for the real-JIT conformance part
G_JIT = [
    (["unit", [3], [False]], [("mixed", "curvature")]),
    (["cart", [[0, 1]], [4], [True]], [None]),
    (["polar", [1, 2], 3], [("value", "curvature")]),
    (["polar", 2, 3], [("derivative0", "mixed")]),
    (["sph", [1, 2], 3], [("mixed", "value")]),
    (["sph", 2, 3], [("curvature", "value")]),
    (["cyl", [1, 2], [0, 1], [2, 3], False], [("curvature", "value_arr"), ("mixed_arr", "derivative")]),
    (["cyl", 1, [0, 3], [2, 4], True], [("derivative0", "mixed"), None]),
    (["cart", [[0, 1], [-1, 3]], [2, 3], [False, False]], [("value_arr", "curvature"), ("derivative", "mixed")]),
    (["cart", [[0, 1], [0, 2], [-3, 3]], [2, 3, 2], [False, True, False]], [("mixed", "value"), None, ("curvature_arr", "derivative0")]),
    (["unit", [3, 2], [False, False]], [("derivative0", "derivative0"), ("derivative0", "derivative0")]),
    (["unit", [3], [False]], [("curvature0", "curvature")]),
]


def enumerate_cases(tier, seed):
    vals = bc_values(seed)
    grids = G1 + G2 + G3 + (G_THOROUGH if tier == "thorough" else [])
    # strides coprime with the number of pairs: while the primary axis runs through all its ordered
    # pairs, every other axis runs through all of ITS ordered pairs as well (once each)
    strides = (7, 23, 41) if tier == "thorough" else (7,)
    cases, seen = [], set()

    def add(spec, kinds):
        c = make_case(spec, kinds, vals)
        k = grid_name(spec) + "|" + repr(sorted(c["bc"].items()))
        if k not in seen:
            seen.add(k)
            cases.append(c)

    for spec in grids:
        geo = geometry(spec)
        n = geo["num_axes"]
        kinds = SCALAR_KINDS + (ARRAY_KINDS if n > 1 else [])
        pairs = list(itertools.product(kinds, repeat=2))  # ALL ordered pairs (lower, upper)
        free = [a for a in range(n) if not geo["periodic"][a]]
        if not free:
            add(spec, [None] * n)
            continue
        for prim in free:
            for stride in strides if n > 1 else (7,):
                for p, pair in enumerate(pairs):
                    ks = [None] * n
                    for a in free:
                        if a == prim:
                            ks[a] = pair
                        else:
                            ks[a] = pairs[(stride * p + 13 * (a + 1) + 29 * prim + seed) % len(pairs)]
                    add(spec, ks)
    if tier == "thorough":
        sp = list(itertools.product(SCALAR_KINDS, repeat=2))
        for spec in G_FULL2:
            for p0 in sp:
                for p1 in sp:
                    add(spec, [p0, p1])
    return cases


# ----------------------------------------------------------------------------------------------
# worker
# ----------------------------------------------------------------------------------------------


def _np_bc(np, bc):
    out = {}
    for key, spec in bc.items():
        if isinstance(spec, dict):
            spec = {k: (np.array(v, dtype=float) if isinstance(v, list) else v) for k, v in spec.items()}
        out[key] = spec
    return out


def _side_name(geo, axis, upper):
    ax = geo["axes"][axis]
    if ax == "r":
        return "outer" if upper else "inner"
    return ax + ("+" if upper else "-")


def _side_kind(geo, bc, axis, upper):
    ax = geo["axes"][axis]
    if geo["periodic"][axis]:
        return "periodic"
    return bc[ax + ("+" if upper else "-")]["type"]


def _family(spec, geo):
    if spec[0] in ("polar", "sph", "cyl"):
        rad = spec[1]
        hole = isinstance(rad, (list, tuple)) and float(rad[0]) > 0
        tag = "hole" if hole else "no hole"
        if spec[0] == "cyl":
            tag += ", periodic z" if geo["periodic"][1] else ""
        return f"{CLASS[spec[0]]}|{tag}"
    per = "".join("p" if p else "n" for p in geo["periodic"])
    return f"{CLASS[spec[0]]}|{geo['num_axes']} axes {per}"


def _unravel(k, shape):
    idx = []
    for s in reversed(shape):
        idx.append(k % s)
        k //= s
    return tuple(reversed(idx))


def _sides_of_entry(geo, row, col):
    """the sides whose boundary condition enters entry (row, col) of the operator (col=None: constant)"""
    shape = geo["shape"]
    i = _unravel(row, shape)
    axes = list(range(len(shape)))
    if col is not None and col != row:
        j = _unravel(col, shape)
        diff = [a for a in axes if i[a] != j[a]]
        if len(diff) == 1:
            axes = diff
    sides = []
    for a in axes:
        if i[a] == 0:
            sides.append((a, False))
        if i[a] == shape[a] - 1:
            sides.append((a, True))
    return sides


def _feature_of_entries(geo, bc, entries):
    """localise a set of differing entries [(row, col)]: the entry that involves the fewest sides names the
    family - one side: '<kind> at <side> boundary'; several (corner cell): only the sides are named"""
    best = min((_sides_of_entry(geo, r, c) for r, c in entries), key=len)
    if not best:
        return "interior row"
    if len(best) == 1:
        a, up = best[0]
        if geo["axes"][a] == "r" and not up and geo["bounds"][a][0] == 0:
            return "row at the axis r=0 (no hole: the inner condition does not enter)"
        return f"{_side_kind(geo, bc, a, up)} at {_side_name(geo, a, up)} boundary"
    return "row touching the " + ",".join(_side_name(geo, a, up) for a, up in best) + " boundaries"


def _feature_all(geo, bc):
    parts = []
    for a in range(geo["num_axes"]):
        if geo["periodic"][a]:
            parts.append(f"{geo['axes'][a]}:periodic")
        else:
            parts.append(f"{geo['axes'][a]}:{_side_kind(geo, bc, a, False)}/{_side_kind(geo, bc, a, True)}")
    return "bc " + ",".join(parts)


def _short(msg):
    import re

    return re.sub(r"[-+]?\d+\.?\d*(e[-+]?\d+)?", "#", str(msg))[:90]


def solve_case(case):
    import numpy as np
    from pde import ScalarField, solve_laplace_equation, solve_poisson_equation
    from pde.backends.scipy.operators import cartesian, cylindrical_sym, polar_sym, spherical_sym

    spec, bcj = case["grid"], case["bc"]
    only = case.get("only")  # replay of a minimal failing input: restrict to these rhs labels
    geo = geometry(spec)
    grid = make_grid(spec)
    shape = tuple(geo["shape"])
    N = int(np.prod(shape))
    bc = _np_bc(np, bcj)
    fam = _family(spec, geo)
    gname = grid_name(spec)
    viol, refs, nexec = [], [], 0
    seen_sigs = set()

    def report(feature, clause, msg, label=None, detail=None):
        sig = f"{fam}|{feature}|{clause}"
        if sig in seen_sigs:
            return
        seen_sigs.add(sig)
        mini = {"grid": spec, "bc": bcj}
        if label is not None:
            mini["only"] = [label]
        viol.append({"sig": sig, "msg": f"{gname} bc={bcj!r}: {msg}", "detail": detail, "case": mini, "fn": FN})

    # -- 1. the discrete operator with BCs, extracted from the real Laplacian -------------------
    # ``field.laplace(bcs)`` sets the ghost cells and applies the BC-independent stencil; it does not go through
    # the cached ``make_operator`` of the numba backend (whose cache key is the subject of C04, not of C18)
    bcs = grid.get_boundary_conditions(bc)

    def L(vec, cond=None):
        f = ScalarField(grid, np.array(vec.reshape(shape), dtype=float))
        return np.array(f.laplace(bcs if cond is None else cond).data, dtype=float).ravel()

    b = L(np.zeros(N))
    A = np.empty((N, N))
    for k in range(N):
        e = np.zeros(N)
        e[k] = 1.0
        A[:, k] = L(e) - b
    nexec += N + 1
    amax = float(np.abs(A).max())
    bmax = float(np.abs(b).max())
    # the extraction is only meaningful if the operator is affine: checked on a generic vector and on
    # all pairs e_j + 2 e_k of a small grid
    w = np.cos(1.0 + 1.7 * np.arange(N)) + 0.3
    probes = [("generic", w)]
    if N <= 6:
        for j in range(N):
            for k in range(N):
                if j != k:
                    e = np.zeros(N)
                    e[j], e[k] = 1.0, 2.0
                    probes.append((f"e{j}+2e{k}", e))
    for lab, x in probes:
        nexec += 1
        # the generic vector goes through the user-level route (BC specification parsed by the field)
        Lx = L(x, bc) if lab == "generic" else L(x)
        if not np.all(np.abs(Lx - (A @ x + b)) <= 1e-11 * (bmax + amax * 8)):
            report(_feature_all(geo, bc), "Laplacian with these BCs is not an affine map (harness premise)",
                   f"L({lab}) != A {lab} + b", detail={"probe": lab})
            break

    # -- 2. the sparse matrix route of the scipy backend -----------------------------------------
    mod = {"unit": cartesian, "cart": cartesian, "polar": polar_sym, "sph": spherical_sym, "cyl": cylindrical_sym}[spec[0]]
    M_sp, v_sp = mod._get_laplace_matrix(grid.get_boundary_conditions(bc))
    M = np.asarray(M_sp.toarray(), dtype=float)
    vec = np.asarray(v_sp.toarray(), dtype=float)[:, 0]
    nexec += 1
    mtol = MATRIX_RTOL * (amax + bmax + max(1.0 / d**2 for d in geo["dx"]))
    mism_feature = None
    dM = np.abs(M - A)
    if not np.all(dM <= mtol):
        bad = [(int(r), int(c)) for r, c in np.argwhere(dM > mtol)]
        r, c = bad[0]
        mism_feature = _feature_of_entries(geo, bc, bad)
        report(mism_feature, "sparse matrix differs from the operator",
               f"_get_laplace_matrix: entry ({r},{c}) is {M[r, c]!r}, the operator has {A[r, c]!r} "
               f"({int((dM > mtol).sum())} entries differ)",
               label="none", detail={"row": r, "col": c, "matrix": M.tolist(), "operator": A.tolist()})
    dv = np.abs(vec - b)
    if not np.all(dv <= mtol):
        bad = [(int(r[0]), None) for r in np.argwhere(dv > mtol)]
        r = bad[0][0]
        f = _feature_of_entries(geo, bc, bad)
        mism_feature = mism_feature or f
        report(f, "sparse constant vector differs from the operator",
               f"_get_laplace_matrix: constant of row {r} is {vec[r]!r}, the operator has {b[r]!r}",
               label="none", detail={"row": r, "vector": vec.tolist(), "operator": b.tolist()})

    # -- 3. classification and right-hand sides ---------------------------------------------------
    # singular values are judged against the natural scale 1/dx^2 as well: with curvature conditions on both
    # sides of a 2-cell axis the whole operator vanishes and A consists of rounding noise only
    U, S, _ = np.linalg.svd(A)
    smax = max(float(S[0]), max(1.0 / d**2 for d in geo["dx"]))
    cond = smax / float(S[-1]) if S[-1] > 0 else float("inf")
    singular = not cond < COND_SINGULAR
    rank = int((S > 1e-10 * smax).sum())
    null = U[:, rank:]  # left null space: rhs - b is compatible iff orthogonal to it
    # family of a solver-level violation: the boundary whose matrix entries are wrong if there is one, else (the
    # matrices agree with the operator, so the cause lies in the solve itself) only the class of the problem
    feature = mism_feature or ("singular problem" if singular else "non-singular problem")

    def classify(r):
        """'ok' solvable, 'bad' provably rejected by the solver's own test, None borderline"""
        if not singular:
            return "ok"
        wv = r - b
        dist = float(np.linalg.norm(null.T @ wv))
        if dist <= 1e-10 * (1 + float(np.linalg.norm(wv))):
            return "ok"
        # every u has |M u - w|_2 >= dist, i.e. some component >= dist/sqrt(N); the solver accepts only
        # |.|_i <= 1e-5 (1+|w_i|): with a factor 10 in hand no field can be accepted
        if dist / np.sqrt(N) > 10 * SOLVER_TOL * (1 + float(np.abs(wv).max())):
            return "bad"
        return None

    rhs = [("zero", np.zeros(N))]
    for k in range(N):
        e = np.zeros(N)
        e[k] = 1.0
        if singular:
            rhs.append((f"b+A.e{k}", b + A[:, k]))
            rhs.append((f"b+e{k}", b + e))
        else:
            rhs.append((f"e{k}", e))
    if singular:
        rhs.append(("b", b.copy()))
        rhs.append(("b+1", b + 1.0))
        for k in range(null.shape[1]):
            rhs.append((f"b+null{k}", b + null[:, k]))

    # -- 4. the solver -----------------------------------------------------------------------------
    stat = {"solved": 0, "compat_field": 0, "compat_exc": 0, "incompat_exc": 0, "borderline": 0}
    worst = 0.0

    def residual_ok(u, r):
        nonlocal worst
        if not np.all(np.isfinite(u)):
            return False, float("inf")
        res = np.abs(L(u) - r)
        ratio = float(np.max(res / (TOL * (1 + np.abs(r - b)))))
        if ratio <= 1.0:
            worst = max(worst, ratio)  # largest accepted residual in units of the tolerance
        return ratio <= 1.0, float(res.max())

    def solve(r):
        try:
            u = solve_poisson_equation(ScalarField(grid, r.reshape(shape)), bc)
        except Exception as exc:  # noqa: BLE001
            return None, exc
        return np.array(u.data, dtype=float).ravel(), None

    def wanted(label):
        return only is None or label in only

    zero_result = None
    for label, r in rhs:
        if not wanted(label) and not (label == "zero" and wanted("laplace")):
            continue
        kind = classify(r)
        if kind is None:
            stat["borderline"] += 1
            continue
        u, exc = solve(r)
        nexec += 1
        if label == "zero":
            zero_result = (u, exc)
            if not wanted("zero"):
                continue
        if exc is not None and not isinstance(exc, RuntimeError):
            report(feature, f"unexpected {type(exc).__name__} from solve_poisson_equation",
                   f"rhs={label}: {type(exc).__name__}: {str(exc)[:200]}", label=label)
            continue
        if kind == "bad":
            if exc is None:
                ok, rmax = residual_ok(u, r)
                umax = float(np.abs(u).max()) if np.all(np.isfinite(u)) else float("inf")
                # a field of magnitude ~1/eps is the signature of an LU factorisation that did not notice the
                # singularity (tiny instead of zero pivot); the solver's residual test is then passed by rounding
                huge = umax > 1e10 and mism_feature is None
                report("singular problem" if huge else feature,
                       ("huge field (>1e10) " if huge else "a field ") + "is returned for a right-hand side without solution",
                       f"rhs={label} has distance {float(np.linalg.norm(null.T @ (r - b))):.3g} from range(A)+b but a "
                       f"field was returned (max |u| = {umax:.3g}, max |L_bc(u) - rhs| = {rmax:.3g})", label=label,
                       detail={"rhs": r.tolist(), "u": u.tolist()})
            else:
                stat["incompat_exc"] += 1
            continue
        if exc is not None:
            if singular:
                stat["compat_exc"] += 1
                cause = exc.__cause__
                refs.append("singular problem, compatible rhs refused: "
                            + _short(f"{type(cause).__name__}: {cause}" if cause is not None else f"{type(exc).__name__}: {exc}"))
            else:
                report(feature, "exception for a non-singular problem",
                       f"cond={cond:.3g}, rhs={label}: {type(exc).__name__}: {str(exc)[:200]}", label=label)
            continue
        ok, rmax = residual_ok(u, r)
        nexec += 1
        if ok:
            stat["compat_field" if singular else "solved"] += 1
        else:
            report(feature, "returned field does not solve the discrete problem"
                   + (" (singular problem, compatible rhs)" if singular else ""),
                   f"rhs={label}: max |L_bc(u) - rhs| = {rmax:.3g} (allowed {TOL:g} (1+|rhs-b|)), cond={cond:.3g}",
                   label=label, detail={"rhs": r.tolist(), "u": u.tolist(), "residual": (L(u) - r).tolist() if np.all(np.isfinite(u)) else None})

    # -- 5. solve_laplace_equation == Poisson with zero rhs ---------------------------------------
    if zero_result is not None and wanted("laplace"):
        try:
            ul = np.array(solve_laplace_equation(grid, bc).data, dtype=float).ravel()
            el = None
        except Exception as exc:  # noqa: BLE001
            ul, el = None, exc
        nexec += 1
        u0, e0 = zero_result
        if (ul is None) != (u0 is None):
            report(feature, "solve_laplace_equation differs from Poisson with zero rhs",
                   f"Laplace: {'exception ' + type(el).__name__ if ul is None else 'field'}, "
                   f"Poisson(0): {'exception ' + type(e0).__name__ if u0 is None else 'field'}", label="laplace")
        elif ul is None:
            if type(el) is not type(e0):
                report(feature, "solve_laplace_equation differs from Poisson with zero rhs",
                       f"Laplace raises {type(el).__name__}, Poisson(0) raises {type(e0).__name__}", label="laplace")
        elif not np.array_equal(ul, u0):
            # identical computation (same matrix, same rhs, deterministic SuperLU / lsmr): bit equality
            report(feature, "solve_laplace_equation differs from Poisson with zero rhs",
                   f"max difference {float(np.abs(ul - u0).max()):.3g}", label="laplace",
                   detail={"laplace": ul.tolist(), "poisson0": u0.tolist()})

    # -- outcome ----------------------------------------------------------------------------------
    if viol:
        out = ("singular" if singular else "non-singular") + ": violation"
    elif not singular:
        out = "non-singular: field for every rhs"
    else:
        cf, ce = stat["compat_field"], stat["compat_exc"]
        out = ("singular: compatible rhs -> " + ("field" if cf and not ce else "exception" if ce and not cf else
                                                 "field or exception (depends on rhs)" if cf else "none solvable")
               + f"; incompatible rhs -> {'exception' if stat['incompat_exc'] else 'none tested'}")
    return {
        "v": viol[:6],
        "n": nexec,
        "nt": True,
        "key": f"{gname}|{sorted(bcj.items())!r}",
        "out": out,
        "ref": sorted(set(refs)),
        "info": {"singular": singular, "cond": cond if cond != float("inf") else 1e300, "rank_deficit": N - rank,
                 "N": N, "worst": worst, **stat},
    }


# ----------------------------------------------------------------------------------------------
# re-solve part: ONE BoundariesList object is re-used after a condition was changed through its public
# interface (``value`` setter, ``MixedBC.const``, the array handed to ``link_value``)
# ----------------------------------------------------------------------------------------------

FN_RESOLVE = "checks.c18:resolve_case"

RESOLVE_GRIDS = [
    ["unit", [3], [False]],
    ["cart", [[0, 1]], [4], [False]],  # dx = 0.25
    ["cart", [[0, 1], [-1, 3]], [2, 3], [False, False]],  # dx = 0.5, 4/3
    ["cart", [[0, 1], [-1, 3]], [3, 2], [True, False]],
    ["polar", [1, 2], 3],
    ["polar", 2, 3],
    ["sph", [1, 2], 3],
    ["sph", 2, 3],
    ["cyl", [1, 2], [0, 1], [2, 3], False],
    ["cyl", 2, [-1, 1], [3, 2], False],
    ["cyl", [0.5, 1.5], [0, 2], [2, 2], True],
]
RESOLVE_GRIDS_THOROUGH = [
    ["unit", [2], [False]],
    ["cart", [[0, 1], [0, 2], [0, 3]], [2, 2, 3], [False, False, False]],
    ["cart", [[0, 1], [0, 2], [-3, 3]], [2, 3, 2], [False, True, False]],
    ["polar", [0.5, 3], 4],
    ["sph", [2, 2.5], 4],
    ["cyl", 1, [0, 3], [2, 4], True],
]


def enumerate_resolve(tier, seed):
    """every (grid, side that carries a condition, kind of change, way of changing it)"""
    vals = bc_values(seed)
    new = {"v": vals["v"] + 1.75, "d": vals["d"] + 1.125, "g1": vals["g1"] + 0.75, "beta": vals["beta"] - 1.25,
           "k": vals["k"] - 2.0, "g0": vals["g0"]}
    cases = []
    for spec in RESOLVE_GRIDS + (RESOLVE_GRIDS_THOROUGH if tier == "thorough" else []):
        geo = geometry(spec)
        n = geo["num_axes"]
        hole = not (geo["axes"][0] == "r" and geo["bounds"][0][0] == 0)
        for axis in range(n):
            if geo["periodic"][axis]:
                continue
            face = [m for i, m in enumerate(geo["shape"]) if i != axis]
            for upper in (False, True):
                if axis == 0 and not upper and not hole:
                    continue  # r = 0 is no boundary: the condition given there does not enter the operator
                # the other sides: Dirichlet opposite, Robin / Neumann elsewhere (non-singular unless the changed
                # condition is a curvature condition on a 1-axis grid, which is handled through compatible rhs)
                kinds = [None if geo["periodic"][a] else ("mixed", "derivative") for a in range(n)]
                kinds[axis] = ("value", "value")
                base = make_case(spec, kinds, vals)["bc"]
                key = geo["axes"][axis] + ("+" if upper else "-")
                variants = [
                    ("value", side_spec("value", face, vals), side_spec("value", face, new), "setter"),
                    ("derivative", side_spec("derivative", face, vals), side_spec("derivative", face, new), "setter"),
                    ("mixed value", side_spec("mixed", face, vals), {**side_spec("mixed", face, vals), "value": new["g1"]}, "setter"),
                    ("mixed const", side_spec("mixed", face, vals), {**side_spec("mixed", face, vals), "const": new["beta"]}, "setter"),
                    ("mixed value+const", side_spec("mixed", face, vals), side_spec("mixed", face, new), "setter"),
                    ("curvature", side_spec("curvature", face, vals), side_spec("curvature", face, new), "setter"),
                    ("value 0 -> v", side_spec("value0", face, vals), side_spec("value", face, new), "setter"),
                ]
                if n > 1:
                    variants += [
                        ("value scalar -> per-face array", side_spec("value", face, vals), side_spec("value_arr", face, new), "setter"),
                        ("curvature per-face array -> scalar", side_spec("curvature_arr", face, vals), side_spec("curvature", face, new), "setter"),
                        ("value per-face array", side_spec("value_arr", face, vals), side_spec("value_arr", face, new), "setter"),
                        ("value linked array", side_spec("value_arr", face, vals), side_spec("value_arr", face, new), "link"),
                        ("derivative linked array", {"type": "derivative", "value": side_spec("value_arr", face, vals)["value"]},
                         {"type": "derivative", "value": side_spec("value_arr", face, new)["value"]}, "link"),
                        ("curvature linked array", side_spec("curvature_arr", face, vals), side_spec("curvature_arr", face, new), "link"),
                    ]
                for name, old_side, new_side, route in variants:
                    bc = dict(base)
                    bc[key] = old_side
                    cases.append({"grid": spec, "bc": bc, "key": key, "axis": axis, "upper": upper, "new": new_side,
                                  "variant": name, "route": route})
    return cases


def resolve_case(case):
    """solve with one BoundariesList, change one condition through its public interface, solve again with the
    SAME object (must solve the problem for the NEW data and equal the solution obtained with freshly built
    conditions), change back, solve a third time (must equal the first)"""
    import numpy as np
    from pde import ScalarField, solve_laplace_equation, solve_poisson_equation

    spec, bcj, key, new_side, route = case["grid"], case["bc"], case["key"], case["new"], case["route"]
    geo = geometry(spec)
    grid = make_grid(spec)
    shape = tuple(geo["shape"])
    N = int(np.prod(shape))
    gname = grid_name(spec)
    old_side = bcj[key]
    kind = old_side["type"]
    side = _side_name(geo, case["axis"], case["upper"])
    # family = grid class x kind of condition x way of changing it (the variant and the side are in the message)
    what = f"{kind} condition changed through " + ("the array given to link_value" if route == "link" else "its public setter")
    viol, seen, nexec = [], set(), 0

    def report(clause, msg, detail=None):
        sig = f"{CLASS[spec[0]]}|re-solve|{what}|{clause}"
        if sig not in seen:
            seen.add(sig)
            viol.append({"sig": sig, "msg": f"{gname} bc={bcj!r}, {side} side ({key}), {case['variant']} -> {new_side!r}: {msg}",
                         "detail": detail})

    bc_old = _np_bc(np, bcj)
    bc_new = _np_bc(np, {**bcj, key: new_side})

    # independent description of both problems: operators extracted with FRESHLY built conditions
    def extract(bcdict):
        fresh = grid.get_boundary_conditions(bcdict)

        def L(vec):
            return np.array(ScalarField(grid, np.array(vec.reshape(shape), dtype=float)).laplace(fresh).data, dtype=float).ravel()

        b = L(np.zeros(N))
        A = np.empty((N, N))
        for k in range(N):
            e = np.zeros(N)
            e[k] = 1.0
            A[:, k] = L(e) - b
        return L, A, b

    L0, A0, b0 = extract(bc_old)
    L1, A1, b1 = extract(bc_new)
    nexec += 2 * (N + 1)
    if np.array_equal(A0, A1) and np.array_equal(b0, b1):
        return {"nt": False, "out": "the change does not alter the discrete problem", "n": nexec}
    S = np.linalg.svd(A1, compute_uv=False)
    smax = max(float(S[0]), max(1.0 / d**2 for d in geo["dx"]))
    singular = not (S[-1] > 0 and smax / float(S[-1]) < COND_SINGULAR)

    # right-hand sides: the determining set of the new problem (zero and every e_k; for a singular problem the
    # spanning set b1 + A1 e_k of its compatible rhs) and, for singular problems, the compatible rhs of the OLD one
    rhs = [("zero", np.zeros(N))]
    for k in range(N):
        e = np.zeros(N)
        e[k] = 1.0
        if singular:
            rhs.append((f"b1+A1.e{k}", b1 + A1[:, k]))
            rhs.append((f"b0+A0.e{k}", b0 + A0[:, k]))
        else:
            rhs.append((f"e{k}", e))
    if singular:
        rhs += [("b1", b1.copy()), ("b0", b0.copy())]

    def solve_all(cond):
        nonlocal nexec
        out = {}
        for label, r in rhs:
            nexec += 1
            try:
                u = solve_poisson_equation(ScalarField(grid, r.reshape(shape)), cond)
                out[label] = np.array(u.data, dtype=float).ravel()
            except Exception as exc:  # noqa: BLE001  (RuntimeError = loud refusal; anything else is reported below)
                out[label] = f"{type(exc).__name__}: {_short(exc)}"
        nexec += 1
        try:
            out["laplace"] = np.array(solve_laplace_equation(grid, cond).data, dtype=float).ravel()
        except Exception as exc:  # noqa: BLE001
            out["laplace"] = f"{type(exc).__name__}: {_short(exc)}"
        return out

    def same(x, y):
        if isinstance(x, str) or isinstance(y, str):
            return isinstance(x, str) and isinstance(y, str) and x.split(":")[0] == y.split(":")[0]
        # identical linear systems solved by the same deterministic algorithm: eps * cond * |u| at most
        return bool(np.all(np.isfinite(x)) and np.all(np.abs(x - y) <= 1e-10 * (1 + np.abs(y).max())))

    def solves(u, r, L, b):
        if isinstance(u, str) or not np.all(np.isfinite(u)):
            return False
        return bool(np.all(np.abs(L(u) - r) <= TOL * (1 + np.abs(r - b))))

    # the ONE object that is re-used; conditions are changed through the public interface only
    bcs = grid.get_boundary_conditions(bc_old)
    target = bcs[case["axis"]].high if case["upper"] else bcs[case["axis"]].low
    linked = None
    if route == "link":
        linked = np.array(bc_old[key]["value"], dtype=float)
        target.link_value(linked)

    def change(to):
        frm = {"type": kind, "value": target.value if linked is None else None, "const": getattr(target, "const", None)}
        if route == "link":
            linked[...] = np.array(to["value"], dtype=float)
            return
        val = np.array(to["value"], dtype=float) if isinstance(to["value"], list) else to["value"]
        cur = np.asarray(frm["value"], dtype=float)
        if cur.shape != np.shape(val) or not np.array_equal(cur, val):
            target.value = val  # only what differs is set: a change of beta alone never calls the value setter
        if "const" in to and float(np.asarray(frm["const"])) != float(to["const"]):
            target.const = to["const"]

    first = solve_all(bcs)
    change(new_side)
    w = np.cos(1.0 + 1.7 * np.arange(N)) + 0.3
    ghost = np.array(ScalarField(grid, w.reshape(shape)).laplace(bcs).data, dtype=float).ravel()
    nexec += 1
    if not np.all(np.abs(ghost - L1(w)) <= 1e-11 * (1 + np.abs(L1(w)).max())):
        report("Laplacian with the re-used conditions differs from the one with freshly built conditions",
               f"max difference {float(np.abs(ghost - L1(w)).max()):.3g}")
    second = solve_all(bcs)
    fresh = solve_all(grid.get_boundary_conditions(bc_new))
    change(old_side)
    third = solve_all(bcs)

    nfield = 0
    for label, r in rhs + [("laplace", np.zeros(N))]:
        u2, uf, u1, u3 = second[label], fresh[label], first[label], third[label]
        nfield += not isinstance(uf, str)  # fields returned for the reference (freshly built conditions)
        for phase, u in (("first", u1), ("second", u2), ("third", u3), ("fresh", uf)):
            if isinstance(u, str) and not u.startswith("RuntimeError"):
                report(f"unexpected {u.split(':')[0]} in the {phase} solve", f"rhs={label}: {u}")
        if not same(u2, uf):
            if solves(u2, r, L0, b0) and not solves(u2, r, L1, b1):
                report("second solve returns the solution for the OLD boundary data",
                       f"rhs={label}: the field solves the problem with the old condition, max residual for the new one "
                       f"{float(np.abs(L1(u2) - r).max()):.3g}; freshly built conditions give "
                       + ("an exception" if isinstance(uf, str) else f"a field differing by {float(np.abs(u2 - uf).max()):.3g}"),
                       detail={"rhs": r.tolist(), "second": u2.tolist(), "fresh": uf if isinstance(uf, str) else uf.tolist()})
            else:
                report("second solve differs from the solve with freshly built conditions",
                       f"rhs={label}: re-used object -> {u2 if isinstance(u2, str) else 'field'}, fresh object -> "
                       f"{uf if isinstance(uf, str) else 'field'}"
                       + ("" if isinstance(u2, str) or isinstance(uf, str) else f", max difference {float(np.abs(u2 - uf).max()):.3g}"))
        elif not isinstance(u2, str) and not solves(u2, r, L1, b1):
            report("second solve does not solve the discrete problem for the new data",
                   f"rhs={label}: max residual {float(np.abs(L1(u2) - r).max()):.3g}")
        if not same(u3, u1):
            report("third solve (condition changed back) differs from the first",
                   f"rhs={label}: first -> {u1 if isinstance(u1, str) else 'field'}, third -> {u3 if isinstance(u3, str) else 'field'}"
                   + ("" if isinstance(u1, str) or isinstance(u3, str) else f", max difference {float(np.abs(u1 - u3).max()):.3g}"))
        elif not singular and not isinstance(u1, str) and not solves(u1, r, L0, b0):
            report("first solve does not solve the discrete problem", f"rhs={label}")
    if nfield == 0:
        return {"v": viol, "nt": False, "ref": "re-solve: every right-hand side refused (RuntimeError)", "out": "refused", "n": nexec}
    return {"v": viol[:4], "n": nexec, "nt": True,
            "key": f"{gname}|{key}|{case['variant']}|{route}",
            "out": ("singular" if singular else "non-singular") + (": violation" if viol else ": 3 solves consistent")}


# ----------------------------------------------------------------------------------------------


def main(run):
    only = getattr(run, "only", None)  # development aid: ./check C18 --only main,jit,resolve

    def wanted(alias):
        return not only or alias in only

    vals = bc_values(run.seed)
    res, rres = [], []
    if wanted("main"):
        cases = enumerate_cases(run.tier, run.seed)
        res += run.explore(FN, cases, mode="I", part="all rhs per (grid, BC assignment)", collect=True, chunksize=8)
    if wanted("jit"):
        jit = [make_case(spec, kinds, vals) for spec, kinds in G_JIT]
        if run.tier == "quick":
            jit = jit[::2] + jit[-1:]
        res += run.explore(FN, jit, mode="J", part="same worker under real JIT (compiled Laplacian)", collect=True,
                           chunksize=1, nproc=min(12, len(jit)))
    if wanted("resolve"):
        rcases = enumerate_resolve(run.tier, run.seed)
        rres = run.explore(FN_RESOLVE, rcases, mode="I", part="re-solve with one BoundariesList after a public change",
                           collect=True, chunksize=2)
    if only:
        run.exhaustive = False
        run.caps.append(f"development run restricted to parts {sorted(only)}")

    tot = {k: 0 for k in ("solved", "compat_field", "compat_exc", "incompat_exc", "borderline")}
    nsing = 0
    cond_ns, cond_s, worst = 0.0, float("inf"), 0.0
    fams = set()
    for case, r in res:
        info = r.get("info")
        if not info:
            continue
        fams.add(case["grid"][0])
        for k in tot:
            tot[k] += info[k]
        worst = max(worst, info["worst"])
        if info["singular"]:
            nsing += 1
            cond_s = min(cond_s, info["cond"])
        else:
            cond_ns = max(cond_ns, info["cond"])
    counts: dict = {}
    for case, r in res + rres:
        for v in r.get("v", []):
            counts[v["sig"]] = counts.get(v["sig"], 0) + 1
    run.notes["violating_problems_by_signature"] = dict(sorted(counts.items()))  # same seed => same numbers
    run.notes["re_solve"] = {"cases": len(rres), "judged": sum(1 for _, r in rres if r.get("nt", True)),
                             "change has no effect on the discrete problem": sum(1 for _, r in rres if r.get("out", "").startswith("the change"))}
    run.notes["problems"] = {"total": len(res), "singular": nsing, "non_singular": len(res) - nsing}
    run.notes["right_hand_sides"] = {
        "non-singular: field returned and residual within tolerance": tot["solved"],
        "singular, compatible rhs: correct field returned": tot["compat_field"],
        "singular, compatible rhs: exception (accepted, observation)": tot["compat_exc"],
        "singular, incompatible rhs: exception (required)": tot["incompat_exc"],
        "singular, rhs neither provably compatible nor provably rejected (skipped)": tot["borderline"],
    }
    run.notes["condition_numbers"] = {"largest of the non-singular class": cond_ns,
                                      "smallest of the singular class": cond_s if nsing else None,
                                      "threshold": COND_SINGULAR}
    run.notes["largest_accepted_residual_over_tolerance"] = worst
    run.notes["bc_values"] = vals
    run.notes["grid_kinds_explored"] = sorted(fams)
    run.notes["observations"] = [
        "not violations (listed under refusals): compatible right-hand sides of singular problems are sometimes refused - "
        "curvature conditions on both sides of an axis give zero rows and SuperLU raises RuntimeError ('failed to factorize "
        "matrix') before the lsmr fallback is reached; lsmr sometimes misses the 1e-5 acceptance level",
        "the docstring of solve_poisson_equation states laplace(u) = -f, the implementation (and property C18) solve "
        "laplace(u) = f",
    ]
    # the classification must be clear-cut: nothing may sit between 'well conditioned' and 'exactly singular'
    if cond_ns > 1e7 or (nsing and cond_s < 1e13):
        run.exhaustive = False
        run.caps.append(f"classification gap not clear: max cond non-singular {cond_ns:.3g}, min cond singular {cond_s:.3g}")
    run.assumptions += [
        "L_bc = A.+b is extracted from the real Laplacian (numba backend; interpreted source in mode I, compiled in the "
        "mode-J part) on the zero field and every unit basis vector; affinity is checked on a generic vector and, for "
        "N <= 6 cells, on all e_j + 2 e_k",
        "tolerance: the solver accepts |M u + vec - rhs|_i <= 1e-5 (1 + |rhs_i - vec_i|) (np.allclose rtol=atol=1e-5 in "
        "make_general_poisson_solver); the oracle allows 2e-5 (1 + |rhs_i - b_i|) on the stencil residual",
        "a rhs of a singular problem counts as 'without solution' only if its distance from range(A)+b exceeds "
        "10 x the largest residual the solver's own test could accept (dist/sqrt(N) > 1e-4 (1+|rhs-b|_max)); it counts "
        "as compatible if the distance is <= 1e-10 relative; anything between is skipped and counted",
        "sparse matrix route compared with (A, b) entry-wise at 1e-12 (max|A| + max|b| + max 1/dx^2)",
        "solve_laplace_equation must be bit-identical to solve_poisson_equation with a zero field (same deterministic computation)",
        "inhomogeneous BC values are generic numbers moved by VERIF_SEED (gamma > 0); per-face arrays exercise the "
        "non-homogeneous branch of get_sparse_matrix_data on grids with more than one axis",
        "accepted refusal: RuntimeError only; any other exception type is a violation",
        "re-solve part: the changed condition is the only difference between the two problems; 'public interface' = the "
        "`value` setter, the attribute `MixedBC.const`, in-place change of the array handed to `link_value`; the oracle for "
        "the second solve is built from FRESHLY constructed conditions (operator extraction and reference solution); "
        "solutions of identical linear systems must agree to 1e-10 (1+|u|)",
    ]
    return (
        "grids of all five classes (2-4 cells per axis, 1-3 axes, with/without hole, periodic mixes, anisotropic spacing) x "
        "for every non-periodic axis taken as primary: ALL ordered pairs (lower, upper) of {value 0/v, derivative 0/d, mixed "
        "(beta=0, beta!=0), curvature 0/k, + per-face arrays of value/mixed/curvature on multi-axis grids} x on the other axes "
        "a rotating choice that itself runs through all ordered pairs (thorough: 3 rotations, more grids, and all 64x64 "
        "combinations of the scalar kinds on four 2-axis grids); per problem every right-hand side of the determining set "
        "(non-singular: 0 and every e_k; singular: 0, b, b+A e_k, b+e_k, b+1, b+left null vectors); distinct = distinct "
        "(grid, BC assignment) on which at least one solve was judged; re-solve part: every (small grid of each class, "
        "side carrying a condition, kind of change: value / derivative / mixed gamma / mixed beta / both / curvature / "
        "0->v / scalar<->per-face array / linked array) x the same determining set of rhs, three solves with ONE "
        "BoundariesList (old data, new data, old data) against freshly built conditions"
    )
