"""C08 - trackers fire exactly once per scheduled time, in order, even when stopping.

(a) fault-free schedule clauses on every run of the alphabet; (b) fault enumeration: for every
configuration, every tracker, every call index of that tracker and both stop exceptions (plus
simultaneous stops of two trackers) the run is repeated with the stop injected and compared with
the fault-free run.  See DESIGN.md, C08.
"""

from __future__ import annotations

import itertools
import math

from checks.c07 import PAIR_POOL, SINGLES, TRIPLE_POOL

PROPERTY = "C08"
LEVEL = "fault_enumeration"

# (solver, backend, adaptive)
ENGINES = [
    ("euler", "numpy", False),
    ("euler", "numba", False),
    ("runge-kutta", "numba", False),
    ("adams-bashforth", "numpy", False),
    ("adams-bashforth", "numba", False),
    ("implicit", "numpy", False),
    ("euler", "numpy", True),
    ("euler", "numba", True),
    ("runge-kutta", "numpy", True),
    ("runge-kutta", "numba", True),
]
DTS = [0.1, 1 / 3, 1.0]
T0S = [0.0, -2.0, 1.5]
RANGES = [(3.0, True), (7.0, True), (13.0, True), (2.5, False), (5.75, False)]


def tracker_sets(tier):
    sets = [[s] for s in SINGLES]
    sets += [list(p) for p in itertools.combinations(PAIR_POOL, 2)]
    sets += [[p, p] for p in PAIR_POOL[:3]]
    sets += [list(p) for p in itertools.combinations(TRIPLE_POOL, 3)]
    if tier == "thorough":
        sets += [list(p) for p in itertools.combinations(SINGLES, 2) if list(p) not in sets]
    return sets


def _run(L, eq, s0, t0, t1, dt, engine, tset, arm=None, storage_D=None):
    """one simulation; arm = {tracker index: (call index, exc name, msg)}"""
    solver, backend, adaptive = engine
    log = []
    trackers = []
    for i, spec in enumerate(tset):
        ra, exc, msg = (arm or {}).get(i, (None, None, None))
        trackers.append(
            L["Rec"](L["make_interrupt"](spec, dt, t0, t1), raise_at=ra, exc=exc, msg=msg, log=log, ident=i)
        )
    storage = None
    if storage_D is not None:
        storage = L["MemoryStorage"]()
        trackers.append(storage.tracker(storage_D))
    kw = {"adaptive": True, "tolerance": 1e-3} if adaptive else {}
    res, info = eq.solve(
        s0, (t0, t1), dt=dt, solver=solver, backend=backend, tracker=trackers, ret_info=True, **kw
    )
    return res, info, trackers, log, storage


def config(case):
    from checks import _sim

    L = _sim.lib()
    np = L["np"]
    engine = tuple(case["engine"])
    solver, backend, adaptive = engine
    dt, t0, tier = case["dt"], case["t0"], case.get("tier", "quick")
    only = case.get("only")
    eq = L["Lin"](-0.5)
    grid = L["UnitGrid"]([2])
    s0 = L["ScalarField"](grid, [1.0, 2.0])
    viol, n, keys, outs = [], 0, [], set()
    faults = 0

    def bad(clause, mult, tset, **detail):
        c = dict(case)
        c["only"] = [mult, tset]
        viol.append(
            {
                "sig": f"{solver}|{backend}|{'adaptive' if adaptive else 'fixed'}|{clause}",
                "msg": f"{clause}: dt={dt} t0={t0} range={mult}*dt trackers={tset} {detail}",
                "detail": detail,
                "case": c,
                "fn": "checks.c08:config",
            }
        )

    for mult, whole in RANGES:
        if only and mult != only[0]:
            continue
        t1 = t0 + mult * dt
        T = t1 - t0
        for tset in tracker_sets(tier):
            if only and tset != only[1]:
                continue
            if len(viol) > 15:
                break
            # ---------------- (a) fault-free run ----------------
            sD = None
            if len(tset) == 1 and tset[0][0] == "const" and tset[0][1] >= 1:
                sD = tset[0][1] * dt
            res, info, trackers, log, storage = _run(L, eq, s0, t0, t1, dt, engine, tset, storage_D=sD)
            n += 1
            tf = info["controller"]["t_final"]
            recs = trackers[: len(tset)]
            ctl = info["controller"]
            if ctl.get("successful") is not True or ctl.get("stop_reason") != "Reached final time":
                bad("fault-free run does not report success", mult, tset, info=str(ctl.get("stop_reason")))
            for i, tr in enumerate(recs):
                ts = tr.ts
                if any(b <= a for a, b in zip(ts, ts[1:])):
                    bad("tracker times not strictly increasing", mult, tset, i=i, ts=ts)
                if tr.fin != 1 or tr.init != 1:
                    bad("tracker not initialised/finalised exactly once", mult, tset, i=i)
                if any(t < t0 - 1e-12 or t > tf + 1e-12 for t in ts):
                    bad("tracker called outside [t_start, t_final]", mult, tset, i=i, ts=ts)
                if not adaptive:
                    for t in ts:
                        m = (t - t0) / dt
                        if abs(m - round(m)) > 1e-6 * max(1.0, abs(m)):
                            bad("tracker called at a time that is no simulation time", mult, tset, t=t)
                            break
                spec = tset[i]
                if spec[0] in ("const", "const_abs") and spec[1] >= 1:
                    D = spec[1] * dt
                    # the schedule starts when the tracker becomes active: at t_start of the run, or at its own (absolute)
                    # t_start if that is later
                    base = t0 if spec[0] == "const" else max(t0, spec[2])
                    if any(t < base - 1e-9 * dt for t in ts):
                        bad("tracker called before its t_start", mult, tset, ts=ts, t_start=base)
                    k = 0
                    unserved = None
                    while True:
                        s = base + k * D
                        if s > t1 - 1e-9 * dt:
                            break
                        if adaptive:
                            cnt = sum(1 for c in ts if abs(c - s) <= 1e-12 * max(1.0, abs(s)))
                        else:
                            cnt = sum(1 for c in ts if abs(c - s) <= dt / 2 * (1 + 1e-9))
                        if cnt != 1 and unserved is None:
                            unserved = (s, cnt)
                        k += 1
                    if unserved:
                        bad("scheduled time not served exactly once", mult, tset, scheduled=unserved[0],
                            count=unserved[1], ts=ts)
                    # number of calls: one per scheduled time (+ ambiguous one at t_end, + final)
                    amb = abs(base + k * D - t1) <= 1e-9 * dt
                    lo, hi = k, k + (1 if amb else 0) + (0 if whole else 1)
                    if amb and whole:
                        lo = k  # a scheduled time numerically at t_end may or may not be served
                    if not lo <= len(ts) <= hi:
                        bad("wrong number of tracker calls", mult, tset, calls=len(ts), expected=[lo, hi])
                    if len(ts) > k + (1 if amb else 0) and abs(ts[-1] - tf) > 1e-9 * dt:
                        bad("extra call is not at the final time", mult, tset, ts=ts, t_final=tf)
                    if storage is not None:
                        if list(storage.times) != ts:
                            bad("storage tracker times differ from a recording tracker", mult, tset,
                                storage=list(storage.times), ts=ts)
                        if any(a.tobytes() != b.tobytes() for a, b in zip(storage.data, tr.vals)):
                            bad("storage tracker recorded other data than a recording tracker", mult, tset)
                        if whole and not amb and len(storage) != math.floor(T / D + 1e-9) + 1:
                            bad("storage does not hold floor(T/D)+1 frames", mult, tset, frames=len(storage))
            # the order of calls: by time, then by tracker index
            if any((b[1], b[0]) <= (a[1], a[0]) for a, b in zip(log, log[1:])):
                bad("trackers not called in order of time and index", mult, tset, log=log)
            keys.append(f"{engine}|{dt}|{t0}|{mult}|{tset}")
            outs.add(f"calls={min(len(log), 30)}")

            # ---------------- (b) fault enumeration ----------------
            def check_fault(arm):
                nonlocal faults
                res2, info2, tr2, log2, _ = _run(L, eq, s0, t0, t1, dt, engine, tset, arm=arm)
                faults += 1
                taus = [recs[i].ts[k] for i, (k, _, _) in arm.items()]
                tau = min(taus)
                first = [i for i, (k, _, _) in arm.items() if recs[i].ts[k] == tau]
                exp_log = [e for e in log if e[1] <= tau]
                c2 = info2["controller"]
                tag = f"stop injected {arm}"
                if log2 != exp_log:
                    bad("calls with a stop differ from the fault-free prefix (all due trackers served, none later)",
                        mult, tset, arm=arm, got=log2, expected=exp_log)
                if c2.get("t_final") != tau:
                    bad("t_final is not the stop time", mult, tset, arm=arm, t_final=c2.get("t_final"), stop=tau)
                i0 = first[0]
                exp_state = recs[i0].vals[arm[i0][0]]
                if res2.data.tobytes() != exp_state.tobytes():
                    bad("returned state is not the state at the stop time", mult, tset, arm=arm,
                        got=res2.data.tolist(), expected=exp_state.tolist())
                ok_reason = False
                for i in first:
                    k, exc, msg = arm[i]
                    default = "Tracker raised FinishedSimulation" if exc == "FinishedSimulation" else "Tracker raised StopIteration"
                    if c2.get("stop_reason") == (msg or default) and c2.get("successful") is (exc == "FinishedSimulation"):
                        ok_reason = True
                if not ok_reason:
                    bad("stop reason / success flag not reported", mult, tset, arm=arm,
                        stop_reason=str(c2.get("stop_reason")), successful=c2.get("successful"))
                for i, tr in enumerate(tr2):
                    if tr.fin != 1:
                        bad("tracker not finalised exactly once after a stop", mult, tset, arm=arm, i=i, fin=tr.fin)
                return tag

            for i, tr in enumerate(recs):
                for k in range(len(tr.ts)):
                    for exc, msg in (("StopIteration", None), ("FinishedSimulation", f"done-{i}-{k}")):
                        check_fault({i: (k, exc, msg)})
                    if tier == "thorough":
                        check_fault({i: (k, "StopIteration", f"abort-{i}-{k}")})
                        check_fault({i: (k, "FinishedSimulation", None)})
            # two trackers stopping at the same time (both orders of exception type)
            for i, j in itertools.combinations(range(len(recs)), 2):
                for k, ti in enumerate(recs[i].ts):
                    if ti in recs[j].ts:
                        l = recs[j].ts.index(ti)
                        check_fault({i: (k, "StopIteration", "A"), j: (l, "FinishedSimulation", "B")})
                        check_fault({i: (k, "FinishedSimulation", "A"), j: (l, "StopIteration", "B")})
                    # a later stop of another tracker must be irrelevant
                    later = [l for l, tj in enumerate(recs[j].ts) if tj > ti]
                    if later and k in (0, len(recs[i].ts) - 1):
                        check_fault({i: (k, "StopIteration", "first"), j: (later[0], "FinishedSimulation", "later")})
    return {"v": viol[:15], "n": n + faults, "keys": keys, "outs": sorted(outs), "info": {"faults": faults}}


def main(run):
    cases = [
        {"engine": list(e), "dt": dt, "t0": t0, "tier": run.tier}
        for e in ENGINES
        for dt in DTS
        for t0 in T0S
    ]
    res = run.explore("checks.c08:config", cases, mode="I", part="stop-injection", chunksize=1, limit=2400, collect=True)
    run.notes["fault_injected_runs"] = sum(r.get("info", {}).get("faults", 0) for _, r in res)
    # compiled steppers: one engine each, reduced alphabet
    jc = [
        {"engine": list(e), "dt": 0.1, "t0": 0.0, "tier": "J", "only_sets": 1}
        for e in (("euler", "numba", False), ("runge-kutta", "numba", True), ("euler", "numba", True))
    ]
    res = run.explore("checks.c08:config_jit", jc, mode="J", part="stop-injection-jit", chunksize=1, limit=2400, collect=True)
    run.notes["fault_injected_runs_jit"] = sum(r.get("info", {}).get("faults", 0) for _, r in res)
    run.assumptions += [
        "equation du/dt=-u/2 on a 2-cell grid: every step changes the state, so states identify step counts",
        "scheduled times within 1e-9*dt of t_end are ambiguous (either outcome accepted)",
        "two simultaneous stops: either tracker's reason may be reported, with the matching success flag",
        "mode J covers three compiled steppers with a reduced range/tracker alphabet",
    ]
    return (
        "9 stepper engines (fixed and adaptive, numpy/numba) x 3 dt x 3 t_start x 5 ranges x 64 tracker sets; "
        "for each fault-free run the schedule clauses, then a stop injected at EVERY call of EVERY tracker with both "
        "exception types (plus simultaneous and later second stops) and compared with the fault-free prefix; "
        "distinct = distinct (engine, dt, t_start, range, tracker set)"
    )


def config_jit(case):
    import checks.c08 as me

    saved = (me.RANGES, me.tracker_sets)
    try:
        me.RANGES = [(3.0, True), (5.75, False)]
        me.tracker_sets = lambda tier: [
            [["const", 1]],
            [["const", 1.5], ["fixed", [0.4, 2.7]]],
        ]
        return config(case)
    finally:
        me.RANGES, me.tracker_sets = saved
